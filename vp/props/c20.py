"""C20 -- Live metadata visibility and non-destructive reading.

Decides: read-only roles have no path in the call graph to a file-system mutator (with path provenance for the
one scratch copy), a metadata write is closed on disk when `write` returns, the metadata reader keeps no state
after construction, read_latest is a forward-fill read at the upper bound.
Not decided: HDF5 visibility semantics with file locking disabled.
"""
from __future__ import annotations

import ast

from ..core import Rule, AnalysisError, norm
from .. import pyfront, pycalls

DM = "python/digital_rf/digital_metadata.py"
READ_PREFIXES = ("digital_rf_hdf5:DigitalRFReader.", "digital_metadata:DigitalMetadataReader.",
                 "digital_rf_hdf5:_top_level_dir_properties.", "digital_rf_hdf5:_channel_properties.")
READ_FUNCS = ("list_drf:ilsdrf", "list_drf:lsdrf", "list_drf:sortkey_drf", "list_drf:_yield_matching_files",
              "digital_rf_hdf5:get_unix_time")


def read_entry_points(g):
    out = [k for k in g.funcs if k.startswith(READ_PREFIXES) and "<locals>" not in k]
    out += [k for k in READ_FUNCS if k in g.funcs]
    out += [k for k in g.funcs if k.startswith("util:") and "<locals>" not in k]
    return sorted(out)


def _const_prefix(e):
    """Constant leading path component of an expression such as os.path.join("/tmp", ...)."""
    if isinstance(e, ast.Call) and pyfront.call_name(e) == "os.path.join" and e.args:
        return pyfront.const(e.args[0])
    if isinstance(e, ast.Constant) and isinstance(e.value, str):
        return e.value
    return None


def path_provenance(m, q, call):
    """For a mutator call inside function q whose path argument is a local variable: the set of constant
    prefixes of the definitions that can reach the call, partitioned on Boolean self attributes assigned
    constants in branches (self._local = True/False).  Returns list of (partition, prefix or None)."""
    fn = m.fn(q)
    g = m.cfg(q)
    if not call.args or not isinstance(call.args[0], ast.Name):
        return [(None, None)]
    var = call.args[0].id
    target = [n for n in g.nodes if n.ast is not None and not isinstance(n.ast, ast.withitem)
              and any(x is call for x in ast.walk(n.ast))]
    if not target:
        return [(None, None)]
    target = target[0]
    # Boolean attribute assignments self.X = True/False
    flags = {}
    for n in g.nodes:
        if n.kind == "stmt" and isinstance(n.ast, ast.Assign) and len(n.ast.targets) == 1:
            t = n.ast.targets[0]
            if isinstance(t, ast.Attribute) and isinstance(t.value, ast.Name) and t.value.id == "self" \
                    and isinstance(pyfront.const(n.ast.value), bool):
                flags.setdefault(t.attr, []).append((n, n.ast.value.value))
    defs = [n for n in g.nodes if n.kind in ("stmt",) and isinstance(n.ast, ast.Assign)
            and any(isinstance(t, ast.Name) and t.id == var for t in n.ast.targets)]

    def prefix_of(e, depth):
        """constant leading path component, looking through plain copies of other locals (all their definitions must agree) and
        through same-class helper methods all of whose return values have one constant prefix"""
        p = _const_prefix(e)
        if p is None and depth <= 3 and isinstance(e, ast.Call) and (pyfront.call_name(e) or "").startswith("self.") and "." in q:
            h = m.functions.get("%s.%s" % (q.split(".")[0], pyfront.call_name(e)[5:]))
            if h is not None:
                hg_defs = {}
                rets = [x.value for x in pyfront.walk_no_nested(h) if isinstance(x, ast.Return) and x.value is not None]

                def hprefix(v, d=0):
                    pp = _const_prefix(v)
                    if pp is not None or d > 3 or not isinstance(v, ast.Name):
                        return pp
                    ds_ = [a.value for a in pyfront.walk_no_nested(h) if isinstance(a, ast.Assign) and any(
                        isinstance(t, ast.Name) and t.id == v.id for t in a.targets)]
                    ps_ = {hprefix(x, d + 1) for x in ds_}
                    return list(ps_)[0] if len(ps_) == 1 else None
                ps = {hprefix(v) for v in rets}
                return list(ps)[0] if len(ps) == 1 and rets else None
        if p is not None or depth > 3 or not isinstance(e, ast.Name):
            return p
        ds = [n for n in g.nodes if n.kind == "stmt" and isinstance(n.ast, ast.Assign)
              and any(isinstance(t, ast.Name) and t.id == e.id for t in n.ast.targets)]
        ps = {prefix_of(d.ast.value, depth + 1) for d in ds}
        return list(ps)[0] if len(ps) == 1 else None
    out = []
    if not flags:
        # a Boolean attribute computed once (self.X = <test>) and then branched on: the two truth values partition the paths
        attrs = {}
        for n in g.nodes:
            if n.kind == "stmt" and isinstance(n.ast, ast.Assign) and len(n.ast.targets) == 1:
                t = n.ast.targets[0]
                if isinstance(t, ast.Attribute) and isinstance(t.value, ast.Name) and t.value.id == "self":
                    attrs.setdefault(t.attr, []).append(n)
        tested = {pyfront.dotted(n.ast)[5:] for n in g.nodes if n.kind == "cond" and isinstance(n.ast, ast.Attribute)
                  and (pyfront.dotted(n.ast) or "").startswith("self.")}
        cands = [a for a in tested if len(attrs.get(a, [])) == 1]
        if len(cands) == 1:
            flags = {cands[0]: [(attrs[cands[0]][0], True), (attrs[cands[0]][0], False)]}
    # the attribute may be a copy (or the negation) of a local that is branched on as well: `remote = <test>; self.X = not remote;
    # if remote: ...` - conditions on that local follow the partition too
    local_alias = None
    if len(flags) == 1:
        attr0, sets0 = list(flags.items())[0]
        if len({id(n_) for n_, v_ in sets0}) == 1:
            v0 = sets0[0][0].ast.value
            if isinstance(v0, ast.Name):
                local_alias = (v0.id, True)
            elif isinstance(v0, ast.UnaryOp) and isinstance(v0.op, ast.Not) and isinstance(v0.operand, ast.Name):
                local_alias = (v0.operand.id, False)
            if local_alias is not None:
                nst = [n_ for n_ in g.nodes if n_.kind == "stmt" and isinstance(n_.ast, ast.Assign) and any(
                    isinstance(t_, ast.Name) and t_.id == local_alias[0] for t_ in n_.ast.targets)]
                if len(nst) != 1:
                    local_alias = None
    if len(flags) == 1:
        attr, sets = list(flags.items())[0]
        for setter, val in sets:
            # feasible edges in this partition: conditions on self.<attr> follow only the matching label
            def filt(a, b, lab, attr=attr, val=val):
                node = g.nodes[a]
                if node.kind == "cond" and isinstance(node.ast, ast.Attribute) and pyfront.dotted(node.ast) == "self." + attr:
                    return lab in ("T" if val else "F", "exc", None)
                if local_alias is not None and node.kind == "cond" and isinstance(node.ast, ast.Name) and node.ast.id == local_alias[0]:
                    lv = val if local_alias[1] else (not val)
                    return lab in ("T" if lv else "F", "exc", None)
                return True
            reach = g.reach([setter.id], edge_filter=filt)
            if target.id not in reach:
                continue
            # definitions of var that reach the target in this partition: those on a path setter..target or before setter
            reaching = []
            for d in defs:
                if (d.id in reach and target.id in g.reach([d.id], edge_filter=filt)) or setter.id in g.reach([d.id]):
                    reaching.append(d)
            # keep only the last definitions (not killed): a def is killed if every path to target passes another def
            live = []
            for d in reaching:
                others = [x.id for x in reaching if x is not d]
                if target.id in g.reach([d.id], avoid=others, edge_filter=filt):
                    live.append(d)
            for d in live:
                out.append(("self.%s=%s" % (attr, val), prefix_of(d.ast.value, 0)))
        return out or [(None, None)]
    for d in defs:
        out.append((None, prefix_of(d.ast.value, 0)))
    return out or [(None, None)]


def _stable_construct(m, f, call, what):
    """rename-stable description of a mutator call: callee, enclosing exception handler(s), ordinal among equals"""
    def ctx(c):
        hs = []
        for anc in _ancestors(m, c):
            if anc is f:
                break
            if isinstance(anc, ast.ExceptHandler):
                t = anc.type
                names = ["<any>"] if t is None else [pyfront.dotted(t)] if not isinstance(t, ast.Tuple) else sorted(
                    pyfront.dotted(e) or "?" for e in t.elts)
                hs.append("except (%s)" % ", ".join(n or "?" for n in names))
        return " in ".join(hs)
    mine = ctx(call)
    # explicit `raise <handled type>` statements in the guarded body (directly or in same-module helpers it calls) are part of
    # the construct: they widen the set of situations in which the handler - and the mutator in it - runs
    raisers = set()
    h = m.enclosing(call, (ast.ExceptHandler,))
    tr = m.enclosing(h, (ast.Try,)) if h is not None else None
    if tr is not None and h.type is not None:
        types = {pyfront.dotted(h.type)} if not isinstance(h.type, ast.Tuple) else {pyfront.dotted(e) for e in h.type.elts}
        alias = {"IOError": "OSError", "EnvironmentError": "OSError"}
        types = {alias.get(t, t) for t in types}

        def explicit(node_list, where, depth):
            for st in node_list:
                for x in ast.walk(st):
                    if isinstance(x, ast.Raise) and x.exc is not None:
                        e = x.exc.func if isinstance(x.exc, ast.Call) else x.exc
                        n_ = pyfront.dotted(e)
                        if alias.get(n_, n_) in types:
                            raisers.add(where)
                    if isinstance(x, ast.Call) and depth > 0:
                        cn = pyfront.call_name(x) or ""
                        tgt = None
                        if cn.startswith("self."):
                            cls = m.qualname_of(f).split(".")[0]
                            tgt = m.functions.get("%s.%s" % (cls, cn[5:]))
                        elif cn in m.functions:
                            tgt = m.functions[cn]
                        if tgt is not None and tgt is not f:
                            explicit(tgt.body, cn, depth - 1)
        explicit(tr.body, "<try body>", 2)
    if raisers:
        mine += " [raised explicitly by: %s]" % ", ".join(sorted(raisers))
    same = [c for c, w in pycalls.mutator_calls(f) if w == what and ctx(c) == mine.split(" [raised")[0]]
    pos = sorted({(c.lineno, c.col_offset) for c in same})       # inlined copies of one call site count once
    text = what + ("(...) in " + mine if mine else "(...)")
    if len(pos) > 1:
        text += " #%d" % (1 + pos.index((call.lineno, call.col_offset)))
    return text


def _ancestors(m, n):
    p = m.parents.get(n)
    while p is not None:
        yield p
        p = m.parents.get(p)


def r1_read_roles(repo=None, rid="C20.R1", prefixes=None, stop_modules=()):
    r = Rule(rid, "read-only roles (readers, listings, time helpers) have no path to a file-system mutator (effects)")
    g = pycalls.Graph(repo)
    starts = read_entry_points(g)
    if prefixes:
        starts = [s for s in starts if s.startswith(prefixes)]
    if len(starts) < (20 if prefixes else 50):
        raise AnalysisError("only %d read entry points found" % len(starts))
    if stop_modules:
        # do not follow calls into these modules (their read roles are decided under another property)
        for k in list(g.edges):
            g.edges[k] = [(c, t) for c, t in g.edges[k] if t.split(":")[0] not in stop_modules]
            g.imprecise[k] = [(c, [t for t in ts if t.split(":")[0] not in stop_modules]) for c, ts in g.imprecise[k]]
    prev = g.reachable(starts, use_imprecise=False)
    prev_all = g.reachable(starts, use_imprecise=True)
    n_mut = 0
    # Each reachable function is looked at with its private helpers inlined (pyinline), public functions and constructors
    # first, so that a mutator that sits in an extracted helper is judged in the context of its caller (provenance of the
    # path, enclosing exception handlers).  A call site is reported once (original position of the call).
    order = sorted(prev_all, key=lambda k: (k.split(":")[1].split(".")[-1].startswith("_") and not k.endswith(".__init__"), k))
    seen_sites = set()
    work = []
    for fk in order:
        m0, f0 = g.funcs[fk]
        q0 = fk.split(":")[1]
        if "<locals>" in q0:
            view, fview = m0, f0
        else:
            view = m0.flat(q0, depth=4)
            fview = view.fn()
        for call, what in pycalls.mutator_calls(fview):
            site = (m0.rel, call.lineno, call.col_offset)
            if site in seen_sites:
                continue
            seen_sites.add(site)
            work.append((fk, view, fview, call, what))
    for fk, m, f, call, what in work:
        if True:
            n_mut += 1
            q = fk.split(":")[1]
            chain = g.chain(prev_all, fk)
            precise = fk in prev
            # single-candidate imprecise edges are as good as precise ones
            if not precise:
                precise = all(len(cands) == 1 for k in chain for c, cands in g.imprecise.get(k, []))
            prov = path_provenance(m, q, call)
            cons = _stable_construct(m, f, call, what)
            outside = [p for p in prov if p[1] is not None and p[1].startswith("/tmp")]
            inside = [p for p in prov if p not in outside]
            if not inside:
                r.ok("%s:%s %s `%s`" % (m.rel, call.lineno, q, cons), "acts only on the scratch copy under /tmp (%s)" % (
                    ", ".join("%s: %s" % p for p in outside)))
                r.allowed("%s: %s" % (q, cons), "path has constant provenance outside the data tree (%s)" % outside[0][1])
                continue
            if not precise:
                r.imprecise.append((fk, cons))
                r.note("imprecise: %s reaches `%s` only through name-based call edges (%s)" % (chain[0], cons, " -> ".join(chain)))
                continue
            part = "; ".join("%s -> %s" % (p[0] or "any", p[1] or "a path inside the data tree") for p in inside)
            owner = q.split(".")[0] if "." in q else q      # class (or module-level function): stable under private renames
            r.violation(m.rel, owner, cons, "a read-only entry point (%s) can reach `%s` on a path inside the data tree [%s]: "
                        "reading would create, modify or delete files" % (chain[0].split(":")[1], what, part),
                        line=call.lineno, path=chain)
    for s in starts[:1]:
        pass
    r.ok("call graph", "%d read entry points, %d functions reachable, %d mutator call sites examined" % (
        len(starts), len(prev_all), n_mut))
    r.guard(1)
    return r


def r2_write_closed_on_return(repo=None):
    r = Rule("C20.R2", "a metadata write is flushed and closed when `write` returns")
    m = pyfront.mod("digital_metadata", repo)
    cls = "DigitalMetadataWriter"
    n_open = 0
    for name, f in m.methods(cls).items():
        q = "%s.%s" % (cls, name)
        for c in pyfront.walk_no_nested(f):
            if isinstance(c, ast.Call) and pyfront.call_name(c) == "h5py.File":
                n_open += 1
                p = m.parents.get(c)
                if isinstance(p, ast.withitem):
                    r.ok("%s:%s %s" % (m.rel, c.lineno, q), "h5py.File is the context expression of a `with` (closed on exit)")
                else:
                    r.violation(m.rel, q, norm(ast.unparse(m.enclosing(c, (ast.stmt,))))[:90], "an HDF5 file is opened for "
                                "writing outside a `with`: it may still be open (unflushed) when write() returns",
                                line=c.lineno)
        for attr, node in pyfront.self_stores(f):
            v = getattr(node, "value", None)
            if v is not None and any(isinstance(x, ast.Call) and pyfront.call_name(x) == "h5py.File" for x in ast.walk(v)):
                r.violation(m.rel, q, "self.%s = h5py.File(...)" % attr, "a file handle is kept on the writer", line=node.lineno)
    if n_open < 3:
        raise AnalysisError("expected 3 h5py.File sites in DigitalMetadataWriter, found %d" % n_open)
    # the generator that holds the file open is exhausted before write() returns: in write() (private helpers inlined) the
    # generator object is the first argument of the zip() that drives the only loop over it, and that loop has no break/return
    from . import dmdroles
    ro = dmdroles.roles(repo)
    wv = ro.write_view
    w = wv.fn()
    gcall = "self." + ro.gen_name
    gens = [n for n in ast.walk(w) if isinstance(n, ast.Assign) and isinstance(n.value, ast.Call) and pyfront.call_name(n.value) == gcall
            and isinstance(n.targets[0], ast.Name)]
    gnames = {n.targets[0].id for n in gens}
    loops = [n for n in ast.walk(w) if isinstance(n, ast.For)]
    ok = False
    the_loop = None
    for lp in loops:
        it = lp.iter
        items = list(it.args) if isinstance(it, ast.Call) and pyfront.call_name(it) == "zip" and it.args else [it]

        def is_gen(e):
            return (isinstance(e, ast.Name) and e.id in gnames) or (isinstance(e, ast.Call) and pyfront.call_name(e) == gcall)
        if any(is_gen(e) for e in items):
            the_loop = lp
            early = [x for x in ast.walk(lp) if isinstance(x, (ast.Break, ast.Return))]
            ok = not early and is_gen(items[0])
    if the_loop is None:
        raise AnalysisError("%s.write: loop over the sample-group generator %s not found (helpers inlined: %s)" % (cls, ro.gen_name, wv.inlined))
    if ok:
        r.ok("%s:%s %s.write" % (m.rel, the_loop.lineno, cls), "the file-holding generator is the first argument of zip() and the loop "
             "has no break/return, so it is exhausted (leaving its `with`) before write returns")
    else:
        r.violation(m.rel, cls + ".write", "for ... in zip(...)", "the generator that holds the HDF5 file open is not exhausted "
                    "before write returns (zip stops at its first exhausted argument): the last file may still be open and "
                    "unflushed when write() returns", line=the_loop.lineno)
    # every normal return of write() happens after that loop
    g = wv.cfg()
    heads = [n.id for n in g.nodes if n.kind == "cond" and n.ast is the_loop]
    ends = [n for n in g.nodes if n.kind in ("return", "exit")]
    free = g.reach([g.entry.id], avoid=heads, skip_labels=("exc",))
    bypass = [n for n in ends if n.id in free]
    if heads and not bypass:
        r.ok("%s:%s %s.write" % (m.rel, w.lineno, cls), "every normal return passes the loop that writes the samples")
    else:
        r.violation(m.rel, cls + ".write", "return path", "write() can return without writing the samples", line=w.lineno)
    r.guard(5)
    return r


def r3_stateless_reader(repo=None):
    r = Rule("C20.R3", "the metadata reader keeps no state after construction (every query re-reads the directory)")
    m = pyfront.mod("digital_metadata", repo)
    cls = "DigitalMetadataReader"
    n = 0
    methods = m.methods(cls)
    callers = {name: set() for name in methods}
    for name, f in methods.items():
        for c in ast.walk(f):
            if isinstance(c, ast.Call) and (pyfront.call_name(c) or "").startswith("self.") and pyfront.call_name(c)[5:] in callers:
                callers[pyfront.call_name(c)[5:]].add(name)
            elif isinstance(c, ast.Attribute) and isinstance(c.value, ast.Name) and c.value.id == "self" and c.attr in callers \
                    and c.attr != name and isinstance(c.ctx, ast.Load):
                callers[c.attr].add(name)      # bound method passed around: counts as a use by `name`
    ctor_only = {"__init__"}
    changed = True
    while changed:
        changed = False
        for name in methods:
            if name not in ctor_only and name.startswith("_") and not name.startswith("__") and callers[name] \
                    and callers[name] <= ctor_only:
                ctor_only.add(name)
                changed = True
    for name, f in methods.items():
        if name == "__init__":
            continue
        n += 1
        st = pyfront.self_stores(f)
        if st and name in ctor_only:
            r.ok("%s:%s %s.%s" % (m.rel, f.lineno, cls, name), "private helper used only by the constructor (stores %s)" % sorted(
                {a for a, _ in st}))
            continue
        if st:
            r.violation(m.rel, "%s.%s" % (cls, name), "self.%s stored outside __init__" % st[0][0],
                        "the reader caches state between queries: a reader created earlier would not see what a new "
                        "reader sees", line=st[0][1].lineno)
        else:
            r.ok("%s:%s %s.%s" % (m.rel, f.lineno, cls, name), "stores no attribute on self")
    # no module/class level cache either
    for s in m.cls(cls).body:
        if isinstance(s, ast.Assign) and isinstance(s.value, (ast.Dict, ast.List)):
            r.violation(m.rel, cls, norm(ast.unparse(s)), "class-level mutable container on the reader", line=s.lineno)
    if n < 15:
        raise AnalysisError("expected >= 15 reader methods, found %d" % n)
    r.guard(15)
    return r


def r4_latest_is_ffill(repo=None):
    r = Rule("C20.R4", "read_latest is a forward-fill read at the upper bound")
    m = pyfront.mod("digital_metadata", repo)
    q = "DigitalMetadataReader.read_latest"
    f = m.fn(q)
    src = [s for s in f.body if not (isinstance(s, ast.Expr) and isinstance(s.value, ast.Constant))]
    ok = False
    wrong = None
    bounds = [a for a in ast.walk(f) if isinstance(a, ast.Assign) and isinstance(a.value, ast.Call) and pyfront.call_name(a.value) == "self.get_bounds"
              and isinstance(a.targets[0], ast.Tuple) and len(a.targets[0].elts) == 2]
    reads = [c for x in ast.walk(f) if isinstance(x, ast.Return) and isinstance(x.value, ast.Call) for c in [x.value] if pyfront.call_name(c) == "self.read"]
    if len(bounds) == 1 and len(reads) == 1:
        first, last = [e.id if isinstance(e, ast.Name) else None for e in bounds[0].targets[0].elts]
        c = reads[0]
        rparams = [a.arg for a in m.fn("DigitalMetadataReader.read").args.args if a.arg != "self"]
        start = c.args[0] if c.args else pyfront.kwarg(c, rparams[0] if rparams else "start_sample")
        meth = pyfront.kwarg(c, "method", rparams.index("method") if "method" in rparams else 3)
        mv = pyfront.const(meth) if meth is not None else None
        if isinstance(start, ast.Name) and start.id == last and mv in ("ffill", "pad"):
            ok = True
        elif isinstance(start, ast.Name) and start.id == first and first is not None:
            wrong = "reads at the lower bound"
        elif isinstance(meth, ast.Constant) and mv not in ("ffill", "pad"):
            wrong = "reads with method=%r" % (mv,)
    if ok:
        r.ok("%s:%s %s" % (m.rel, f.lineno, q), "get_bounds() then read(<upper bound>, method='ffill')")
    elif wrong is None:
        raise AnalysisError("%s: the shape `_, last = self.get_bounds(); return self.read(last, method='ffill')` was not recognised" % q)
    else:
        r.violation(m.rel, q, norm(ast.unparse(f))[-120:], "read_latest does not read at the upper bound with forward fill",
                    line=f.lineno)
    r.guard(1)
    return r


def r7_cache_keys_complete(repo=None):
    """'both a newly created reader and a reader created earlier report it': a reader object that memoises something per call must
    key the memo by everything the memoised value depends on, otherwise a later call with another argument is answered from the
    entry of an earlier one (get_digital_metadata(ch, top_level_dir=B) returned the reader made for directory A: writes into B were
    never reported).  For every method of the reader classes that both returns `self.<memo>[K]` and stores `self.<memo>[K] = V`:
    the parameters in the backward slice of V (flow-insensitive def-use over the method's locals, loop targets depending on their
    iterables) must all occur in K."""
    r = Rule("C20.R7", "a memoised answer is keyed by every argument it depends on")
    n_sites = 0
    for mod_name, classes in (("digital_rf_hdf5", ("DigitalRFReader", "_top_level_dir_properties")), ("digital_metadata", ("DigitalMetadataReader",))):
        m = pyfront.mod(mod_name, repo)
        for cls in classes:
            for name, fn in m.methods(cls).items():
                q = "%s.%s" % (cls, name)
                params = [a.arg for a in fn.args.args + fn.args.kwonlyargs if a.arg != "self"]
                stores = [n for n in pyfront.walk_no_nested(fn) if isinstance(n, ast.Assign) and len(n.targets) == 1
                          and isinstance(n.targets[0], ast.Subscript) and (pyfront.dotted(n.targets[0].value) or "").startswith("self.")]
                for st in stores:
                    memo = pyfront.dotted(st.targets[0].value)
                    # look-ups of the memo: `return memo[K]`, `memo.get(K)`, `x = memo[K]` (the store itself excluded)
                    class _Hit(object):
                        def __init__(self, key):
                            self.value = ast.Subscript(value=ast.Name("memo", ast.Load()), slice=key, ctx=ast.Load())
                    hits = []
                    returned = {x.value.id for x in pyfront.walk_no_nested(fn) if isinstance(x, ast.Return) and isinstance(x.value, ast.Name)}
                    for x in pyfront.walk_no_nested(fn):
                        if isinstance(x, ast.Return) and isinstance(x.value, ast.Subscript) and pyfront.dotted(x.value.value) == memo:
                            hits.append(_Hit(x.value.slice))
                        elif isinstance(x, ast.Assign) and len(x.targets) == 1 and isinstance(x.targets[0], ast.Name) and x.targets[0].id in returned \
                                and isinstance(st.value, ast.Name) and st.value.id == x.targets[0].id:
                            # `v = memo.get(K)` / `v = memo[K]` ... `memo[K] = v` ... `return v`
                            v_ = x.value
                            if isinstance(v_, ast.Subscript) and pyfront.dotted(v_.value) == memo:
                                hits.append(_Hit(v_.slice))
                            elif isinstance(v_, ast.Call) and isinstance(v_.func, ast.Attribute) and v_.func.attr == "get" \
                                    and pyfront.dotted(v_.func.value) == memo and v_.args:
                                hits.append(_Hit(v_.args[0]))
                    if not hits:
                        continue
                    n_sites += 1
                    # local def-use closure
                    deps = {}
                    for a in pyfront.walk_no_nested(fn):
                        if isinstance(a, ast.Assign):
                            used = {x.id for x in ast.walk(a.value) if isinstance(x, ast.Name)}
                            for t in a.targets:
                                for x in ast.walk(t):
                                    if isinstance(x, ast.Name) and isinstance(x.ctx, ast.Store):
                                        deps.setdefault(x.id, set()).update(used)
                        elif isinstance(a, (ast.For, ast.comprehension)):
                            used = {x.id for x in ast.walk(a.iter) if isinstance(x, ast.Name)}
                            for x in ast.walk(a.target):
                                if isinstance(x, ast.Name):
                                    deps.setdefault(x.id, set()).update(used)
                        elif isinstance(a, ast.If):
                            # control dependence: names assigned under a test depend on the names tested
                            used = {x.id for x in ast.walk(a.test) if isinstance(x, ast.Name)}
                            for b in ast.walk(a):
                                if isinstance(b, ast.Assign):
                                    for t in b.targets:
                                        for x in ast.walk(t):
                                            if isinstance(x, ast.Name) and isinstance(x.ctx, ast.Store):
                                                deps.setdefault(x.id, set()).update(used)
                    keyexpr = st.targets[0].slice
                    knames = set()
                    kwork = [x.id for x in ast.walk(keyexpr) if isinstance(x, ast.Name)]
                    while kwork:
                        v = kwork.pop()
                        if v in knames:
                            continue
                        knames.add(v)
                        # a key held in a local: what it was built from
                        for a in pyfront.walk_no_nested(fn):
                            if isinstance(a, ast.Assign) and any(isinstance(t, ast.Name) and t.id == v for t in a.targets):
                                kwork.extend(x.id for x in ast.walk(a.value) if isinstance(x, ast.Name))
                    # what the value depends on *other than through the key*: the closure is not continued through a name of the key
                    # (a value built from the key's own components is a function of the key)
                    work = [x.id for x in ast.walk(st.value) if isinstance(x, ast.Name)]
                    seen = set()
                    while work:
                        v = work.pop()
                        if v in seen:
                            continue
                        seen.add(v)
                        if v in knames:
                            continue
                        work.extend(deps.get(v, ()))
                    need = [p_ for p_ in params if p_ in seen]
                    missing = [p_ for p_ in need if p_ not in knames]
                    # a choice that depends on the state of the disk: the value depends on a loop variable that is selected under a
                    # file-system probe; then that variable itself has to be part of the key (otherwise the first answer is kept
                    # although the disk has changed: a new reader would choose differently)
                    probed = []
                    for lp in pyfront.walk_no_nested(fn):
                        if isinstance(lp, ast.For) and any(st is x for x in ast.walk(lp)):
                            tnames = {x.id for x in ast.walk(lp.target) if isinstance(x, ast.Name)}
                            guards_ = [i_ for i_ in ast.walk(lp) if isinstance(i_, ast.If) and any(st is x for x in ast.walk(i_))
                                       and any(isinstance(c_, ast.Call) and (pyfront.call_name(c_) or "") in (
                                           "os.access", "os.path.exists", "os.path.isdir", "os.path.isfile") for c_ in ast.walk(i_.test))]
                            if guards_ and (tnames & seen) and not (tnames & knames):
                                probed.append((lp, sorted(tnames & seen)[0]))
                    if probed and not missing:
                        lp, tn = probed[0]
                        r.violation(m.rel, q, "%s[%s] = %s" % (memo, norm(ast.unparse(keyexpr)), norm(ast.unparse(st.value))[:40]),
                                    "the memoised value depends on `%s`, the element of `%s` that a file-system probe selected when the "
                                    "entry was made, and `%s` is not part of the key: the first choice is kept for good although the disk "
                                    "changes - a reader created earlier goes on answering from the directory chosen then, a new reader "
                                    "chooses again" % (tn, norm(ast.unparse(lp.iter))[:40], tn), line=st.lineno)
                        continue
                    if missing:
                        # a key component and a value component unpacked from one call: the value may well be a function of that key
                        # component (a helper returning (directory, path in it)) - not decidable from here
                        for a_ in pyfront.walk_no_nested(fn):
                            if isinstance(a_, ast.Assign) and any(isinstance(t_, ast.Tuple) for t_ in a_.targets):
                                tn = {x.id for t_ in a_.targets for x in ast.walk(t_) if isinstance(x, ast.Name)}
                                if (tn & knames) and (tn & (seen - knames)):
                                    raise AnalysisError("%s: `%s` is unpacked from the same call as the key component `%s`; whether the memoised value "
                                                        "is a function of the key is not decided" % (q, sorted(tn & (seen - knames))[0], sorted(tn & knames)[0]))
                    site = "%s:%s %s `%s[%s]`" % (m.rel, st.lineno, q, memo, norm(ast.unparse(keyexpr)))
                    same_key = all(norm(ast.unparse(h.value.slice)) == norm(ast.unparse(keyexpr)) for h in hits)
                    if missing:
                        r.violation(m.rel, q, "%s[%s] = %s" % (memo, norm(ast.unparse(keyexpr)), norm(ast.unparse(st.value))[:40]),
                                    "the memoised value depends on the argument(s) %s, which are not part of the key: a later call with a "
                                    "different value is answered with the object made for an earlier one (a reader for another top-level "
                                    "directory never reports what is written into this one)" % ", ".join("`%s`" % x for x in missing),
                                    line=st.lineno)
                    elif not same_key:
                        r.violation(m.rel, q, "%s looked up with `%s`, stored with `%s`" % (memo, norm(ast.unparse(hits[0].value.slice)),
                                    norm(ast.unparse(keyexpr))), "the memo is read and written with different keys", line=st.lineno)
                    else:
                        r.ok(site, "key covers every argument the value depends on (%s)" % (", ".join(need) or "none"))
    if n_sites < 1:
        raise AnalysisError("no memoising reader method found (get_digital_metadata confirmed on the reference tree)")
    r.guard(1)
    return r


def r8_package_never_opts_into_the_deleting_reader(repo=None):
    """'reading never modifies or deletes anything on disk'.  DigitalMetadataReader has one documented exception that a caller must opt
    into: with accept_empty=False it removes a properties file that has no fields yet (the recorded finding F10a).  No read path
    of the package itself may take that option: every construction of the metadata reader inside the package passes
    accept_empty=True or leaves the default - otherwise a mere query (read_metadata on an RF reader) deletes the properties
    file of a channel whose writer exists but has not written yet, and the writer's first write then creates a file no reader
    can use."""
    r = Rule("C20.R8", "no read path of the package constructs the metadata reader with accept_empty=False")
    n = 0
    default_true = False
    dm = pyfront.mod("digital_metadata", repo)
    init = dm.functions.get("DigitalMetadataReader.__init__")
    if init is None:
        raise AnalysisError("DigitalMetadataReader.__init__ not found")
    names = [a.arg for a in init.args.args]
    if "accept_empty" in names:
        k = names.index("accept_empty") - (len(names) - len(init.args.defaults))
        default_true = k >= 0 and pyfront.const(init.args.defaults[k]) is True
    if not default_true:
        raise AnalysisError("DigitalMetadataReader.__init__: parameter accept_empty with default True not found")
    pos = names.index("accept_empty") - 1      # position among the call's arguments (self excluded)
    for mod_name in pyfront.MODULES:
        m = pyfront.mod(mod_name, repo)
        for q, f in m.functions.items():
            if "<locals>" in q:
                continue
            for c in pyfront.walk_no_nested(f):
                if isinstance(c, ast.Call) and (pyfront.call_name(c) or "").split(".")[-1] == "DigitalMetadataReader":
                    n += 1
                    a = pyfront.kwarg(c, "accept_empty", pos)
                    site = "%s:%s %s `%s`" % (m.rel, c.lineno, q, norm(ast.unparse(c))[:70])
                    if a is None or pyfront.const(a) is True:
                        r.ok(site, "the deleting option is not taken (accept_empty %s)" % ("left at its default True" if a is None else "= True"))
                    elif pyfront.const(a) is False:
                        r.violation(m.rel, q, norm(ast.unparse(c))[:80], "the package's own read path constructs the metadata reader with "
                                    "accept_empty=False: for a channel whose writer exists but has not written yet the constructor removes "
                                    "dmd_properties.h5 - a query (read_metadata / get_digital_metadata) deletes a file of a valid tree, and "
                                    "the writer's first write then re-creates a properties file without attributes that no reader can use",
                                    line=c.lineno)
                    else:
                        raise AnalysisError("%s: accept_empty argument `%s` of the metadata reader is not a constant" % (q, norm(ast.unparse(a))[:40]))
    if n < 2:
        raise AnalysisError("constructions of DigitalMetadataReader in the package not found (2 confirmed on the reference tree, found %d)" % n)
    r.guard(2)
    return r


def r9_read_metadata_forwards_the_query(repo=None):
    """'range reads return it' through the RF reader as well: DigitalRFReader.read_metadata answers from the metadata reader of the
    channel it was asked about, with the range and the fill method it was given - the reader comes from
    self.get_digital_metadata(<channel parameter>), its read() receives the method's own start, end and method parameters, and
    what read() returned is what the method returns (after the inherent properties are merged in)."""
    r = Rule("C20.R9", "DigitalRFReader.read_metadata hands its own range, fill method and channel to the channel's metadata reader")
    m = pyfront.mod("digital_rf_hdf5", repo)
    q = "DigitalRFReader.read_metadata"
    f = m.flat(q).fn() if q in m.functions else None
    if f is None:
        raise AnalysisError("%s not found" % q)
    params = [a.arg for a in f.args.args if a.arg != "self"]
    if len(params) < 3:
        raise AnalysisError("%s: parameters not recognised" % q)
    getters = [n for n in ast.walk(f) if isinstance(n, ast.Assign) and isinstance(n.value, ast.Call) and pyfront.call_name(n.value) == "self.get_digital_metadata"
               and len(n.targets) == 1 and isinstance(n.targets[0], ast.Name)]
    if len(getters) != 1:
        raise AnalysisError("%s: `<reader> = self.get_digital_metadata(...)` not found exactly once" % q)
    g0 = getters[0]
    rd = g0.targets[0].id
    ch_arg = g0.value.args[0] if g0.value.args else pyfront.kwarg(g0.value, "channel_name")
    ch_param = [p_ for p_ in params if "channel" in p_]
    site = "%s:%s %s" % (m.rel, g0.lineno, q)
    if isinstance(ch_arg, ast.Name) and ch_param and ch_arg.id == ch_param[0] and len(g0.value.args) + len(g0.value.keywords) == 1:
        r.ok(site, "the metadata reader of the channel asked about (`%s`)" % ch_param[0])
    elif isinstance(ch_arg, ast.Name) and ch_arg.id in params:
        r.violation(m.rel, q, norm(ast.unparse(g0.value)), "the metadata reader is looked up with `%s`, not with the channel parameter" % ch_arg.id, line=g0.lineno)
    else:
        raise AnalysisError("%s: argument of get_digital_metadata not recognised" % q)
    reads = [c for c in ast.walk(f) if isinstance(c, ast.Call) and isinstance(c.func, ast.Attribute) and c.func.attr == "read"
             and isinstance(c.func.value, ast.Name) and c.func.value.id == rd]
    if len(reads) != 1:
        raise AnalysisError("%s: `%s.read(...)` not found exactly once" % (q, rd))
    c = reads[0]
    rm = pyfront.mod("digital_metadata", repo).fn("DigitalMetadataReader.read")
    rparams = [a.arg for a in rm.args.args if a.arg != "self"]
    bound = {}
    for i, a in enumerate(c.args):
        if i < len(rparams):
            bound[rparams[i]] = a
    for k in c.keywords:
        if k.arg:
            bound[k.arg] = k.value
    start_p = [p_ for p_ in params if "start" in p_]
    end_p = [p_ for p_ in params if "end" in p_]
    meth_p = [p_ for p_ in params if "method" in p_]
    if not (start_p and end_p and meth_p) or not all(k in rparams for k in ("start_sample", "end_sample", "method")):
        raise AnalysisError("%s: start / end / method parameters of the two read functions not recognised" % q)
    for rk, pp in (("start_sample", start_p[0]), ("end_sample", end_p[0]), ("method", meth_p[0])):
        a = bound.get(rk)
        site = "%s:%s %s read(%s=...)" % (m.rel, c.lineno, q, rk)
        if isinstance(a, ast.Name) and a.id == pp:
            r.ok(site, "the caller's `%s`" % pp)
        elif a is None:
            r.violation(m.rel, q, "%s.read(...) without %s" % (rd, rk), "the query's `%s` does not reach the metadata reader: its default is used "
                        "instead (a range read returns one sample / no forward fill)" % pp, line=c.lineno)
        elif isinstance(a, ast.Name) and a.id in params:
            r.violation(m.rel, q, "%s.read(%s=%s)" % (rd, rk, a.id), "the metadata reader receives `%s` where the query's `%s` belongs" % (a.id, pp), line=c.lineno)
        elif isinstance(a, ast.Constant):
            r.violation(m.rel, q, "%s.read(%s=%s)" % (rd, rk, norm(ast.unparse(a))), "the metadata reader receives a constant where the query's `%s` "
                        "belongs" % pp, line=c.lineno)
        else:
            raise AnalysisError("%s: argument `%s` of %s.read not recognised" % (q, norm(ast.unparse(a))[:40], rd))
    r.guard(4)
    return r


def r10_queries_do_not_consult_construction_time_content(repo=None):
    """'both a newly created reader and a reader created earlier report it': R3 shows that a reader stores nothing after its
    constructor; this rule shows that what the constructor learned about the channel's *content* does not steer a query either.
    Content attributes are those the constructor can leave at None for a channel without samples (the field list): they describe
    the moment of construction.  In the methods that answer queries (everything but the constructor, its private helpers, the
    plain accessors and __str__) no condition may read one - an early exit on `self._fields is None` answers "nothing" for ever
    on a reader that was created before the first write."""
    r = Rule("C20.R10", "no query of the metadata reader branches on what the constructor saw of the channel's content")
    m = pyfront.mod("digital_metadata", repo)
    cls = "DigitalMetadataReader"
    methods = m.methods(cls)
    init = methods.get("__init__")
    if init is None:
        raise AnalysisError("%s.__init__ not found" % cls)
    # constructor-only helpers count as part of the constructor
    ctor = [init] + [f for n, f in methods.items() if n.startswith("_") and not n.startswith("__") and any(
        isinstance(c, ast.Call) and pyfront.call_name(c) == "self." + n for c in ast.walk(init))]
    none_set, other_set = set(), set()
    for f in ctor:
        for a in ast.walk(f):
            if isinstance(a, ast.Assign):
                for t in a.targets:
                    if isinstance(t, ast.Attribute) and isinstance(t.value, ast.Name) and t.value.id == "self":
                        (none_set if isinstance(a.value, ast.Constant) and a.value.value is None else other_set).add(t.attr)
    content = sorted(none_set & other_set)
    if not content:
        raise AnalysisError("%s: no attribute that the constructor leaves at None for an empty channel was found (`_fields` confirmed on the reference tree)" % cls)
    n = 0
    for name, f in methods.items():
        if any(f is c for c in ctor) or name in ("__str__", "__repr__"):
            continue
        n += 1
        hits = []
        for x in ast.walk(f):
            if isinstance(x, (ast.If, ast.While, ast.IfExp, ast.Assert)):
                for y in ast.walk(x.test):
                    if isinstance(y, ast.Attribute) and isinstance(y.value, ast.Name) and y.value.id == "self" and y.attr in content:
                        hits.append((x, y.attr))
            elif isinstance(x, ast.comprehension):
                for t in x.ifs:
                    for y in ast.walk(t):
                        if isinstance(y, ast.Attribute) and isinstance(y.value, ast.Name) and y.value.id == "self" and y.attr in content:
                            hits.append((x, y.attr))
        if hits:
            x, attr = hits[0]
            r.violation(m.rel, "%s.%s" % (cls, name), "`%s` decides in a query" % norm(ast.unparse(getattr(x, "test", x)))[:60], "the answer depends on "
                        "self.%s, which the constructor read once: a reader created before the first write keeps answering as if the "
                        "channel were empty, while a new reader reports the samples" % attr, line=getattr(x, "lineno", f.lineno))
        else:
            r.ok("%s:%s %s.%s" % (m.rel, f.lineno, cls, name), "no condition reads %s" % ", ".join("self." + c for c in content))
    if n < 10:
        raise AnalysisError("%s: only %d query methods found" % (cls, n))
    r.guard(10)
    return r


def rules(repo=None):
    from . import c12
    return [lambda: r8_package_never_opts_into_the_deleting_reader(repo), lambda: r1_read_roles(repo), lambda: r2_write_closed_on_return(repo), lambda: r3_stateless_reader(repo),
            lambda: r4_latest_is_ffill(repo), lambda: c12.r2_range_filter(repo, rid="C20.R5"),
            lambda: c12.r3_numeric_key_order(repo, rid="C20.R6"), lambda: r7_cache_keys_complete(repo), lambda: r9_read_metadata_forwards_the_query(repo), lambda: r10_queries_do_not_consult_construction_time_content(repo)]


EXPLANATION = (
    'R1: package call graph (self/super/module/imported-name/constructor-bound receivers resolved; name-only edges marked'
    ' imprecise) from every public method of DigitalRFReader, DigitalMetadataReader, the per-directory helpers, '
    "ilsdrf/lsdrf, util.* and get_unix_time to every os/shutil mutator, write-mode open and non-'r' h5py.File; a mutator "
    'whose path has constant provenance under /tmp in the feasible partition of self._local is the permitted scratch '
    'copy; a finding is keyed by callee, enclosing handler types, explicit raisers of the handled type inside the guarded'
    ' region and the owning class. R2: every h5py.File of the metadata writer is a `with` context; the file-holding '
    'generator is exhausted before _write returns. R3: no reader method other than __init__ stores on self. R4: '
    'read_latest = get_bounds + read(last, ffill). R5/R6: the forward-fill range filter and numeric key ordering it '
    'depends on (shared with C12). R7: every memoising reader method keys its memo by all arguments the memoised value '
    'depends on (def-use slice). R7 also: the dependence closure of a memoised value is cut at the names of its key, and '
    'a value chosen by a loop under a file-system probe needs the chosen loop element in the key. R8: every construction '
    'of DigitalMetadataReader inside the package leaves accept_empty at its default True or passes True (the deleting '
    'option of the recorded finding F10a is never taken by a read path of the package). Does NOT decide HDF5 visibility. '
    'R9: DigitalRFReader.read_metadata obtains the reader with its channel parameter and hands its own start, end and '
    "method to that reader's read(). R10: no query method of DigitalMetadataReader has a condition that reads an "
    'attribute the constructor can leave at None for an empty channel (the field list).')
TECHNIQUE = ('Python ast; package call graph with provenance partition of paths; context-manager/generator exhaustion; store-on-self table')
ASSUMPTIONS = ["zip() pulls from its first iterable first", "h5py's default file mode is 'r'",
               "the mutator table (vp.pycalls.MUTATORS) is complete for the standard library calls this package uses"]
FILES = ["python/digital_rf/digital_metadata.py", "python/digital_rf/digital_rf_hdf5.py", "python/digital_rf/list_drf.py",
         "python/digital_rf/util.py"]
