"""C06 -- Self-describing data files and recoverable channel properties (partial).

Decides: 4-way agreement of the attribute tables (per-file attributes, properties file, restart comparison,
regeneration), write-once session fields, metadata written into every data file, regeneration source.
Not decided: index monotonicity / offset invariants (value-level).
"""
from __future__ import annotations

import ast
import re

from ..core import Rule, AnalysisError, C_LIB, norm
from .. import cfront, clib, cfg as _cfg, pyfront, cfold, rx, cbool

LIB = C_LIB
OBJ = clib.OBJ
PER_FILE_ONLY = {"sequence_num", "init_utc_timestamp", "computer_time", "uuid_str"}
NOT_COMPARED = {"epoch", "digital_rf_time_description", "digital_rf_version"}


def _canon_src(fn, arg, before):
    """Canonical description of the value written/compared: 'field:<name>', 'call:<text>', 'macro:<NAME>'."""
    s = arg.strip(casts=True)
    if s.kind == "UnaryOperator" and s.opcode == "&":
        s = s.children[0].strip(casts=True)
    p = s.path()
    if p and p.startswith(OBJ + "->"):
        return "field:" + p[len(OBJ) + 2:]
    if p and "->" not in p and s.kind == "DeclRefExpr" and s.refkind == "VarDecl":
        # local temp: last assignment before `before`
        best = None
        for path, node, rhs, kind in clib.stores(fn):
            if path == p and kind == "=" and node.begin < before.begin and rhs is not None:
                if best is None or node.begin > best[0]:
                    best = (node.begin, rhs)
        if best is not None:
            e = best[1].strip(casts=True)
            if e.kind == "CallExpr":
                return "call:" + re.sub(r"\s", "", e.nsrc)
            if e.path() and e.path().startswith(OBJ + "->"):
                return "field:" + e.path()[len(OBJ) + 2:]
            return "expr:" + re.sub(r"\s", "", e.nsrc)
        return "local:" + p
    txt = re.sub(r"\s", "", arg.nsrc)
    if re.match(r"^[A-Z_0-9]+$", txt):
        return "macro:" + txt
    if s.kind == "CallExpr":
        return "call:" + re.sub(r"\s", "", s.nsrc)
    return "expr:" + txt


def written_attrs(fn):
    """name -> (file type text, mem type text, source canon, node) from H5Acreate2/H5Awrite pairs in source order (made directly
    or through a helper that forwards its parameters)."""
    out = {}
    pending = None
    for prim, args, site, helper in clib.prim_sites(fn, ("H5Acreate2", "H5Awrite")):
        if prim == "H5Acreate2":
            name = args[1].strval()
            if name is None:
                raise AnalysisError("%s: attribute name of H5Acreate2 at line %s is not a string literal" % (fn.name, site.line))
            pending = (name, re.sub(r"\s", "", args[2].nsrc), site)
        elif pending is not None:
            name, ftype, cn = pending
            out[name] = (ftype, re.sub(r"\s", "", args[1].nsrc), _canon_src(fn, args[2], site), cn)
            pending = None
    return out


def _helper_rejects_missing(helper):
    """In an attribute-reading helper: a failed H5Aopen returns non-zero before H5Aread."""
    g = _cfg.build_c(helper)
    opens = [n for n in g.nodes if n.ast is not None and n.ast.calls(("H5Aopen",))]
    reads = [n.id for n in g.nodes if n.ast is not None and n.ast.calls(("H5Aread",))]
    if len(opens) != 1 or not reads:
        return False
    conds = [n for n in g.nodes if n.kind == "cond" and n.ast is not None and n.ast.begin > opens[0].ast.begin]
    if not conds:
        return False
    c = sorted(conds, key=lambda n: n.ast.begin)[0]
    e = c.ast.strip()
    if not (e.kind == "BinaryOperator" and e.opcode == "<" and e.children[1].intval() == 0):
        return False
    starts = [b for b, l in g.succ[c.id] if l == "T"]
    reach = g.reach(starts)
    rets = [x for x in g.nodes if x.kind == "return" and x.id in reach]
    ok_rets = bool(rets) and all((x.ast.children[0].intval() or 0) != 0 for x in rets)
    # success exit returns 0, so the caller's `if (helper(...))` is the missing test
    fstarts = [b for b, l in g.succ[c.id] if l == "F"]
    frets = [x for x in g.nodes if x.kind == "return" and x.id in g.reach(fstarts)]
    zero = bool(frets) and all(x.ast.children and x.ast.children[0].intval() == 0 for x in frets)
    return ok_rets and not any(r_ in reach for r_ in reads) and zero


def compared_attrs(fn):
    """name -> (mem type, compared canon, node, missing_ok, mismatch_ok) from H5Aopen/H5Aread/if(result != X) triples
    (primitives called directly or through a reading helper)."""
    g = _cfg.build_c(fn)
    sites = clib.prim_sites(fn, ("H5Aopen", "H5Aread"))
    opens = [s_ for s_ in sites if s_[0] == "H5Aopen"]
    reads = [s_ for s_ in sites if s_[0] == "H5Aread"]
    out = {}
    conds = sorted([n for n in g.nodes if n.kind == "cond" and n.ast is not None], key=lambda x: x.ast.begin)
    for i, (prim, oargs, o, helper) in enumerate(opens):
        name = oargs[1].strval()
        if name is None:
            raise AnalysisError("%s: attribute name of H5Aopen at line %s is not a string literal" % (fn.name, o.line))
        nxt = opens[i + 1][2].begin if i + 1 < len(opens) else 10 ** 12
        rd = [x for x in reads if (x[2] is o if helper is not None else (o.begin < x[2].begin < nxt and x[3] is None))]
        if not rd:
            out[name] = (None, None, o, False, False)
            continue
        rprim, rargs, rsite, rhelper = rd[0]
        tgt = rargs[2].strip(casts=True)
        tv = tgt.children[0].path() if tgt.kind == "UnaryOperator" and tgt.opcode == "&" else tgt.path()
        cmp_node = None
        missing_node = None
        for n in conds:
            if helper is None:
                if o.begin < n.ast.begin < rsite.begin and missing_node is None:
                    missing_node = n
            elif n.ast.begin <= o.begin and o.end <= n.ast.end and missing_node is None:
                missing_node = n
            if rsite.end < n.ast.begin < nxt and clib._reads(n.ast, tv) and cmp_node is None:
                cmp_node = n

        def rejects(n, lab):
            if n is None:
                return False
            starts = [b for b, l in g.succ[n.id] if l == lab]
            reach = g.reach(starts)
            rets = [x for x in g.nodes if x.kind == "return" and x.id in reach]
            nxt_open = [x.id for x in g.nodes if x.ast is not None and (x.ast.calls(("H5Aopen", "H5Fclose")) or any(
                c.callee in [h.name for _, _, _, h in opens if h is not None] for c in x.ast.calls())) and x.ast.begin > n.ast.begin]
            direct = g.reach(starts, avoid=[x.id for x in rets])
            return bool(rets) and all((x.ast.children[0].intval() or 0) != 0 for x in rets if x.id in g.reach(starts, avoid=nxt_open)) \
                and not any(x in direct for x in nxt_open)
        canon = None
        mism_ok = False
        if cmp_node is not None:
            e = cmp_node.ast.strip()
            if e.kind == "BinaryOperator" and e.opcode in ("!=", "=="):
                other = e.children[1] if e.children[0].path() == tv else e.children[0]
                canon = _canon_src(fn, other, cmp_node.ast)
                mism_ok = rejects(cmp_node, "T" if e.opcode == "!=" else "F")
        if helper is None:
            miss_ok = rejects(missing_node, "T") if missing_node is not None else False
            if not miss_ok:
                # the open result may be tested more than once (reported, then rejected): any `x < 0` test between the open and
                # the read whose true branch returns an error before the next attribute counts
                for n in conds:
                    if o.begin < n.ast.begin < rsite.begin:
                        e_ = n.ast.strip()
                        if e_.kind == "BinaryOperator" and e_.opcode == "<" and e_.children[1].intval() == 0 and rejects(n, "T"):
                            miss_ok = True
        else:
            e = missing_node.ast.strip() if missing_node is not None else None
            lab = None
            if e is not None:
                if e.kind == "CallExpr":
                    lab = "T"
                elif e.kind == "BinaryOperator" and e.opcode == "!=" and e.children[1].intval() == 0:
                    lab = "T"
                elif e.kind == "BinaryOperator" and e.opcode == "==" and e.children[1].intval() == 0:
                    lab = "F"
                elif e.kind == "BinaryOperator" and e.opcode == "<" and e.children[1].intval() == 0:
                    lab = "T"
            miss_ok = lab is not None and _helper_rejects_missing(helper) and rejects(missing_node, lab)
            if not miss_ok and (lab is None or missing_node is None or not _helper_rejects_missing(helper)):
                miss_ok = None      # the open sits in a helper whose way of reporting a missing attribute was not recognised
        out[name] = (re.sub(r"\s", "", rargs[1].nsrc), canon, o, miss_ok, mism_ok)
    return out


def regen_keys(repo=None):
    """[(attribute written, per-file key read, node)] of recreate_properties_file; loops over constant name tuples are unrolled"""
    from .. import cfold
    m = pyfront.mod("digital_rf_hdf5", repo)
    fn = m.fn("recreate_properties_file")
    folder = cfold.Folder(repo)
    out = []

    def keyvals(e, env):
        if isinstance(e, ast.Name) and e.id in env:
            return env[e.id]
        c = pyfront.const(e)
        return [c] if c is not None else None

    def visit(stmts, env):
        for st in stmts:
            if isinstance(st, ast.For) and isinstance(st.target, ast.Name):
                try:
                    items = folder.expr("digital_rf_hdf5", st.iter)
                except AnalysisError:
                    items = None
                if isinstance(items, list) and all(isinstance(x, str) for x in items):
                    for it in items:
                        visit(st.body, dict(env, **{st.target.id: [it]}))
                    continue
            if isinstance(st, ast.Assign) and isinstance(st.targets[0], ast.Subscript):
                t = st.targets[0]
                if isinstance(t.value, ast.Attribute) and t.value.attr == "attrs":
                    ks = keyvals(t.slice, env)
                    v = st.value
                    vks = keyvals(v.slice, env) if isinstance(v, ast.Subscript) and isinstance(v.value, ast.Name) else None
                    if ks is None:
                        raise AnalysisError("recreate_properties_file: attribute name in `%s` is not a constant" % norm(ast.unparse(st)))
                    out.append((ks[0], vks[0] if vks else None, st))
            for fld in ("body", "orelse", "finalbody"):
                sub = getattr(st, fld, None)
                if sub:
                    visit(sub, env)
            for h in getattr(st, "handlers", []) or []:
                visit(h.body, env)

    visit(fn.body, {})
    return m, fn, out


def r1_attribute_tables(repo=None):
    r = Rule("C06.R1", "per-file attributes, properties file, restart comparison and regeneration agree (tables)")
    tu = cfront.lib(repo)
    t_file = written_attrs(tu.fn("digital_rf_write_metadata"))
    t_prop = written_attrs(tu.fn("digital_rf_handle_metadata"))
    t_cmp = compared_attrs(tu.fn("digital_rf_handle_metadata"))
    m, rfn, regen = regen_keys(repo)
    if len(t_file) < 19 or len(t_prop) < 15 or len(t_cmp) < 12 or len(regen) < 15:
        # fewer rows than confirmed: decide by content below, but an empty extraction is an anchor failure
        if not t_file or not t_prop or not t_cmp or not regen:
            raise AnalysisError("attribute table extraction failed: %d/%d/%d/%d rows" % (len(t_file), len(t_prop), len(t_cmp), len(regen)))
    F = "digital_rf_write_metadata"
    H = "digital_rf_handle_metadata"
    for name, (ftype, mtype, src, node) in sorted(t_file.items()):
        if ftype != mtype:
            r.violation(LIB, F, "attribute %s created as %s written as %s" % (name, ftype, mtype),
                        "file type and memory type of the attribute differ", line=node.line)
    for name, (ftype, mtype, src, node) in sorted(t_prop.items()):
        site = "%s:%s %s attribute `%s`" % (LIB, node.line, H, name)
        if ftype != mtype:
            r.violation(LIB, H, "attribute %s created as %s written as %s" % (name, ftype, mtype),
                        "file type and memory type of the attribute differ", line=node.line)
            continue
        if name not in t_file:
            r.violation(LIB, F, "per-file attribute `%s` missing" % name, "a channel property stored in drf_properties.h5 is "
                        "not repeated in the data files, so the properties file cannot be regenerated from a data file",
                        line=tu.fn(F).line)
            continue
        f2 = t_file[name]
        if (f2[0], f2[2]) != (ftype, src):
            r.violation(LIB, F, "attribute `%s`: file %s from %s, properties %s from %s" % (name, f2[0], f2[2], ftype, src),
                        "the per-file copy of a channel property has a different type or source than the properties file: a "
                        "regenerated channel would read differently", line=f2[3].line)
        else:
            r.ok(site, "same HDF5 type (%s) and same source (%s) as the per-file attribute" % (ftype, src))
    extra = set(t_file) - set(t_prop)
    if extra == PER_FILE_ONLY:
        r.ok("%s %s" % (LIB, F), "per-file-only attributes are exactly %s" % sorted(PER_FILE_ONLY))
    else:
        r.violation(LIB, F, "per-file-only attributes %s" % sorted(extra), "expected exactly %s (session UUID, start "
                    "timestamp, creation time, sequence number)" % sorted(PER_FILE_ONLY), line=tu.fn(F).line)
    # comparison table
    want_cmp = set(t_prop) - NOT_COMPARED
    for name in sorted(want_cmp):
        if name not in t_cmp:
            r.violation(LIB, H, "attribute `%s` not compared on restart" % name, "a new session with a different `%s` is not "
                        "refused and would mix incompatible data into the channel" % name, line=tu.fn(H).line)
            continue
        mtype, canon, node, miss_ok, mism_ok = t_cmp[name]
        site = "%s:%s %s restart comparison of `%s`" % (LIB, node.line, H, name)
        wsrc = t_prop[name][2]
        wtype = t_prop[name][1]
        probs = []
        if canon != wsrc:
            probs.append("compared against %s but written from %s" % (canon, wsrc))
        if mtype != wtype:
            probs.append("read as %s but written as %s" % (mtype, wtype))
        if miss_ok is None:
            raise AnalysisError("%s: how the helper that opens `%s` reports a missing attribute to the restart comparison was not recognised" % (H, name))
        if not miss_ok:
            probs.append("a missing attribute does not return an error")
        if not mism_ok:
            probs.append("a mismatch does not return an error")
        if probs:
            r.violation(LIB, H, "restart comparison of `%s`: %s" % (name, "; ".join(probs)),
                        "the stored channel parameter is not (correctly) compared with the new session's", line=node.line)
        else:
            r.ok(site, "read as %s, compared against %s, missing/mismatch both return non-zero" % (mtype, canon))
    for name in sorted(set(t_cmp) - want_cmp):
        r.note("attribute `%s` is compared although not required" % name)
    # regeneration
    rk = [k for k, vk, n in regen]
    for k, vk, n in regen:
        if k != vk:
            r.violation(m.rel, "recreate_properties_file", "fo.attrs[%r] = md[%r]" % (k, vk), "regeneration copies a different "
                        "attribute than it names", line=n.lineno)
    if set(rk) == set(t_prop):
        r.ok("%s:%s recreate_properties_file" % (m.rel, rfn.lineno), "regenerates exactly the %d properties-file attributes" % len(rk))
    else:
        r.violation(m.rel, "recreate_properties_file", "keys missing %s extra %s" % (sorted(set(t_prop) - set(rk)),
                    sorted(set(rk) - set(t_prop))), "the regenerated drf_properties.h5 differs from what the writer creates",
                    line=rfn.lineno)
    r.guard(29)
    return r


def r2_write_once(repo=None):
    r = Rule("C06.R2", "per-session constants are write-once; the sequence number increases once per created file")
    tu = cfront.lib(repo)
    for f in ("uuid_str", "init_utc_timestamp", "dtype_id", "is_complex", "num_subchannels", "is_continuous"):
        st = [(fn, n, rhs, k) for fn, n, rhs, k in clib.field_stores(tu, f)]
        bad = [x for x in st if x[0] != "digital_rf_create_write_hdf5"]
        if bad:
            r.violation(LIB, bad[0][0], bad[0][1].nsrc[:80], "`%s` changes after construction: files of one session would "
                        "carry different values" % f, line=bad[0][1].line)
        elif not st:
            raise AnalysisError("field %s is never stored" % f)
        else:
            r.ok("%s field %s" % (LIB, f), "stored only in the constructor (%d store(s))" % len(st))
    st = clib.field_stores(tu, "present_seq")
    incs = [x for x in st if x[3] in ("++", "+=")]
    inits = [x for x in st if x[3] == "=" and x[0] == "digital_rf_create_write_hdf5"]
    other = [x for x in st if x not in incs and x not in inits]
    if other or len(incs) != 1 or incs[0][0] != "digital_rf_create_hdf5_file":
        x = (other or incs or st)[0]
        r.violation(LIB, x[0], x[1].nsrc[:60], "present_seq must be initialised once and incremented exactly once per created "
                    "file (in digital_rf_create_hdf5_file)", line=x[1].line)
    else:
        fn = tu.fn("digital_rf_create_hdf5_file")
        g = _cfg.build_c(fn)
        inc = [n for n in g.nodes if n.ast is not None and n.ast.begin <= incs[0][1].begin and incs[0][1].end <= n.ast.end
               and n.kind == "stmt"][0]
        creates = [n for n in g.nodes if n.ast is not None and n.ast.calls(("H5Fcreate",))]
        ok = all(c.id not in g.reach([g.entry.id], avoid=[inc.id]) for c in creates) and inc.id not in g.reach(
            [b for b, l in g.succ[inc.id]])
        if ok:
            r.ok("%s:%s %s present_seq++" % (LIB, inc.line, fn.name), "dominates the H5Fcreate of the data file and is not in a loop")
        else:
            r.violation(LIB, fn.name, "present_seq++ does not dominate H5Fcreate", "a file could be created without a new "
                        "sequence number", line=inc.line)
    r.guard(7)
    return r


def r3_metadata_in_every_file(repo=None):
    r = Rule("C06.R3", "attributes and block index are written into every data file that is created")
    tu = cfront.lib(repo)
    fn = tu.fn("digital_rf_create_hdf5_file")
    g = _cfg.build_c(fn)
    dcreate = [n.id for n in g.nodes if n.ast is not None and n.ast.calls(("H5Dcreate2",))]
    meta = [n.id for n in g.nodes if n.ast is not None and n.ast.calls(("digital_rf_write_metadata",))]
    succ = [n for n in g.nodes if n.kind == "return" and n.ast.children and n.ast.children[0].intval() == 0]
    if not dcreate or not succ:
        raise AnalysisError("H5Dcreate2 / success return not found in digital_rf_create_hdf5_file")
    bad = [s for s in succ if s.id in g.reach(dcreate, avoid=meta)]
    if bad or not meta:
        r.violation(LIB, fn.name, "success return without digital_rf_write_metadata", "a data file can be created without its "
                    "self-describing attributes", line=(bad[0].line if bad else fn.line))
    else:
        r.ok("%s:%s %s" % (LIB, fn.line, fn.name), "every path from H5Dcreate2 to `return 0` calls digital_rf_write_metadata")
    # rf_data_index is created only by digital_rf_write_rf_data_index, called after the data write
    creators = [(f, c) for f, ff in tu.functions.items() for c in ff.calls(("H5Dcreate2",))
                if "index" in (c.args[1].nsrc + c.args[0].nsrc).lower() or f == "digital_rf_write_rf_data_index"]
    wrong = [f for f, c in creators if f != "digital_rf_write_rf_data_index"]
    callers = clib.callers(tu, "digital_rf_write_rf_data_index")
    if wrong or len(callers) != 1 or callers[0][0] != "digital_rf_write_samples_to_file":
        r.violation(LIB, (wrong or ["-"])[0], "rf_data_index creation sites %s, callers %s" % (
            [f for f, _ in creators], [f for f, _ in callers]), "the block index is created/written outside the single "
            "write path", line=None)
    else:
        ws = tu.fn("digital_rf_write_samples_to_file")
        g2 = _cfg.build_c(ws)
        dw = [n.id for n in g2.nodes if n.ast is not None and n.ast.calls(("H5Dwrite",))]
        ix = [n for n in g2.nodes if n.ast is not None and n.ast.calls(("digital_rf_write_rf_data_index",))]
        if all(x.id not in g2.reach([g2.entry.id], avoid=dw) for x in ix):
            r.ok("%s:%s %s" % (LIB, ix[0].line, ws.name), "the index is written only after the data write of the same call")
        else:
            r.violation(LIB, ws.name, "index written before data", "an index row could describe data that was not written",
                        line=ix[0].line)
    r.guard(2)
    return r


def r4_regeneration_source(repo=None):
    r = Rule("C06.R4", "regeneration reads a finalized RF file and never overwrites an existing properties file")
    m = pyfront.mod("digital_rf_hdf5", repo)
    q = "recreate_properties_file"
    fn = m.fn(q)
    g = m.cfg(q)
    opens = [n for n in g.nodes if any(pyfront.call_name(c) == "h5py.File" for c in pyfront.node_calls(n))]
    wr = [n for n in opens if any(pyfront.call_name(c) == "h5py.File" and pyfront.const(pyfront.kwarg(c, "mode", 1)) not in (None, "r")
                                  for c in pyfront.node_calls(n))]
    probes = [n for n in g.nodes if n.kind == "cond" and any(pyfront.call_name(c) in ("os.access", "os.path.exists")
                                                              for c in pyfront.node_calls(n))]
    if not wr or not probes:
        raise AnalysisError("recreate_properties_file: write-mode open or existence probe not found")
    p = probes[0]
    ts = [b for b, l in g.succ[p.id] if l == "T"]
    treach = g.reach(ts, skip_labels=("exc",))
    if any(w.id in treach for w in wr) or any(w.id in g.reach([g.entry.id], avoid=[p.id]) for w in wr):
        r.violation(m.rel, q, "properties file opened for writing although it exists", "an existing drf_properties.h5 could be "
                    "truncated", line=wr[0].line)
    else:
        r.ok("%s:%s %s" % (m.rel, p.line, q), "the write-mode open is reachable only when os.access says the file does not exist")
    from . import c02
    gl, data_globs, glob_name = c02.regen_data_glob(repo)
    mm, (rfmt, rnode), _ = c02.reader_rf_format(repo)
    args = rnode.right.elts if isinstance(rnode.right, ast.Tuple) else [rnode.right]
    rb = {i: 3 for i, a in enumerate(args) if isinstance(a, ast.BinOp) and isinstance(a.op, ast.Mod)
          and pyfront.int_const(a.right, mm) == 1000}
    rre, _ = rx.printf_to_regex(rfmt, rb)
    sp = rx.Space({"G": rx.glob_to_regex(gl), "RF": rre, "TMP": r"tmp\."}, texts=["tmp.rf@.h5"])
    ok, w = sp["RF"].subset_of(sp["G"])
    w2 = (sp["G"] & sp["TMP"]).witness()
    if ok and w2 is None:
        r.ok("%s:%s %s glob %r" % (m.rel, fn.lineno, q, gl), "every finalized RF file name (%r) matches the regeneration glob and "
             "no tmp. name does" % rfmt)
    elif not ok:
        r.violation(m.rel, q, "rf_file_glob = %r" % gl, "regeneration cannot find a finalized RF data file such as %r" % w,
                    line=fn.lineno)
    else:
        r.violation(m.rel, q, "rf_file_glob = %r" % gl, "regeneration can read an in-progress file (witness %r)" % w2,
                    line=fn.lineno)
    # 'can be regenerated from any data file': giving up is allowed only after every sub-directory was looked at.  The glob for
    # data files takes a directory; that directory must range over the whole list of sub-directories (a loop variable), not be one
    # element picked by a subscript - the newest sub-directory of a live channel, or one left by a killed writer, holds no
    # finalized file.
    parents = {}
    for n in ast.walk(fn):
        for ch in ast.iter_child_nodes(n):
            parents[ch] = n
    sub_lists = {n.targets[0].id for n in ast.walk(fn) if isinstance(n, ast.Assign) and isinstance(n.targets[0], ast.Name)
                 and isinstance(n.value, ast.Call) and pyfront.call_name(n.value) == "glob.glob" and "GLOB_SUBDIR" in ast.unparse(n.value)}
    data_globs = [c for c in ast.walk(fn) if any(c is x or norm(ast.unparse(c)) == norm(ast.unparse(x)) for x in data_globs) and isinstance(c, ast.Call)]
    if not sub_lists or not data_globs:
        raise AnalysisError("%s: list of sub-directories / glob for data files not found" % q)
    for c in data_globs:
        dirs = [x.id for x in ast.walk(c) if isinstance(x, ast.Name) and x.id not in (glob_name, "glob", "os", "channel_dir")]
        site = "%s:%s %s `%s`" % (m.rel, c.lineno, q, norm(ast.unparse(c))[:70])
        if "GLOB_SUBDIR" in ast.unparse(c):
            r.ok(site, "globs the data files of all sub-directories at once")
            continue
        verdict = None
        for d in dirs:
            loop = parents.get(c)
            while loop is not None and not (isinstance(loop, ast.For) and any(isinstance(x, ast.Name) and x.id == d for x in ast.walk(loop.target))):
                loop = parents.get(loop)
            if loop is not None and any(isinstance(x, ast.Name) and x.id in sub_lists for x in ast.walk(loop.iter)):
                verdict = ("ok", "looks in every sub-directory (loop over `%s`) before giving up" % norm(ast.unparse(loop.iter))[:50])
                break
            # the same search written as a comprehension / generator over the sub-directories (consumed by next / any / a loop)
            comp = parents.get(c)
            while comp is not None and not (isinstance(comp, (ast.GeneratorExp, ast.ListComp)) and any(
                    isinstance(x, ast.Name) and x.id == d for g_ in comp.generators for x in ast.walk(g_.target))):
                comp = parents.get(comp)
            if comp is not None and not any(g_.ifs for g_ in comp.generators) and any(
                    isinstance(x, ast.Name) and x.id in sub_lists for g_ in comp.generators for x in ast.walk(g_.iter)):
                verdict = ("ok", "looks in every sub-directory (`%s`) before giving up" % norm(ast.unparse(comp.generators[0].iter))[:50])
                break
            picks = [a for a in ast.walk(fn) if isinstance(a, ast.Assign) and isinstance(a.targets[0], ast.Name) and a.targets[0].id == d
                     and isinstance(a.value, ast.Subscript) and isinstance(a.value.value, ast.Name) and a.value.value.id in sub_lists
                     and not isinstance(a.value.slice, ast.Slice)]
            if picks:
                verdict = ("bad", picks[0])
                break
        if verdict is None:
            raise AnalysisError("%s: directory argument of `%s` not recognised" % (q, norm(ast.unparse(c))[:60]))
        if verdict[0] == "ok":
            r.ok(site, verdict[1])
        else:
            a = verdict[1]
            r.violation(m.rel, q, norm(ast.unparse(a))[:80], "only one sub-directory, picked by position in the directory listing, is searched "
                        "for a data file and regeneration gives up if it holds none: the newest sub-directory of a live channel (only the "
                        "`tmp.` file being written) or one left by a killed or failed writer makes regeneration fail although finalized, "
                        "self-describing files sit in the neighbouring sub-directories", line=a.lineno)
    # 'from any data file': once a data file is found regeneration copies what it says.  A refusal (raise) that depends on what
    # the attributes of data files *contain* - a cross-check between files - fails for a channel written by more than one session
    # (uuid, start time differ from file to file by definition).  Values derived from `<file>[...].attrs`, def-use closure.
    derived = set()
    changed = True
    while changed:
        changed = False
        for n in ast.walk(fn):
            tg, val = None, None
            if isinstance(n, ast.Assign):
                tg, val = n.targets, n.value
            elif isinstance(n, ast.For):
                tg, val = [n.target], n.iter
            elif isinstance(n, ast.withitem) and n.optional_vars is not None:
                continue
            if tg is None:
                continue
            src = any((isinstance(x, ast.Attribute) and x.attr == "attrs") or (isinstance(x, ast.Name) and x.id in derived) for x in ast.walk(val))
            if src:
                for t in tg:
                    for x in ast.walk(t):
                        if isinstance(x, ast.Name) and x.id not in derived:
                            derived.add(x.id)
                            changed = True
    n_raise = 0
    for rs in [x for x in ast.walk(fn) if isinstance(x, ast.Raise)]:
        n_raise += 1
        conds = []
        c_, p_ = rs, parents.get(rs)
        while p_ is not None and p_ is not fn:
            if isinstance(p_, (ast.If, ast.While)) and c_ is not p_.test:
                conds.append(p_.test)
            c_, p_ = p_, parents.get(p_)
        dep = [t for t in conds if any((isinstance(x, ast.Name) and x.id in derived) or (isinstance(x, ast.Attribute) and x.attr == "attrs") for x in ast.walk(t))]
        site = "%s:%s %s `%s`" % (m.rel, rs.lineno, q, norm(ast.unparse(rs))[:50])
        if dep:
            r.violation(m.rel, q, "%s under `%s`" % (norm(ast.unparse(rs))[:40], norm(ast.unparse(dep[0]))[:60]), "regeneration gives up depending on "
                        "what the attributes of the data files contain: the properties can no longer be regenerated 'from any data file' - "
                        "files of one channel legitimately differ in their per-session attributes (uuid, start time) and per-file ones "
                        "(sequence number, creation time), so a channel recorded in more than one session is refused", line=rs.lineno)
        else:
            r.ok(site, "does not depend on the content of a data file's attributes")
    r.guard(3)
    return r


def r5_index_passes_agree(repo=None):
    r = Rule("C06.R5", "the row-counting pass and the row-filling pass of the block index use the same predicates (sibling)")
    tu = cfront.lib(repo)
    fn = tu.fn("digital_rf_create_rf_data_index")
    loops = [n for n in fn.find("ForStmt")]
    if len(loops) != 2:
        raise AnalysisError("digital_rf_create_rf_data_index: expected 2 loops over the block description, found %d" % len(loops))

    def increments(loop):
        """{variable: [increment nodes]} for local counters incremented in the loop body (not the loop's own counter)"""
        body = loop.children[-1]
        out = {}
        for n in body.walk():
            v = None
            if n.kind == "UnaryOperator" and n.opcode in ("++",) and n.children[0].path():
                v = n.children[0].path()
            elif n.kind == "CompoundAssignOperator" and n.opcode == "+=" and n.children[1].intval() == 1 and n.children[0].path():
                v = n.children[0].path()
            if v and "->" not in v and "[" not in v and "*" not in v:
                out.setdefault(v, []).append(n)
        return out

    inc1, inc2 = increments(loops[0]), increments(loops[1])
    if len(inc1) != 1 or len(inc2) != 1:
        raise AnalysisError("digital_rf_create_rf_data_index: row counters not recognised (count pass %s, fill pass %s)" % (
            sorted(inc1), sorted(inc2)))
    (v1, n1), (v2, n2) = list(inc1.items())[0], list(inc2.items())[0]

    def loop_counter(loop):
        """(name, first value) of the block counter of a `for (c = k; ...; c++)` loop"""
        init = loop.children[0] if loop.children else None
        name, first = None, None
        for x in (init.walk() if init is not None else []):
            if x.kind == "BinaryOperator" and x.opcode == "=" and x.children[0].path() and x.children[1].intval() is not None:
                name, first = x.children[0].path(), x.children[1].intval()
            elif x.kind == "VarDecl" and x.children and x.children[-1].intval() is not None:
                name, first = x.name, x.children[-1].intval()
        return name, first

    def rename(f, frm):
        if f[0] == "atom":
            return ("atom", "<block>") if f[1] == frm else f
        return (f[0],) + tuple(rename(x, frm) if isinstance(x, tuple) else x for x in f[1:])

    def pass_predicate(loop, var, inside, region):
        """row predicate of one pass as a function of the block number: rows added in the loop (for blocks >= the loop's first
        value) or, for the first block, by statements outside the loop in the pass's region"""
        cname, first = loop_counter(loop)
        if cname is None or first not in (0, 1):
            raise AnalysisError("digital_rf_create_rf_data_index: block loop `%s` not of the form for (c = 0|1; ...)" % norm(loop.nsrc)[:50])
        parts = []
        for n in inside:
            f = rename(cbool.path_condition(n, loop), cname)
            parts.append(("and", ("atom", "<block>"), f) if first == 1 else f)
        lo, hi = region
        outside = [n for n in fn.walk() if ((n.kind == "UnaryOperator" and n.opcode == "++") or (n.kind == "CompoundAssignOperator" and n.opcode == "+="))
                   and n.children[0].path() == var and lo <= n.begin < hi and not (loop.begin <= n.begin <= loop.end)]
        for n in outside:
            if first == 0:
                raise AnalysisError("digital_rf_create_rf_data_index: `%s` is also counted outside its loop" % var)
            f = cbool.path_condition(n, fn)
            parts.append(("and", ("not", ("atom", "<block>")), f))
        if first == 1 and not outside:
            raise AnalysisError("digital_rf_create_rf_data_index: the loop over `%s` starts at 1 and no row for the first block is found" % cname)
        return cbool.disj(parts), parts
    f1, parts1 = pass_predicate(loops[0], v1, n1, (fn.begin, loops[1].begin if loops[0].begin < loops[1].begin else fn.end))
    f2, parts2 = pass_predicate(loops[1], v2, n2, (loops[0].end, fn.end))
    same, wit = cbool.equivalent(f1, f2)
    # the increments of one pass must be mutually exclusive (one row per block at most), else counts differ from the predicate
    def exclusive(ns, loop):
        fs = parts1 if loop is loops[0] else parts2
        for i in range(len(fs)):
            for j in range(i + 1, len(fs)):
                eq, _ = cbool.equivalent(("and", fs[i], fs[j]), ("false",))
                if not eq:
                    return False
        return True
    if same and exclusive(n1, loops[0]) and exclusive(n2, loops[1]):
        r.ok("%s:%s/%s digital_rf_create_rf_data_index" % (LIB, loops[0].line, loops[1].line),
             "both passes add a row under equivalent predicates (truth table over %d atoms): %s" % (
                 len(cbool.atoms(f1) | cbool.atoms(f2)), cbool.show(f1)))
    else:
        r.violation(LIB, fn.name, "count pass `%s` vs fill pass `%s`%s" % (cbool.show(f1), cbool.show(f2),
                    (" differ for " + ", ".join("%s=%d" % (k, v) for k, v in sorted(wit.items()))) if wit else " (rows not exclusive)"),
                    "the number of index rows allocated and the number of rows "
                    "filled are decided by different predicates: rows are missing, uninitialised or written past the allocation",
                    line=loops[1].line)
    r.guard(1)
    return r


def r6_capacity_from_window(repo=None):
    """A file's capacity (max_samples_this_file) and the room left in it (samples_left) are the difference of the first samples
    of two consecutive time windows, each obtained by the ceil helper from the boundary time: C04.R3, which is a necessary
    condition of 'never holds more samples than the file's time window allows'."""
    from . import c04
    x = c04.r3_floor_ceil_pairing(repo)
    old = x.rid
    x.rid = "C06.R6"
    for f in x.findings:
        f.rule = "C06.R6"
    x.title = "a file's sample capacity is derived from its own time window [= %s]" % old
    return x


def r7_rows_start_inside_the_file(repo=None):
    """An index row (sample S, offset) may be stored in a file only for a block that starts inside the file: S < E, where
    E = next_global_sample + samples_left is the first sample of the *next* file (C04.R3 / C06.R6: samples_left is the
    distance to it).  For S == E the block belongs to the next file and the row's offset equals the number of samples stored
    in this file - an offset beyond the stored data.  Decided on the fill pass (the count pass is tied to it by R5): the path
    condition of every store whose value contains the block start S is evaluated for the three orderings of (S, E) - the atoms
    that compare S with E (recognised by their linear form, whatever the spelling) follow the ordering, all other atoms are
    free - and must be false for S == E and S > E."""
    import itertools
    r = Rule("C06.R7", "an index row is stored only for a block that starts before the first sample of the next file")
    tu = cfront.lib(repo)
    F = "digital_rf_create_rf_data_index"
    fn = tu.fn(F)
    params = [p.name for p in fn.children if p.kind == "ParmVarDecl"]
    for need in ("next_global_sample", "samples_left", "global_index_arr"):
        if need not in params:
            raise AnalysisError("%s: parameter `%s` not found" % (F, need))
    loops = [n for n in fn.find("ForStmt")]
    if len(loops) != 2:
        raise AnalysisError("%s: expected 2 loops over the block description, found %d" % (F, len(loops)))
    fill = loops[1]
    # single-assigned locals of the function (for E) and locals assigned from global_index_arr[..] in the fill loop (S)
    defs = {}
    for path, node, rhs, kind in clib.stores(fn):
        if path and kind == "=" and rhs is not None and re.match(r"^\w+$", path):
            defs.setdefault(path, []).append((node, rhs))
    for d in fn.find("VarDecl"):
        if d.children and d.name:
            init = [c for c in d.children if c.kind not in ("TypeRef",)]
            if init:
                defs.setdefault(d.name, []).append((d, init[-1]))
    S = set()
    for path, node, rhs, kind in clib.stores(fill):
        if path and kind == "=" and rhs is not None and re.match(r"^\w+$", path):
            t = rhs.strip(casts=True)
            if t.kind == "ArraySubscriptExpr" and t.children[0].strip(casts=True).path() == "global_index_arr":
                S.add(path)
    if not S:
        raise AnalysisError("%s: the block start (a local read from global_index_arr[i] in the fill loop) was not found" % F)

    def lf(e):
        t = e.strip(casts=True)
        if t.kind == "ArraySubscriptExpr" and t.children[0].strip(casts=True).path() == "global_index_arr":
            return {"<S>": 1}
        out = clib.linform(e)
        if out is None:
            return None
        res = {}
        for k, v in out.items():
            sub = None
            if k in S:
                sub = {"<S>": 1}
            elif isinstance(k, str) and k in defs and len(defs[k]) == 1 and k not in params:
                sub = lf(defs[k][0][1])
            if sub is None:
                sub = {k: 1}
            for kk, vv in sub.items():
                res[kk] = res.get(kk, 0) + vv * v
        return {k: v for k, v in res.items() if v != 0}
    D = {"<S>": 1, "next_global_sample": -1, "samples_left": -1}      # S - E

    def classify(cmp):
        """+1 if lhs - rhs == S - E, -1 if == E - S, else 0"""
        a, b = lf(cmp.children[0]), lf(cmp.children[1])
        if a is None or b is None:
            return 0
        d = dict(a)
        for k, v in b.items():
            d[k] = d.get(k, 0) - v
        d = {k: v for k, v in d.items() if v != 0}
        if d == D:
            return 1
        if d == {k: -v for k, v in D.items()}:
            return -1
        return 0

    sites = []
    for path, node, rhs, kind in clib.stores(fill):
        if kind != "=" or rhs is None or path is None or re.match(r"^\w+$", path):
            continue
        v = lf(rhs)
        if v and v.get("<S>") == 1:
            sites.append((path, node))
    if not sites:
        raise AnalysisError("%s: no store of the block start into the returned rows found in the fill loop" % F)
    for path, node in sites:
        # atoms of the path condition that compare S with E
        sem = {}
        for a in node.ancestors():
            if a is fill:
                break
            if a.kind in ("IfStmt", "ConditionalOperator"):
                for c in cbool.comparison_nodes(a.children[0]):
                    if c.kind == "BinaryOperator" and c.opcode in ("<", ">", "<=", ">=", "==", "!="):
                        o = classify(c)
                        if o == 0:
                            continue
                        ta, tb = cbool.atom_text(c.children[0].strip(casts=True)), cbool.atom_text(c.children[1].strip(casts=True))
                        if c.opcode in (">", "<="):
                            sem["%s>%s" % (ta, tb)] = "gt" if o == 1 else "lt"      # atom lhs>rhs
                        elif c.opcode in ("<", ">="):
                            sem["%s>%s" % (tb, ta)] = "lt" if o == 1 else "gt"      # atom rhs>lhs
                        else:
                            x, y = sorted([ta, tb])
                            sem["%s==%s" % (x, y)] = "eq"
        f = cbool.path_condition(node, fill)
        names = sorted(cbool.atoms(f))
        free = [n for n in names if n not in sem]
        if len(free) > 14:
            raise AnalysisError("%s: row condition too large" % F)
        bad = None
        for order in ("eq", "gt"):
            for bits in itertools.product((False, True), repeat=len(free)):
                val = dict(zip(free, bits))
                for n_, meaning in sem.items():
                    val[n_] = (meaning == order)
                if cbool.ev(f, val):
                    bad = (order, val)
                    break
            if bad:
                break
        site = "%s:%s %s store `%s`" % (LIB, node.line, F, norm(node.nsrc)[:60])
        if bad is None and sem:
            r.ok(site, "stored only when the block start is below next_global_sample + samples_left (condition %s)" % cbool.show(f))
        elif bad is None:
            r.ok(site, "condition %s is unsatisfiable for a block start at or beyond the end of the file" % cbool.show(f))
        else:
            r.violation(LIB, F, "row store `%s` under %s" % (norm(node.nsrc)[:60], cbool.show(f)),
                        "a row is stored for a block whose first sample %s next_global_sample + samples_left, the first sample of the "
                        "next file (%s): the block lies wholly in the next file, the row's sample is outside this file's window and its "
                        "offset is %s the number of samples stored" % (
                            "equals" if bad[0] == "eq" else "exceeds",
                            ", ".join("%s=%d" % (k, v) for k, v in sorted(bad[1].items())), "equal to" if bad[0] == "eq" else "beyond"),
                        line=node.line)
    r.guard(1)
    return r


def _stores_through(tu, fname, argi, depth=0):
    """does library function `fname` store through its pointer parameter number argi (directly, or by handing it on to a library
    function that does)?"""
    fn = tu.functions.get(fname)
    if fn is None or depth > 2:
        return False
    ps = [p.name for p in fn.children if p.kind == "ParmVarDecl"]
    if argi >= len(ps):
        return False
    pn = ps[argi]
    for path, node, rhs, kind in clib.stores(fn):
        if path and (path == "*" + pn or path.startswith("*" + pn) or path.startswith(pn + "[") or path.startswith(pn + "->")):
            return True
    for c in fn.calls():
        for j, a in enumerate(c.args):
            if a.strip(casts=True).path() == pn and c.callee in tu.functions and _stores_through(tu, c.callee, j, depth + 1):
                return True
    return False


def r8_session_timestamp_exact(repo=None):
    """'carry the session's ... start timestamp': the second stored as init_utc_timestamp in every file must be the second of the
    first sample, floor(start * d / n).  Computed through the rounded long double rate it is one second early for whole-second
    starts at rates whose rounding is upward (1e8/7, 1000/3, 1e6/3 Hz ...).  Every store of the field is therefore either a
    constant, or an expression without a floating-typed node / read of the `sample_rate` field, or made by passing the field's
    address to one of the integer-only conversion functions (C04.R1's naming set)."""
    from . import c04
    r = Rule("C06.R8", "the session start second stored in every file is computed with integer arithmetic")
    tu = cfront.lib(repo)
    FIELD = "init_utc_timestamp"
    exact = set(c04.naming_set(tu))
    n = 0
    for fname, fn in tu.functions.items():
        for path, node, rhs, kind in clib.stores(fn):
            if not path or not (path.endswith("->" + FIELD) or path.endswith("." + FIELD)):
                continue
            n += 1
            site = "%s:%s %s `%s`" % (LIB, node.line, fname, norm(node.nsrc)[:70])
            bad = None
            for x in (rhs.walk() if rhs is not None else []):
                if x.kind == "FloatingLiteral" or (x.kind != "DeclRefExpr" and x.is_float()) or (x.kind == "DeclRefExpr" and x.is_float()):
                    bad = "expression of floating type `%s`" % x.type
                    break
                if x.kind == "MemberExpr" and x.name == "sample_rate":
                    bad = "read of the long double `sample_rate` field"
                    break
            if kind != "=":
                bad = bad or "compound update"
            if bad:
                r.violation(LIB, fname, norm(node.nsrc)[:80], "the session's start second is computed in floating point (%s): for a "
                            "first sample exactly on a whole second and a rate whose long double rounding is upward the quotient lands "
                            "just below the integer and the stored second is one too early - in every file of the session, and "
                            "different from the second in the first file's name" % bad, line=node.line)
            else:
                r.ok(site, "integer-only")
        for c in fn.calls():
            for a in c.args:
                t = a.strip(casts=True)
                if t.kind == "UnaryOperator" and t.opcode == "&" and (t.children[0].path() or "").endswith("->" + FIELD) \
                        and c.callee in tu.functions and _stores_through(tu, c.callee, c.args.index(a)):
                    # (a call that takes the address without storing through it reads the value: H5Awrite, attribute helpers)
                    n += 1
                    site = "%s:%s %s `%s`" % (LIB, c.line, fname, norm(c.nsrc)[:70])
                    if c.callee in exact:
                        r.ok(site, "set by %s, an integer-only conversion (C04.R1)" % c.callee)
                    else:
                        r.violation(LIB, fname, norm(c.nsrc)[:80], "the session's start second is set by `%s`, which is not one of the "
                                    "integer-only conversion functions" % c.callee, line=c.line)
    if n < 1:
        raise AnalysisError("no store of %s found" % FIELD)
    r.guard(1)
    return r


def r10_later_rows_start_after_the_first_sample(repo=None):
    """'strictly increasing sample indices ... never describes overlapping blocks': the first row a call stores in a file (or the
    rows the open file already has) describes N = next_global_sample, the first sample this call writes to the file.  A row for a
    later block of the call (i > 0, block start S) keeps the index strictly increasing only if S > N.  The quantities are touched
    through comparisons only, so the path condition of the row store is evaluated for every weak ordering of (N, P, S) - P the
    sample at which the previous block ends, prev_sample + (this_index - prev_index) - that respects the validated input fact
    S >= P (the "indices advancing faster than global index" rejection, looked up in the function): for every ordering with
    S <= N the condition must be false, whatever the other atoms are.  Atoms comparing the block's data index with
    samples_written follow the same ordering (the map data index -> sample is strictly increasing and sends samples_written to
    N).  Variables are recognised by role (read from global_index_arr / data_index_arr, copied at the end of the loop)."""
    import itertools
    r = Rule("C06.R10", "an index row for a later block is stored only if the block starts after the first sample this call writes to the file")
    tu = cfront.lib(repo)
    F = "digital_rf_create_rf_data_index"
    fn = tu.fn(F)
    params = [p.name for p in fn.children if p.kind == "ParmVarDecl"]
    for need in ("next_global_sample", "samples_written", "global_index_arr", "data_index_arr"):
        if need not in params:
            raise AnalysisError("%s: parameter `%s` not found" % (F, need))
    loops = [n for n in fn.find("ForStmt")]
    if len(loops) != 2:
        raise AnalysisError("%s: expected 2 loops over the block description, found %d" % (F, len(loops)))
    fill = loops[1]
    roles = {}
    stores = [(path, node, rhs, kind) for path, node, rhs, kind in clib.stores(fn) if path and kind == "=" and rhs is not None and re.match(r"^\w+$", path)]
    for path, node, rhs, kind in stores:
        t = rhs.strip(casts=True)
        if t.kind == "ArraySubscriptExpr":
            base = t.children[0].strip(casts=True).path()
            if base == "global_index_arr":
                roles.setdefault(path, set()).add("<S>")
            elif base == "data_index_arr":
                roles.setdefault(path, set()).add("<I>")
    for path, node, rhs, kind in stores:
        src = rhs.strip(casts=True).path()
        if src in roles and path not in roles:
            roles.setdefault(path, set()).add({"<S>": "<PS>", "<I>": "<PI>"}.get(next(iter(roles[src])), "?"))
    role = {k: next(iter(v)) for k, v in roles.items() if len(v) == 1 and "?" not in v}
    for need in ("<S>", "<I>", "<PS>", "<PI>"):
        if need not in role.values():
            raise AnalysisError("%s: the local in the role %s (block start / data index / their copies for the next iteration) was not found" % (F, need))

    def lf(e):
        t = e.strip(casts=True)
        if t.kind == "ArraySubscriptExpr":
            base = t.children[0].strip(casts=True).path()
            if base == "global_index_arr":
                return {"<S>": 1}
            if base == "data_index_arr":
                return {"<I>": 1}
        out = clib.linform(e)
        if out is None:
            return None
        res = {}
        for k, v in out.items():
            kk = role.get(k, k)
            res[kk] = res.get(kk, 0) + v
        return {k: v for k, v in res.items() if v != 0}
    SN = {"<S>": 1, "next_global_sample": -1}
    IW = {"<I>": 1, "samples_written": -1}
    NP = {"next_global_sample": 1, "<PS>": -1, "<I>": -1, "<PI>": 1}
    SP = {"<S>": 1, "<PS>": -1, "<I>": -1, "<PI>": 1}
    PAIRS = ((SN, ("S", "N")), (IW, ("S", "N")), (NP, ("N", "P")), (SP, ("S", "P")))

    def classify(cmp):
        """(first, second, sign): lhs - rhs == sign * (first - second) for one of the pairs, else None"""
        a, b = lf(cmp.children[0]), lf(cmp.children[1])
        if a is None or b is None:
            return None
        d = dict(a)
        for k, v in b.items():
            d[k] = d.get(k, 0) - v
        d = {k: v for k, v in d.items() if v != 0}
        for form, (x, y) in PAIRS:
            if d == form:
                return x, y, 1
            if d == {k: -v for k, v in form.items()}:
                return x, y, -1
        return None

    def atom_of(c):
        """(atom name as cbool names it, (greater, smaller) or ('eq', a, b)) for a classified comparison"""
        cl = classify(c)
        if cl is None:
            return None
        x, y, o = cl
        ta, tb = cbool.atom_text(c.children[0].strip(casts=True)), cbool.atom_text(c.children[1].strip(casts=True))
        hi, lo = (x, y) if o == 1 else (y, x)          # lhs > rhs  <=>  hi > lo
        if c.opcode in (">", "<="):
            return "%s>%s" % (ta, tb), ("gt", hi, lo)
        if c.opcode in ("<", ">="):
            return "%s>%s" % (tb, ta), ("gt", lo, hi)
        u, v = sorted([ta, tb])
        return "%s==%s" % (u, v), ("eq", x, y)
    # the validated input fact S >= P: a test whose true side leaves the function and that is true exactly when P > S
    fact = None
    for st in fn.find("IfStmt"):
        # the true side leaves: a return, or (the test sits in an inlined static helper) a non-zero result and a jump to its end
        leaves = any(x.kind == "ReturnStmt" for x in st.children[1].walk()) or (
            any(x.kind == "GotoStmt" for x in st.children[1].walk())
            and any(rhs is not None and rhs.intval() not in (None, 0) for path, node, rhs, kind in clib.stores(st.children[1])))
        if not leaves:
            continue
        for c in st.children[0].walk():
            if c.kind == "BinaryOperator" and c.opcode in ("<", ">"):
                at = atom_of(c)
                if at and at[1][0] == "gt" and (at[1][1], at[1][2]) == ("P", "S"):
                    fact = st
    if fact is None:
        raise AnalysisError("%s: the rejection of a block description that advances faster in data than in samples (which gives S >= P) "
                            "was not found: the ordering argument has no premise" % F)
    sites = []
    for path, node, rhs, kind in clib.stores(fill):
        if kind != "=" or rhs is None or path is None or re.match(r"^\w+$", path):
            continue
        v = lf(rhs)
        if v and v.get("<S>") == 1:
            sites.append((path, node))
    if not sites:
        raise AnalysisError("%s: no store of the block start into the returned rows found in the fill loop" % F)
    # weak orderings of (N, P, S) as rank triples
    orders = sorted({tuple(rk) for rk in itertools.product(range(3), repeat=3)
                     if set(rk) == set(range(len(set(rk))))})
    for path, node in sites:
        sem = {}
        for a in node.ancestors():
            if a is fill:
                break
            if a.kind in ("IfStmt", "ConditionalOperator"):
                for c in cbool.comparison_nodes(a.children[0]):
                    if c.kind == "BinaryOperator" and c.opcode in ("<", ">", "<=", ">=", "==", "!="):
                        at = atom_of(c)
                        if at:
                            sem[at[0]] = at[1]
        f = cbool.path_condition(node, fill)
        names = sorted(cbool.atoms(f))
        free = [n for n in names if n not in sem]
        site = "%s:%s %s store `%s`" % (LIB, node.line, F, norm(node.nsrc)[:60])
        if not any(set(m_[1:]) & {"N"} for m_ in sem.values()):
            raise AnalysisError("%s: the condition %s of the row store compares nothing this rule can order against the first sample "
                                "written to the file: not decided" % (F, cbool.show(f)))
        if len(free) > 12:
            raise AnalysisError("%s: row condition too large" % F)
        bad = None
        for rk in orders:
            rank = dict(zip(("N", "P", "S"), rk))
            if rank["S"] < rank["P"] or rank["S"] > rank["N"]:
                continue        # excluded by the validated fact / not a case this rule forbids
            for bits in itertools.product((False, True), repeat=len(free)):
                val = dict(zip(free, bits))
                for n_, m_ in sem.items():
                    val[n_] = (rank[m_[1]] > rank[m_[2]]) if m_[0] == "gt" else (rank[m_[1]] == rank[m_[2]])
                if cbool.ev(f, val):
                    bad = (rank, val)
                    break
            if bad:
                break
        if bad is None:
            r.ok(site, "condition %s is false whenever the block starts at or before next_global_sample (given S >= end of the previous block, "
                 "validated at line %d)" % (cbool.show(f), fact.line))
        else:
            rank = bad[0]
            r.violation(LIB, F, "row store `%s` under %s" % (norm(node.nsrc)[:60], cbool.show(f)),
                        "a row is stored for a later block whose first sample %s next_global_sample, the sample the first row of this "
                        "call (or the open file's last row) already describes: the file's index gets the same sample twice / is not "
                        "strictly increasing" % ("equals" if rank["S"] == rank["N"] else "precedes"), line=node.line)
    r.guard(1)
    return r


def r11_new_index_starts_at_offset_zero(repo=None):
    """'data offsets starting at offset 0': the rows a call hands to digital_rf_write_rf_data_index are relative to the first
    sample this call stores; they are re-based by the number of samples already in the file (dataset_index) when they are
    appended to an *existing* index.  For the index of a file that is being created the rows are stored as they are - the file's
    first row is (file start, 0) also when dataset_index is not 0 (a continuous, unchunked file whose first write lands in the
    middle of its window).  On the CFG: no path holds both the creation of the index data set and the re-basing store."""
    r = Rule("C06.R11", "the rows of a newly created block index are stored without re-basing (the first data offset of a file is 0)")
    tu = cfront.lib(repo)
    F = "digital_rf_write_rf_data_index"
    fn = tu.fn(F)
    g = _cfg.build_c(fn)
    # (the field may be read through a local: `const uint64_t already = obj->dataset_index;` hoisted out of the loop)
    holders = {d.name for d in fn.find("VarDecl") if d.children and any(x.kind == "MemberExpr" and x.name == "dataset_index" for x in d.children[-1].walk())}
    holders |= {path for path, node, rhs, kind in clib.stores(fn) if path and re.match(r"^\w+$", path) and rhs is not None
                and any(x.kind == "MemberExpr" and x.name == "dataset_index" for x in rhs.walk())}

    def reads_dataset_index(e):
        return any((x.kind == "MemberExpr" and x.name == "dataset_index") or (x.kind == "DeclRefExpr" and x.path() in holders) for x in e.walk())
    rebase = []
    for path, node, rhs, kind in clib.stores(fn):
        # `arr[2*i + 1] += obj->dataset_index` or, walking a pointer over the rows, `*p += obj->dataset_index`
        if path and ("[" in path or path.startswith("*")) and not path.startswith(clib.OBJ) and "->" not in path and kind in ("+=", "=") \
                and rhs is not None and reads_dataset_index(rhs):
            nd = clib.node_of(g, node)
            if nd is not None:
                rebase.append((nd, node))
    creates = [n for n in g.nodes if n.ast is not None and n.kind in ("stmt", "cond") and n.ast.calls(("H5Dcreate2",))]
    if not rebase or not creates:
        raise AnalysisError("%s: the re-basing store (%d) / the creation of the index data set (%d) was not found" % (F, len(rebase), len(creates)))
    bad = []
    for nd, node in rebase:
        for c in creates:
            if c.id in g.reach([nd.id]) or nd.id in g.reach([c.id]):      # (the store sits in a loop: its exit is a back edge away)
                bad.append((node, c))
    if bad:
        node, c = bad[0]
        r.violation(LIB, F, node.nsrc[:70], "the data offsets of the rows are re-based by dataset_index on a path that also creates the index "
                    "data set (line %d): the first row of a new file is stored as (file start, dataset_index) instead of (file start, 0) "
                    "when the first write lands inside the file's window - the index no longer starts at offset 0 and every read of the "
                    "file is shifted" % c.line, line=node.line)
    else:
        r.ok("%s:%s %s" % (LIB, rebase[0][1].line, F), "re-basing by dataset_index happens only when rows are appended to an existing index")
    r.guard(1)
    return r


def rules(repo=None):
    return [lambda: r11_new_index_starts_at_offset_zero(repo), lambda: r10_later_rows_start_after_the_first_sample(repo), lambda: r8_session_timestamp_exact(repo), lambda: r1_attribute_tables(repo), lambda: r2_write_once(repo), lambda: r3_metadata_in_every_file(repo),
            lambda: r4_regeneration_source(repo), lambda: r5_index_passes_agree(repo), lambda: r6_capacity_from_window(repo),
            lambda: r7_rows_start_inside_the_file(repo), lambda: r9_only_own_files_published(repo)]


def r9_only_own_files_published(repo=None):
    """'Every finalized data file is interpretable on its own' needs every file that reaches a final name to be one this writer
    created and completed: a tmp. file found under the name (left by a killed session or belonging to another writer) that the
    close step renames is a finalized file with no index / a truncated body.  Decided by C02.R7 (typestate of the remembered
    name between a failed or refused creation and the publishing rename)."""
    from . import c02
    x = c02.r7_failed_create_not_published(repo)
    old = x.rid
    x.rid = "C06.R9"
    for f in x.findings:
        f.rule = "C06.R9"
    x.title = x.title + " [= %s]" % old
    return x


EXPLANATION = (
    'R11: in digital_rf_write_rf_data_index no path holds both the creation of the index data set and the store that re-bases the data '
    'offsets by dataset_index. '
    "R1: the attribute tables are extracted from the repeated H5Acreate2/H5Awrite, H5Aopen/H5Aread/compare and "
    "fo.attrs[k]=md[k] idioms and compared row by row: every properties-file attribute is repeated per file with the same "
    "HDF5 type and source expression, the per-file-only set is exactly {sequence_num, init_utc_timestamp, computer_time, "
    "uuid_str}, the 12 compared parameters are each read with the written type and compared against the written source with "
    "rejecting missing/mismatch branches, regeneration copies exactly the properties set. R2: session constants are stored "
    "only in the constructor; present_seq++ dominates the data-file create once per call. R3: every successful file creation "
    "passes digital_rf_write_metadata; the index is written after the data. R4: regeneration opens for writing only when the "
    "file does not exist and its glob matches every finalized RF file name and no tmp. name. R5: the counting pass and the filling "
    "pass of digital_rf_create_rf_data_index add a row under the same predicates. R6 (= C04.R3): the file's capacity and the room "
    "left in it are differences of two boundary samples obtained by the ceil helper from the printed name time and that time plus "
    "one file cadence. R4 also: regeneration looks in every sub-directory before giving up. R7: a row is stored only for a block that starts before next_global_sample + samples_left, the first sample of the next file (the row condition of the fill pass is evaluated for the orderings 'block start == / > end of file'; atoms comparing the two are recognised by their linear form). R8: every store of the session start second (init_utc_timestamp) is integer-only or made by one of the exact conversion functions. R9 (= C02.R7): only a file this writer created and completed reaches a final name - after a failed or refused creation the remembered tmp. name is not published by the close step. Does NOT decide the other index row contents.")
TECHNIQUE = ('clang JSON AST + Python ast; attribute table extraction through forwarding helpers and 4-way comparison; truth-table equivalence of the two index passes; order-theoretic evaluation of the row condition (atoms classified by linear form); write-once field stores; glob/regex language inclusion')
ASSUMPTIONS = ["HDF5 attribute API semantics", "clang 14 AST and CPython ast are faithful"]
FILES = [C_LIB, "python/digital_rf/digital_rf_hdf5.py", "python/digital_rf/list_drf.py"]
