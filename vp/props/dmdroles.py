"""Role-based anchors in digital_metadata.py: private helpers are found by what they do, not by what they are called.

Only the public API is taken by name (DigitalMetadataWriter.write, DigitalMetadataReader.read / get_bounds / read_latest);
every private function a rule reasons about is resolved from its role, and the functions are viewed with their own
private helpers inlined (pyinline), so 'extract method' / 'rename private' refactorings do not move the anchors.
"""
from __future__ import annotations

import ast

from ..core import AnalysisError
from .. import pyfront, cfold

W = "DigitalMetadataWriter"
R = "DigitalMetadataReader"
_CACHE = {}


def _calls(fn, pred):
    return [c for c in ast.walk(fn) if isinstance(c, ast.Call) and pred(c)]


def _is_generator(fn):
    return any(isinstance(n, (ast.Yield, ast.YieldFrom)) for n in pyfront.walk_no_nested(fn))


class Roles(object):
    def __init__(self, repo=None):
        self.repo = repo
        m = self.m = pyfront.mod("digital_metadata", repo)
        fold = cfold.Folder(repo)
        wm, rm = m.methods(W), m.methods(R)
        # writer: the generator that opens the data files
        gens = [n for n, f in wm.items() if _is_generator(f)]
        if len(gens) != 1:
            raise AnalysisError("%s: expected one generator method (the sample-group generator), found %s" % (W, gens))
        self.gen_name = gens[0]
        self.gen = "%s.%s" % (W, gens[0])
        self.gen_view = m.flat(self.gen, depth=4)
        self.write_view = m.flat(W + ".write", keep=(self.gen_name,), depth=4)
        # module-level recursive flattening generator
        recs = [n for n, f in m.functions.items() if "." not in n and _is_generator(f)
                and _calls(f, lambda c, n=n: pyfront.call_name(c) == n)]
        if len(recs) != 1:
            raise AnalysisError("digital_metadata: expected one recursive module-level generator (nested-dict flattening), found %s" % recs)
        self.rec_items = recs[0]
        # reader: the method that builds the candidate file list (strftime + a '<prefix>@<ts>.h5' format)
        fl = []
        for n, f in rm.items():
            has_strf = any(isinstance(c.func, ast.Attribute) and c.func.attr == "strftime" for c in _calls(f, lambda c: True))
            has_fmt = False
            for x in ast.walk(f):
                if isinstance(x, ast.BinOp) and isinstance(x.op, ast.Mod):
                    try:
                        v = x.left.value if isinstance(x.left, ast.Constant) else fold.expr("digital_metadata", x.left)
                    except AnalysisError:
                        v = None
                    if isinstance(v, str) and "@" in v:
                        has_fmt = True
            inl = m.flat("%s.%s" % (R, n), depth=3).fn()
            if not has_strf:
                has_strf = any(isinstance(c.func, ast.Attribute) and c.func.attr == "strftime" for c in _calls(inl, lambda c: True))
            if not has_fmt:
                # the format may sit in a module-level helper shared with the writer (inlined in the flat view)
                only_mod = m.flat("%s.%s" % (R, n), keep=tuple(rm), depth=2).fn()        # methods of the class stay calls
                for x in ast.walk(only_mod):
                    if isinstance(x, ast.BinOp) and isinstance(x.op, ast.Mod):
                        try:
                            v = x.left.value if isinstance(x.left, ast.Constant) else fold.expr("digital_metadata", x.left)
                        except AnalysisError:
                            v = None
                        if isinstance(v, str) and "@" in v:
                            has_fmt = True
            if has_fmt and has_strf:
                fl.append(n)
        if len(fl) != 1:
            raise AnalysisError("%s: expected one method building the candidate file list, found %s" % (R, fl))
        self.filelist_name = fl[0]
        self.filelist = "%s.%s" % (R, fl[0])
        self.filelist_view = m.flat(self.filelist, depth=3)
        # reader: the per-file method = the self.<method>(.., <loop variable>, ..) called in loops over the file list
        cand = {}
        for n, f in rm.items():
            lists = set()
            for x in pyfront.walk_no_nested(f):
                if isinstance(x, ast.Assign) and isinstance(x.value, ast.Call) and pyfront.call_name(x.value) == "self." + self.filelist_name \
                        and isinstance(x.targets[0], ast.Name):
                    lists.add(x.targets[0].id)
            for lp in pyfront.walk_no_nested(f):
                if isinstance(lp, ast.For) and isinstance(lp.target, ast.Name):
                    it = lp.iter
                    if isinstance(it, ast.Call) and pyfront.call_name(it) == "reversed" and it.args:
                        it = it.args[0]
                    if isinstance(it, ast.Name) and it.id in lists:
                        for c in ast.walk(lp):
                            if isinstance(c, ast.Call) and (pyfront.call_name(c) or "").startswith("self.") and any(
                                    isinstance(a, ast.Name) and a.id == lp.target.id for a in c.args):
                                cand[pyfront.call_name(c)[5:]] = cand.get(pyfront.call_name(c)[5:], 0) + 1
        if len(cand) != 1:
            raise AnalysisError("%s: expected one per-file reading method called in the loops over the file list, found %s" % (R, sorted(cand)))
        self.add_name = list(cand)[0]
        self.add = "%s.%s" % (R, self.add_name)
        self.add_params = [a.arg for a in m.fn(self.add).args.args]
        self.read_view = m.flat(R + ".read", keep=(self.filelist_name, self.add_name, "get_bounds"), depth=4)
        # recursive reader method (nested groups)
        pops = [n for n, f in rm.items() if _calls(f, lambda c, n=n: pyfront.call_name(c) in ("self." + n, "cls." + n, R + "." + n))]
        if len(pops) != 1:
            raise AnalysisError("%s: expected one recursive method (reading nested groups), found %s" % (R, pops))
        self.populate_name = pops[0]
        self.populate = "%s.%s" % (R, pops[0])
        self.populate_view = m.flat(self.populate, depth=3)
        self.add_view = m.flat(self.add, keep=(self.populate_name,), depth=4)
        self.bounds_view = m.flat(R + ".get_bounds", depth=4)


def roles(repo=None):
    m = pyfront.mod("digital_metadata", repo)
    key = id(m)
    if key not in _CACHE:
        _CACHE[key] = Roles(repo)
    return _CACHE[key]
