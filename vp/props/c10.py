"""C10 -- I/O fault containment in the writer.

Decides error discipline by shape: the status of every flush point (H5Dclose/H5Fclose of the open data
file, rename/remove) is examined before the publish decision and a failure sets the sticky failure flag;
detected failures are sticky and refuse further writes; a failed file is removed, not renamed; no status
is lost by overwriting.  It does not decide what HDF5 does internally after a failed write.
"""
from __future__ import annotations

from ..core import Rule, AnalysisError, C_LIB
from .. import cfront, clib, cfg as _cfg

LIB = C_LIB
OBJ = clib.OBJ
IO_PRIMS = {"H5Fcreate", "H5Dwrite", "H5Dset_extent", "H5Dclose", "H5Fclose", "mkdir", "_mkdir", "rename", "remove"}
IO_LIBFNS = {"digital_rf_close_hdf5_file", "digital_rf_write_rf_data_index", "digital_rf_extend_dataset",
             "digital_rf_create_new_directory", "digital_rf_create_hdf5_file"}
FLUSH = {"H5Dclose": ("dataset", "index_dataset"), "H5Fclose": ("hdf5_file",)}


def _node_of(g, ast_node):
    best = None
    for n in g.nodes:
        if n.ast is None or n.kind not in ("stmt", "cond", "return"):
            continue
        if n.ast.begin <= ast_node.begin and ast_node.end <= n.ast.end:
            if best is None or (n.ast.end - n.ast.begin) < (best.ast.end - best.ast.begin):
                best = n
    return best


def _failure_setters(g):
    out = []
    for n in g.nodes:
        if n.ast is None or n.kind not in ("stmt", "cond", "return"):
            continue
        for path, node, rhs, kind in clib.stores(n.ast):
            if path == OBJ + "->has_failure" and kind == "=" and rhs is not None and rhs.intval() not in (None, 0):
                out.append(n.id)
    return out


def _fail_label(cond_ast, call):
    """Which outgoing label of the cond node means 'the call failed'.  Recognised forms:
    f() < 0 (T), f() >= 0 (F), f() != 0 (T), f() == 0 (F), bare f() (T: nonzero = error),
    f() == -1 (T), f() != -1 (F)."""
    e = cond_ast.strip()
    if e.kind == "BinaryOperator":
        lhs_has = any(x is call for x in e.children[0].walk())
        other = e.children[1] if lhs_has else e.children[0]
        v = other.intval()
        op = e.opcode
        if not lhs_has:
            op = {"<": ">", ">": "<", "<=": ">=", ">=": "<="}.get(op, op)
        if v == 0:
            return {"<": "T", ">=": "F", "!=": "T", "==": "F"}.get(op)
        if v == -1:
            return {"==": "T", "!=": "F", "<=": "T", ">": "F"}.get(op)
        return None
    if e is call or e.strip(casts=True) is call:
        return "T"
    return None


def _status_param_tested(tu, call_, need_flag=True):
    """the status of call_ is handed to a function of the library whose matching parameter is tested for failure (`status < 0`); with
    need_flag the failure branch must set has_failure before the helper returns: the helper does what the in-line test does"""
    par_ = call_.parent
    while par_ is not None and par_.kind in ("ImplicitCastExpr", "ParenExpr", "CStyleCastExpr"):
        par_ = par_.parent
    if par_ is None or par_.kind != "CallExpr" or par_.callee not in tu.functions:
        return False
    callee = tu.functions[par_.callee]
    ps = [p_.name for p_ in callee.children if p_.kind == "ParmVarDecl"]
    idx = [i for i, a_ in enumerate(par_.args) if a_.begin <= call_.begin and call_.end <= a_.end]
    if not idx or idx[0] >= len(ps):
        return False
    pn = ps[idx[0]]
    g2 = _cfg.build_c(callee)
    for cn2 in g2.nodes:
        if cn2.kind == "cond" and cn2.ast is not None:
            e2 = cn2.ast.strip()
            if e2.kind == "BinaryOperator" and e2.opcode == "<" and e2.children[0].path() == pn and e2.children[1].intval() == 0:
                if not need_flag:
                    return True
                fail = [b for b, l in g2.succ[cn2.id] if l == "T"]
                sets = [n2.id for n2 in g2.nodes if n2.ast is not None and any(
                    p2 is not None and p2.endswith("->has_failure") and rhs2 is not None and (rhs2.intval() or 0) != 0
                    for p2, nd2, rhs2, k2 in clib.stores(n2.ast))]
                rets2 = [n2.id for n2 in g2.nodes if n2.kind in ("return", "exit")]
                if sets and not any(x in g2.reach(fail, avoid=sets) for x in rets2):
                    return True
    return False


def r1_flush_status_gates_publication(repo=None):
    r = Rule("C10.R1", "the status of every flush point is examined before the publish decision (status + must-pass)")
    tu = cfront.lib(repo)
    sites = clib.callers(tu, "digital_rf_close_hdf5_file")
    if len(sites) < 2:
        raise AnalysisError("expected 2 publish sites, found %d" % len(sites))
    for fname, pub in sites:
        fn = tu.fn(fname)
        g = _cfg.build_c(fn)
        P = _node_of(g, pub)
        setters = _failure_setters(g)
        # typestate to skip closes that act on a handle proven ZERO
        _, IN, _, _ = clib.handle_states(fn, ("hdf5_file", "dataset", "index_dataset"))
        for c in fn.calls(tuple(FLUSH)):
            fld = c.args[0].field() if c.args else None
            if fld not in FLUSH[c.callee]:
                continue
            cn = _node_of(g, c)
            if cn is None or cn.id not in IN:
                continue  # unreachable under the typestate (defensive close of a ZERO handle)
            if P.id not in g.reach([cn.id]):
                continue  # after the publish decision
            use = clib.status_usage(c)
            site = "%s:%s %s %s(%s)" % (LIB, c.line, fname, c.callee, fld)
            cons = "%s(%s->%s) result %s" % (c.callee, OBJ, fld, use.split(":")[0])
            if use == "discarded":
                r.violation(LIB, fname, cons, "the result of closing `%s` is discarded on the way to the publishing rename: "
                            "a failed flush (ENOSPC/EIO) is not noticed and the truncated file is renamed to its final "
                            "name" % fld, line=c.line)
                continue
            if use == "tested" and cn.kind == "stmt":
                # idiom: has_failure |= (close(...) < 0)  /  has_failure = has_failure || (close(...) < 0)
                st = [(p, n, rhs, k) for p, n, rhs, k in clib.stores(cn.ast) if p == OBJ + "->has_failure"]
                if st and st[0][3] == "|=":
                    r.ok(site, "status folded into has_failure with |= (can only raise the flag)")
                    continue
                if st and st[0][3] == "=" and st[0][2] is not None and clib._reads(st[0][2], OBJ + "->has_failure"):
                    r.ok(site, "status folded into has_failure (old value is part of the new one)")
                    continue
                if st:
                    r.violation(LIB, fname, cons + " assigned to has_failure with `=`",
                                "a successful close overwrites (clears) a failure recorded earlier, so a file whose earlier "
                                "flush failed is still renamed to its final name", line=c.line)
                    continue
            if use == "tested":
                lab = _fail_label(cn.ast, c)
                if lab is None:
                    raise AnalysisError("unrecognised status test form at %s:%s: %s" % (LIB, c.line, cn.label))
                starts = [b for b, l in g.succ[cn.id] if l == lab]
                if P.id in g.reach(starts, avoid=setters):
                    r.violation(LIB, fname, cons + " failure branch without has_failure",
                                "the failure branch of the close reaches the publish call without setting has_failure "
                                "(the broken file would be renamed, not removed)", line=c.line,
                                path=g.describe(g.path(cn.id, P.id, avoid=setters) or []))
                else:
                    r.ok(site, "status tested; the failure branch sets has_failure before the publish decision")
                continue
            if use.startswith("assigned:"):
                var = use.split(":", 1)[1]
                ok, where = clib.var_tested_after(fn, g, cn.id, var)
                if not ok:
                    r.violation(LIB, fname, cons + " stored in %s and never tested" % var,
                                "status stored but overwritten or dropped before being tested", line=c.line, path=where)
                else:
                    r.ok(site, "status stored in `%s` and tested on every path" % var)
                continue
            if use == "argument" and _status_param_tested(tu, c):
                r.ok(site, "status handed to a helper of the library that tests it and sets has_failure on failure")
                continue
            raise AnalysisError("%s: status of %s used in a way this rule does not follow (%s)" % (fname, cons, use))
        # the result of the publish call itself
        use = clib.status_usage(pub)
        site = "%s:%s %s digital_rf_close_hdf5_file()" % (LIB, pub.line, fname)
        if use in ("discarded",):
            r.violation(LIB, fname, "digital_rf_close_hdf5_file() result discarded",
                        "a failed rename/remove of the finished file goes unnoticed", line=pub.line)
        else:
            r.ok(site, "rename/remove status is examined (%s)" % use)
    # the properties file: H5Fclose at the end of the create branch of digital_rf_handle_metadata
    fn = tu.fn("digital_rf_handle_metadata")
    g = _cfg.build_c(fn)
    creates = [c for c in fn.calls(("H5Fcreate",))]
    if len(creates) != 1:
        raise AnalysisError("digital_rf_handle_metadata: expected one H5Fcreate, found %d" % len(creates))
    cnode = _node_of(g, creates[0])
    var = None
    use = clib.status_usage(creates[0])
    if use.startswith("assigned:"):
        var = use.split(":", 1)[1]
    after = g.reach([cnode.id])
    for c in fn.calls(("H5Fclose",)):
        n = _node_of(g, c)
        if n.id in after and c.args and c.args[0].path() == var:
            u = clib.status_usage(c)
            site = "%s:%s digital_rf_handle_metadata H5Fclose(%s) of the properties file" % (LIB, c.line, var)
            if u == "discarded":
                r.violation(LIB, fn.name, "H5Fclose(%s) result discarded after H5Fcreate" % var,
                            "closing the newly written drf_properties.h5 can fail (flush at close) while the constructor "
                            "reports success", line=c.line)
            else:
                r.ok(site, "status of closing the new properties file is examined (%s)" % u)
    # the create itself: H5Fcreate makes the directory entry before it writes the superblock; when that first write fails the
    # create returns an error and the empty file stays.  Every error return from the failure side of the create passes a
    # remove / unlink of the same path (an unreadable properties file blocks later writers, readers and regeneration)
    for c in creates:
        pvar = c.args[0].path()
        if var is None:
            raise AnalysisError("digital_rf_handle_metadata: status of H5Fcreate not assigned (%s)" % use)
        fails = [n for n in g.nodes if n.kind == "cond" and n.ast is not None and n.ast.strip().kind == "BinaryOperator"
                 and n.ast.strip().opcode == "<" and n.ast.strip().children[0].path() == var and n.ast.strip().children[1].intval() == 0
                 and n.id in after]
        if not fails:
            raise AnalysisError("digital_rf_handle_metadata: test `%s < 0` of the properties-file create not found" % var)
        rm = [n.id for n in g.nodes if n.ast is not None and any(x.args and x.args[0].path() == pvar for x in n.ast.calls(("remove", "unlink")))]
        # the failure test directly after the create (the first one reached from it)
        f_ = sorted(fails, key=lambda n: n.line)[0]
        ts = [b for b, l in g.succ[f_.id] if l == "T"]
        treach = g.reach(ts)
        guards = [n.id for n in g.nodes if n.kind == "cond" and n.id in treach]
        bare = [x for x in g.nodes if x.kind == "return" and x.id in g.reach(ts, avoid=rm + guards)]
        site = "%s:%s digital_rf_handle_metadata failed H5Fcreate(%s)" % (LIB, f_.line, pvar)
        if not [i for i in rm if i in treach] or bare:
            r.violation(LIB, "digital_rf_handle_metadata", "failed H5Fcreate(%s, H5F_ACC_EXCL) returns without removing the file" % pvar,
                        "H5Fcreate creates the file before it writes the superblock: when that first write fails (full disk) the "
                        "create reports an error but a 0-byte drf_properties.h5 stays behind; it makes every later writer "
                        "start fail, every reader of the top-level directory raise and recreate_properties_file refuse "
                        "(`already exists`) until somebody deletes it by hand", line=f_.line)
        else:
            r.ok(site, "the error return passes remove(%s) (guarded only by `did the name exist before`)" % pvar)
    r.guard(9)
    return r


DETECTED = [("digital_rf_write_samples_to_file", "H5Dwrite"), ("digital_rf_create_hdf5_file", "H5Fcreate"),
            ("digital_rf_create_new_directory", "mkdir"),
            # a failed publish (rename/remove) at roll-over is an I/O failure like the others: it must latch has_failure,
            # otherwise the next write is accepted although the previous file was never published
            ("digital_rf_create_hdf5_file", "digital_rf_close_hdf5_file"),
            # a failed write of the block index (its H5Dwrite status is returned by the helper): the data of this call is in the
            # file but not described by the index, so the file must not be continued and published as if nothing had happened
            ("digital_rf_write_samples_to_file", "digital_rf_write_rf_data_index")]


def r2_sticky_failure(repo=None, rid="C10.R2", detected=None, title=None):
    r = Rule(rid, title or "detected I/O failures are sticky and refuse further writes")
    tu = cfront.lib(repo)
    only_branches = detected is not None
    for fname, callee in (detected or DETECTED):
        fn = tu.fn(fname)
        g = _cfg.build_c(fn)
        setters = _failure_setters(g)
        calls = fn.calls((callee,))
        if not calls:
            raise AnalysisError("%s: anchor call %s not found" % (fname, callee))
        conds = []
        for c in calls:
            cn = _node_of(g, c)
            use = clib.status_usage(c)
            if use == "tested":
                conds.append((c, cn, _fail_label(cn.ast, c)))
            elif use.startswith("assigned:"):
                var = use.split(":", 1)[1]
                # cond nodes testing var reachable from cn
                reach = g.reach([cn.id])
                for n in g.nodes:
                    if n.kind == "cond" and n.id in reach and n.ast is not None:
                        e = n.ast.strip()
                        if e.kind == "BinaryOperator" and e.children[0].path() == var and e.children[1].intval() == 0 \
                                and e.opcode in ("<",):
                            conds.append((c, n, "T"))
                        elif e.kind == "BinaryOperator" and e.children[0].path() == var and e.children[1].intval() == 0 \
                                and e.opcode in (">=",):
                            conds.append((c, n, "F"))       # `if (status >= 0) <go on>;` - the failure is the false side
                        elif e.kind != "BinaryOperator" and e.path() == var:
                            conds.append((c, n, "T"))
            else:
                r.violation(LIB, fname, "%s result %s" % (callee, use), "I/O status not examined", line=c.line)
        seen = set()
        for c, cn, lab in conds:
            if cn.id in seen:
                continue
            seen.add(cn.id)
            if lab is None:
                raise AnalysisError("unrecognised failure test at %s:%s" % (LIB, cn.line))
            starts = [b for b, l in g.succ[cn.id] if l == lab]
            # a compound condition (`result && errno != EEXIST`) continues through join nodes: follow to the branch
            if g.exit.id in g.reach(starts, avoid=setters):
                # allow paths that do not return an error (e.g. EEXIST tolerated): only error returns count
                bad = None
                for n in g.nodes:
                    if n.kind == "return" and n.id in g.reach(starts, avoid=setters):
                        v = n.ast.children[0].intval() if n.ast.children else None
                        if v is not None and v != 0 and n.id not in g.reach([g.entry.id], avoid=[cn.id]):
                            bad = n
                        elif v is not None and v == 0 and fname == "digital_rf_write_samples_to_file":
                            # write_samples_to_file signals an error by returning 0
                            if n.id not in g.reach([g.entry.id], avoid=[cn.id]):
                                bad = n
                if bad is not None and _is_error_return(fn, bad, callee):
                    r.violation(LIB, fname, "%s failure branch returns error without has_failure = 1" % callee,
                                "a detected I/O failure does not set the sticky failure flag", line=bad.line)
                    continue
            r.ok("%s:%s %s %s failure branch" % (LIB, cn.line, fname, callee),
                 "every error return after the failed call first sets has_failure = 1")
    if only_branches:
        r.guard(len(detected))
        return r
    # entry tests
    for fname in ("digital_rf_write_hdf5", "digital_rf_write_blocks_hdf5"):
        fn = tu.fn(fname)
        g = _cfg.build_c(fn)
        tests = [n for n in g.nodes if n.kind == "cond" and n.ast is not None and n.ast.path() == OBJ + "->has_failure"]
        if not tests:
            r.violation(LIB, fname, "no has_failure test at entry", "the public write entry point does not refuse "
                        "writes after a fatal I/O error", line=fn.line)
            continue
        t = tests[0]
        # dominates everything else: first real node after entry
        others = [n.id for n in g.nodes if n.kind in ("stmt", "cond", "return") and n.id != t.id and n.ast is not None
                  and n.ast.kind != "DeclStmt"]
        reach = g.reach([g.entry.id], avoid=[t.id])
        early = [i for i in others if i in reach]
        tsucc = [b for b, l in g.succ[t.id] if l == "T"]
        treach = g.reach(tsucc)
        eff = [n for n in g.nodes if n.id in treach and n.ast is not None and n.kind in ("stmt", "cond") and (
            any(c.callee in tu.functions or c.callee in clib.EFFECT_CALLS for c in n.ast.calls()))]
        rets = [n for n in g.nodes if n.id in treach and n.kind == "return"]
        ok = not early and not eff and rets and all((x.ast.children[0].intval() or 0) != 0 for x in rets)
        if ok:
            r.ok("%s:%s %s" % (LIB, t.line, fname), "has_failure is tested first and its true branch returns an error "
                 "without calling into the library")
        else:
            r.violation(LIB, fname, "has_failure entry test incomplete",
                        "the sticky-failure test does not dominate the function body or its branch does more than return "
                        "an error", line=t.line)
    # never reset
    for fname, node, rhs, kind in clib.field_stores(tu, "has_failure"):
        v = rhs.intval() if rhs is not None else None
        if fname == "digital_rf_create_write_hdf5" and v == 0:
            r.ok("%s:%s %s has_failure = 0" % (LIB, node.line, fname), "initialisation in the constructor")
        elif v is not None and v != 0:
            r.ok("%s:%s %s has_failure = %d" % (LIB, node.line, fname, v), "failure flag only ever raised")
        elif kind == "|=" or (kind == "=" and rhs is not None and clib._reads(rhs, OBJ + "->has_failure")):
            r.ok("%s:%s %s %s" % (LIB, node.line, fname, node.nsrc[:50]), "failure flag folded with its old value (only raised)")
        else:
            r.violation(LIB, fname, node.nsrc, "the sticky failure flag is reset or assigned a non-constant", line=node.line)
    r.guard(8)
    return r


def _is_error_return(fn, n, callee):
    return True


def r3_failed_file_removed(repo=None):
    r = Rule("C10.R3", "a file whose write/flush failed is removed, never renamed")
    tu = cfront.lib(repo)
    fn = tu.fn("digital_rf_close_hdf5_file")
    g = _cfg.build_c(fn)
    tests = [n for n in g.nodes if n.kind == "cond" and n.ast is not None and n.ast.path() == OBJ + "->has_failure"]
    ren = [n.id for n in g.nodes if n.ast is not None and n.ast.calls(("rename",))]
    rem = [n.id for n in g.nodes if n.ast is not None and n.ast.calls(("remove", "unlink"))]
    if not ren:
        raise AnalysisError("rename not found in digital_rf_close_hdf5_file")
    if not tests:
        r.violation(LIB, fn.name, "rename not guarded by has_failure", "the publish decision ignores the failure flag",
                    line=fn.line)
        return r
    # every path to a rename passes the F edge of a has_failure test, none passes the T edge
    for t in tests:
        ts = [b for b, l in g.succ[t.id] if l == "T"]
        fs = [b for b, l in g.succ[t.id] if l == "F"]
        tr = g.reach(ts)
        fr = g.reach(fs)
        if any(x in tr for x in ren):
            r.violation(LIB, fn.name, "rename on the has_failure branch", "a failed file can be renamed to its final "
                        "name", line=t.line)
        elif not any(x in tr for x in rem):
            r.violation(LIB, fn.name, "no remove on the has_failure branch", "a failed file is left behind", line=t.line)
        elif any(x in fr for x in rem):
            r.violation(LIB, fn.name, "remove on the success branch", "a good file would be deleted", line=t.line)
        else:
            r.ok("%s:%s %s" % (LIB, t.line, fn.name), "has_failure -> remove(tmp); otherwise -> rename(tmp, final)")
    unguarded = g.reach([g.entry.id], avoid=[t.id for t in tests])
    for x in ren:
        if x in unguarded:
            r.violation(LIB, fn.name, "rename reachable without has_failure test", "publish decision bypasses the "
                        "failure flag", line=g.nodes[x].line)
    r.guard(1)
    return r


EXTENT_REASON = ("a failed extent makes the following H5Dwrite on the un-extended dataset fail (selection beyond the extent), and "
                 "that status is examined on every path")
ALLOW_DEAD = {
    ("digital_rf_write_rf_data_index", "H5Dset_extent"):
        "a failed extent makes the following hyperslab selection / H5Dwrite on the un-extended dataset fail, and that "
        "status is tested",
    ("digital_rf_write_samples_to_file", "digital_rf_extend_dataset"):
        "a failed extent makes the following H5Dwrite (status tested, sets has_failure) fail",
}
POST_PUBLISH = {"digital_rf_free_hdf5_data_object":
                "runs after the publish decision; the handles were closed and zeroed by the caller (C02.R2 typestate)"}


def _extent_then_tested_write(fn, g, cn, c):
    """A dataset extension whose own status is not examined is harmless when, on every path from it to the end of the function,
    the same dataset is written with H5Dwrite and *that* status is examined: writing a selection beyond the extent fails."""
    if c.callee != "H5Dset_extent" or not c.args:
        return False
    dset = c.args[0].path()
    writes = []
    for w in fn.calls(("H5Dwrite",)):
        if w.args and w.args[0].path() == dset:
            use = clib.status_usage(w)
            wn = _node_of(g, w)
            if wn is None:
                continue
            ok = use in ("tested", "returned")
            if use.startswith("assigned:"):
                ok, _ = clib.var_tested_after(fn, g, wn.id, use.split(":", 1)[1])
            if ok:
                writes.append(wn.id)
    if not writes:
        return False
    return g.exit.id not in g.reach([cn.id], avoid=writes)


def _wraps_publish(tu, name, seen=()):
    """does library function `name` (transitively, depth <= 3) call digital_rf_close_hdf5_file?"""
    fn = tu.functions.get(name)
    if fn is None or name in seen or len(seen) > 3:
        return False
    for c in fn.calls():
        if c.callee == "digital_rf_close_hdf5_file" or _wraps_publish(tu, c.callee, seen + (name,)):
            return True
    return False


def r4_no_lost_status(repo=None):
    r = Rule("C10.R4", "no I/O status is lost (discarded or overwritten before being tested)")
    tu = cfront.lib(repo)
    n_checked = 0
    for fname, fn in tu.functions.items():
        g = None
        IN = None
        for c in fn.calls():
            if c.callee not in (IO_PRIMS | IO_LIBFNS):
                continue
            if c.callee in FLUSH and (not c.args or c.args[0].field() not in ("hdf5_file", "dataset", "index_dataset")
                                      ) and c.callee != "H5Fclose":
                continue
            if fname in POST_PUBLISH:
                r.allowed("%s: %s" % (fname, c.nsrc), POST_PUBLISH[fname])
                continue
            if g is None:
                g = _cfg.build_c(fn)
                _, IN, _, _ = clib.handle_states(fn, ("hdf5_file", "dataset", "index_dataset"))
            cn = _node_of(g, c)
            if cn is None or cn.id not in IN:
                r.note("%s:%s %s unreachable under the handle typestate (defensive close of a ZERO handle)" % (
                    fname, c.line, c.nsrc))
                continue
            if c.callee in FLUSH:
                # (a) a close that can only run after this function's publish call is not a flush point of the
                #     file being published; (b) a handle obtained from H5Fopen(.., H5F_ACC_RDONLY) has nothing to flush
                # (the publish call itself, or a library helper that wraps it)
                pubs = [_node_of(g, p) for p in fn.calls() if p.callee == "digital_rf_close_hdf5_file" or _wraps_publish(tu, p.callee)]
                pubs = [p for p in pubs if p is not None]
                if pubs and all(cn.id in g.reach([p.id]) and p.id not in g.reach([cn.id]) for p in pubs):
                    r.allowed("%s: %s after the publish call" % (fname, c.nsrc),
                              "defensive close executed only after the previous file was published; the handle belongs to "
                              "no unpublished file (struct invariant: dataset is zeroed together with hdf5_file)")
                    continue
                var = c.args[0].path() if c.args else None
                opens_ro = [_node_of(g, o) for o in fn.calls(("H5Fopen",)) if "H5F_ACC_RDONLY" in o.args[1].nsrc
                            and clib.status_usage(o) == "assigned:%s" % var]
                creates = [_node_of(g, o) for o in fn.calls(("H5Fcreate", "H5Dcreate2"))
                           if clib.status_usage(o) == "assigned:%s" % var]
                if opens_ro and any(cn.id in g.reach([o.id]) for o in opens_ro) and not any(
                        cn.id in g.reach([k.id]) for k in creates):
                    r.note("%s:%s %s closes a handle opened read-only (nothing to flush)" % (fname, c.line, c.nsrc))
                    continue
            n_checked += 1
            use = clib.status_usage(c)
            site = "%s:%s %s %s" % (LIB, c.line, fname, c.callee)
            key = (fname, c.callee)
            if use in ("tested", "returned"):
                r.ok(site, "status " + use)
            elif use.startswith("assigned:"):
                var = use.split(":", 1)[1]
                ok, where = clib.var_tested_after(fn, g, cn.id, var)
                if ok:
                    r.ok(site, "status stored in `%s` and tested/returned on every path" % var)
                elif _extent_then_tested_write(fn, g, cn, c):
                    r.allowed("%s: %s = %s(...) overwritten before test" % (fname, var, c.callee), EXTENT_REASON)
                elif key in ALLOW_DEAD:
                    r.allowed("%s: %s = %s(...) overwritten before test" % (fname, var, c.callee), ALLOW_DEAD[key])
                else:
                    r.violation(LIB, fname, "%s = %s(...) overwritten or dropped before being tested" % (var, c.callee),
                                "an I/O status is lost: a failure of this call is never noticed", line=c.line, path=where)
            elif use == "discarded":
                rets = [x for x in g.nodes if x.kind == "return" and x.id in g.reach([cn.id])]
                if c.callee in ("remove", "unlink") and rets and g.exit.id not in g.reach(
                        [cn.id], avoid=[x.id for x in rets]) and all(
                        x.ast.children and (x.ast.children[0].intval() or 0) != 0 for x in rets):
                    r.ok(site, "best-effort clean-up on a path that already returns an error (every return reachable from "
                               "here is a non-zero constant)")
                elif _extent_then_tested_write(fn, g, cn, c):
                    r.allowed("%s: %s(...) result discarded" % (fname, c.callee), EXTENT_REASON)
                elif key in ALLOW_DEAD:
                    r.allowed("%s: %s(...) result discarded" % (fname, c.callee), ALLOW_DEAD[key])
                else:
                    r.violation(LIB, fname, "%s(...) result discarded" % c.callee,
                                "an I/O status is discarded: a failure of this call is never noticed", line=c.line)
            else:
                if use == "argument" and _status_param_tested(tu, c, need_flag=False):
                    r.ok(site, "status handed to a helper of the library that tests it")
                else:
                    raise AnalysisError("%s: result of %s(...) used as %s: a use of an I/O status this rule does not follow" % (fname, c.callee, use))
    r.guard(12)
    return r


# queries and pure functions: a test of their result is not the observation of an I/O failure (access() finding a file is a refusal)
PURE_EXTERNAL = ("access", "stat", "lstat", "strcmp", "strncmp", "strstr", "strlen", "strchr", "strrchr", "memcmp", "fabs", "fabsl", "floor",
                 "floorl", "ceil", "ceill", "isnan", "isinf", "llabs", "abs", "time")
IO_EXTERNAL = ("mkdir", "_mkdir", "rename", "remove", "unlink", "rmdir", "fopen", "fclose", "fwrite", "fflush", "fsync", "open", "close", "write")


def r5_failure_flag_means_io_failure(repo=None, rid="C10.R5"):
    """The sticky flag has two consequences: every later write is refused, and at close the open file is *removed* instead of
    published.  Both are right after an I/O failure ('a file is never published with content that is known to be damaged') and
    wrong after a mere refusal ('a write that would need to alter a finalized file is rejected and the writer remains usable').
    Who-may-set rule with provenance: every store of a non-zero value into has_failure is controlled by a condition that reads an
    I/O status - the result of an HDF5 / file-system call, a local or field assigned from one, the result of a library function
    whose every non-zero return is itself so controlled (computed recursively), or a parameter that receives such a value at
    every call site."""
    r = Rule(rid, "has_failure is set only where the failure of an HDF5 / file-system call was observed")
    tu = cfront.lib(repo)

    def is_ext_io(c):
        return c.kind == "CallExpr" and c.callee and c.callee not in tu.functions and (c.callee.startswith("H5") or c.callee in IO_EXTERNAL)
    memo = {}

    def io_vars(fn):
        out = set()
        for path, node, rhs, kind in clib.stores(fn):
            if path and kind == "=" and rhs is not None and any(is_ext_io(x) or (x.kind == "CallExpr" and x.callee in tu.functions and io_step(x.callee))
                                                               for x in rhs.walk()):
                out.add(path)
        for d in fn.find("VarDecl"):
            if d.children and any(is_ext_io(x) for x in d.children[-1].walk()):
                out.add(d.name)
        return out

    def cond_is_io(cond, fn, depth=0):
        iv = io_vars(fn)
        params = [p_.name for p_ in fn.children if p_.kind == "ParmVarDecl"]
        for x in cond.walk():
            if is_ext_io(x):
                return True
            if x.kind == "CallExpr" and x.callee in tu.functions and io_step(x.callee, depth + 1):
                return True
            p_ = x.path() if x.kind in ("DeclRefExpr", "MemberExpr") else None
            if p_ and p_ in iv:
                return True
            if p_ in params and depth < 3 and not any(path == p_ for path, nd, rhs, k in clib.stores(fn)):
                # a parameter: an I/O status at every call site
                idx = params.index(p_)
                sites = [(cf, c) for cf in tu.functions.values() for c in cf.calls((fn.name,))]
                if sites and all(idx < len(c.args) and cond_is_io(c.args[idx], cf, depth + 1) for cf, c in sites):
                    return True
        return False

    def io_step(name, depth=0):
        """every non-zero return of library function `name` is controlled by (or is) an I/O status"""
        if name in memo:
            return memo[name]
        memo[name] = False
        if depth > 3:
            return False
        fn = tu.functions[name]
        rets = [x for x in fn.find("ReturnStmt") if x.children and x.children[0].intval() != 0]
        ok = bool(rets)
        iv = None
        for rt in rets:
            v = rt.children[0]
            if any(is_ext_io(x) for x in v.walk()):
                continue
            iv = io_vars(fn) if iv is None else iv
            if (v.strip(casts=True).path() or "") in iv:
                continue
            good = False
            a = rt.parent
            while a is not None and a is not fn:
                if a.kind == "IfStmt" and cond_is_io(a.children[0], fn, depth + 1):
                    good = True
                    break
                a = a.parent
            if not good:
                ok = False
                break
        memo[name] = ok
        return ok
    n = 0
    for fname, fn in tu.functions.items():
        for path, node, rhs, kind in clib.stores(fn):
            if not path or not path.endswith("->has_failure") or rhs is None or kind != "=" or rhs.intval() == 0:
                continue
            n += 1
            conds = []

            def fail_side(e):
                """the branch label on which the status tested by e is a failure: `x < 0`, `x != 0`, `x` -> T; `x == 0`, `x >= 0`, `!x` -> F"""
                t = e.strip(casts=True)
                if t.kind == "UnaryOperator" and t.opcode == "!":
                    fs = fail_side(t.children[0])
                    return {"T": "F", "F": "T"}.get(fs)
                if t.kind == "BinaryOperator" and t.opcode == "&&":
                    return "T"
                if t.kind == "BinaryOperator" and t.opcode in ("<", "!=", ">") and t.children[1].intval() == 0:
                    return "T"
                if t.kind == "BinaryOperator" and t.opcode in ("==", ">=") and t.children[1].intval() == 0:
                    return "F"
                if t.kind == "BinaryOperator" and t.opcode == "==" and t.children[1].intval() is not None and t.children[1].intval() < 0:
                    return "T"
                if t.kind in ("CallExpr", "DeclRefExpr", "MemberExpr"):
                    return "T"
                return None
            a, ch_ = node.parent, node
            while a is not None and a is not fn:
                if a.kind == "IfStmt":
                    side = "T" if a.children[1].begin <= node.begin <= a.children[1].end else "F"
                    if fail_side(a.children[0]) == side:
                        conds.append(a.children[0])
                    else:
                        conds.append(None)          # an enclosing test, but the store is not on its failure side
                a = a.parent
            # control dependence on the CFG as well (an inlined static helper turns `if (helper(...) < 0)` into jumps)
            g = _cfg.build_c(fn)
            sn = clib.node_of(g, node)
            if sn is not None:
                for cn in g.nodes:
                    if cn.kind != "cond" or cn.ast is None:
                        continue
                    rt = g.reach([b for b, l in g.succ[cn.id] if l == "T"], avoid=[cn.id], skip_labels=("back",))
                    rf = g.reach([b for b, l in g.succ[cn.id] if l == "F"], avoid=[cn.id], skip_labels=("back",))
                    if (sn.id in rt) != (sn.id in rf) and not any(cn.ast is c_ for c_ in conds):
                        side = "T" if sn.id in rt else "F"
                        conds.append(cn.ast if fail_side(cn.ast) == side else None)
            site = "%s:%s %s `%s`" % (LIB, node.line, fname, node.nsrc[:50])
            had_any = bool(conds)
            conds = [c for c in conds if c is not None]
            if any(cond_is_io(c, fn) for c in conds):
                r.ok(site, "on the failure side of a test of an I/O status (`%s`)" % [c for c in conds if cond_is_io(c, fn)][0].nsrc[:50])
            elif not had_any:
                raise AnalysisError("%s: has_failure is set unconditionally at line %s: not decided" % (fname, node.line))
            elif any(x.kind == "CallExpr" and (not x.callee or (x.callee not in tu.functions and not is_ext_io(x) and x.callee not in PURE_EXTERNAL))
                     for c in conds for x in c.walk()):
                # the status of a call through a pointer (a table of close functions) or of a function this rule has no entry for
                raise AnalysisError("%s: has_failure at line %s is set under `%s`, the status of a call that is not resolved: not decided" % (
                    fname, node.line, conds[0].nsrc[:50]))
            else:
                r.violation(LIB, fname, "%s under `%s`" % (node.nsrc[:40], conds[0].nsrc[:50] if conds else "the success side of the tests around it"), "the sticky failure flag is set where no I/O call "
                            "was seen to fail (a refusal, a count): every later write is refused and at close the open file - intact data "
                            "that was accepted - is removed instead of published", line=node.line)
    if n < 5:
        raise AnalysisError("stores of has_failure: %d found, 11 confirmed on the reference tree" % n)
    r.guard(8)
    return r


DATA_ALTERING = ("H5Dwrite", "H5Dset_extent")


def _status_fail_side(e, var=None, call=None):
    """the branch label on which the status tested by condition e (of local `var`, or of `call` tested in place) is a failure"""
    t = e.strip(casts=True)
    if t.kind == "UnaryOperator" and t.opcode == "!":
        fs = _status_fail_side(t.children[0], var, call)
        return {"T": "F", "F": "T"}.get(fs)

    def is_status(x):
        x = x.strip(casts=True)
        return (var is not None and x.path() == var) or (call is not None and x is call)
    if t.kind == "BinaryOperator" and t.opcode in ("<", "!=", "==", ">=", ">", "<=") :
        a, b = t.children
        op = t.opcode
        if is_status(b) and not is_status(a):
            a, b = b, a
            op = {"<": ">", ">": "<", "<=": ">=", ">=": "<="}.get(op, op)
        if not is_status(a):
            return None
        v = b.intval()
        if v == 0:
            return {"<": "T", ">=": "F", "!=": "T", "==": "F"}.get(op)
        if v == -1:
            return {"==": "T", "!=": "F", "<=": "T", ">": "F"}.get(op)
        return None
    if is_status(t):
        return "T"
    return None


def r6_detected_data_failure_is_final(repo=None):
    """'A file is never published with content that is known to be damaged': once a call that alters the data file (H5Dwrite,
    H5Dset_extent) has been *seen* to fail, what the file holds is not known any more - HDF5 drops a chunk whose eviction failed
    whether or not a later call succeeds - so the only things the library may do are record the failure and give up.  On the CFG
    of every library function: from the failure side of every test of such a call's status, no path reaches another
    data-altering call (a second attempt, the index write, an extension) without first passing `has_failure = 1`."""
    r = Rule("C10.R6", "after a detected failure of H5Dwrite / H5Dset_extent nothing is written to the file again before has_failure is set")
    tu = cfront.lib(repo)
    n_tests = 0
    seen_tests = set()
    for fname, fn in tu.functions.items():
        calls = fn.calls(DATA_ALTERING)
        if not calls:
            continue
        g = _cfg.build_c(fn)
        setters = _failure_setters(g)
        alter = {}
        for c in fn.calls(DATA_ALTERING) + [c for c in fn.calls() if c.callee in tu.functions and tu.functions[c.callee].calls(DATA_ALTERING)]:
            nd = _node_of(g, c)
            if nd is not None:
                alter.setdefault(nd.id, c)
        for c in calls:
            cn = _node_of(g, c)
            use = clib.status_usage(c)
            tests = []
            if use == "tested":
                tests.append((cn, _status_fail_side(cn.ast, call=c)))
            elif use.startswith("assigned:"):
                var = use.split(":", 1)[1]
                others = [_node_of(g, nd).id for path, nd, rhs, kind in clib.stores(fn) if path == var and _node_of(g, nd) is not None
                          and _node_of(g, nd).id != cn.id]
                live = g.reach([b for b, l in g.succ[cn.id]], avoid=others)
                for n in g.nodes:
                    if n.kind == "cond" and n.ast is not None and n.id in live and any(x.path() == var for x in n.ast.walk() if x.kind == "DeclRefExpr"):
                        tests.append((n, _status_fail_side(n.ast, var=var)))
            else:
                continue        # a dropped status is C10.R4's finding
            for tn, lab in tests:
                if lab is None or (fname, tn.id) in seen_tests:
                    continue    # a test this rule does not read (R2 / R4 decide those)
                seen_tests.add((fname, tn.id))
                n_tests += 1
                starts = [b for b, l in g.succ[tn.id] if l == lab]
                reach = g.reach(starts, avoid=setters)
                again = sorted((alter[i] for i in alter if i in reach), key=lambda c_: c_.line)
                site = "%s:%s %s `%s`" % (LIB, tn.line, fname, tn.label[:50])
                if again:
                    a_ = again[0]
                    r.violation(LIB, fname, "after the failed %s: %s" % (c.callee, a_.nsrc[:60]), "the failure side of `%s` reaches %s (line %d) "
                                "without has_failure having been set: the file is written again after an I/O error whose effect on it is "
                                "unknown (a chunk whose eviction failed is dropped by HDF5) and, if the second call succeeds, no error is "
                                "reported and the damaged file is published" % (tn.label[:40], a_.callee, a_.line), line=tn.line)
                else:
                    r.ok(site, "no data-altering call is reachable from the failure side before has_failure = 1")
    if n_tests < 2:
        raise AnalysisError("C10.R6: %d tests of the status of H5Dwrite / H5Dset_extent found, 3 confirmed on the reference tree" % n_tests)
    r.guard(2)
    return r


def r7_nothing_open_at_publication(repo=None):
    """'a file is never published with content that is known to be damaged' needs every flush point of the file to lie *before*
    the publishing rename, where its status can still turn the rename into a removal: at each publish call every HDF5 handle of
    the data file is closed or zero on every path (typestate, C02.R2).  A data set left open makes H5Fclose a no-op that succeeds;
    the real flush then runs, unchecked, when the object is freed - after the file got its final name."""
    from . import c02
    x = c02.r2_publish_after_close(repo)
    old = x.rid
    x.rid = "C10.R7"
    for f in x.findings:
        f.rule = "C10.R7"
    x.title = x.title + " [= %s]" % old
    return x


def rules(repo=None):
    return [lambda: r7_nothing_open_at_publication(repo), lambda: r6_detected_data_failure_is_final(repo), lambda: r1_flush_status_gates_publication(repo), lambda: r2_sticky_failure(repo),
            lambda: r3_failed_file_removed(repo), lambda: r4_no_lost_status(repo), lambda: r5_failure_flag_means_io_failure(repo)]


EXPLANATION = (
    'Error-discipline check of the C writer. R1: for both publish paths (roll-over, final close) every H5Dclose/H5Fclose '
    'of the open data file that can reach the publishing call has its status tested and its failure branch sets '
    'has_failure before the rename/remove decision; the rename/remove status is examined; the properties-file close is '
    'examined. R2: the five detected-failure branches (H5Dwrite, H5Fcreate, mkdir, failed publish at roll-over, failed '
    'block-index write) set has_failure before returning an error, both public write entry points test it first, it is '
    'never reset. R3: rename only on the !has_failure branch, remove on the other. R4: no I/O-table call in the library '
    'has its status discarded or overwritten before a test (two named allow-list entries). R1 also: the failure side of '
    'the H5Fcreate of drf_properties.h5 reaches its error return only through remove / unlink of that path (guarded only '
    "by 'did the name exist before'): a failed create leaves no empty file behind. Decides the error discipline on all "
    'paths, NOT what HDF5 does internally after a failed write. R5: who-may-set has_failure with provenance - every non-'
    'zero store is controlled by a test of an I/O status (see C11.R9). R6: from the failure side of every test of the status of '
    'H5Dwrite / H5Dset_extent no data-altering call (a retry, the index write) is reachable before has_failure is set. R7 (= C02.R2): '
    'at every publish call all HDF5 handles of the data file are closed or zero on every path - no flush point is left for after the rename.')
TECHNIQUE = ('clang JSON AST; status-usage classification of every I/O call; CFG must-pass of failure branches before the publish decision')
ASSUMPTIONS = ["HDF5 flushes buffered data at H5Dclose/H5Fclose and reports failure through their return value",
               "attribute/dataspace/property-list calls do no file I/O (their failure surfaces at the next flush point)",
               "clang 14 AST is faithful"]
FILES = [C_LIB, "c/include/digital_rf.h"]
