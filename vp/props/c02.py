"""C02 -- Kill-safe publication of data files (also the protocol part of C09).

Decides the shape of the writer's file-system protocol: create-under-tmp -> write -> close all
handles -> rename to final; final names are never opened for writing; readers/listings cannot see
`tmp.` names.  It does not decide that HDF5 wrote every byte before H5Fclose returned.
"""
from __future__ import annotations

import ast

from ..core import Rule, AnalysisError, C_LIB, norm
from .. import cfront, clib, cfg as _cfg, pyfront, cfold, rx

LIB = C_LIB
HANDLES = ("hdf5_file", "dataset", "index_dataset")
H5_MUTATORS = {"H5Dwrite", "H5Awrite", "H5Acreate2", "H5Dset_extent", "H5Dcreate2", "H5Fcreate", "H5Gcreate2"}


def _basename_formats(tu):
    """Formats the struct field `basename` can hold."""
    org = clib.field_origins(tu, "basename")
    fmts = [p for p in org if p.kind == "fmt"]
    other = [p for p in org if p.kind not in ("fmt",) and not (p.kind == "lit" and p.val == "")]
    return fmts, other


def r1_tmp_provenance(repo=None):
    r = Rule("C02.R1", "data files are created, renamed and removed only under a `tmp.`-prefixed name (strprov)")
    tu = cfront.lib(repo)
    fmts, other = _basename_formats(tu)
    if not fmts:
        raise AnalysisError("no snprintf format reaches the `basename` field (anchor idiom changed)")
    for p in other:
        r.violation(LIB, "-", "basename <- %r" % (p.val,), "the `basename` field can hold a value that is not the "
                    "tmp-prefixed format: %r" % (p,), line=p.node.line if p.node is not None else None)
    for p in fmts:
        f = p.val
        site = "%s:%s snprintf format %r" % (LIB, p.node.line, f)
        if not f.startswith("tmp."):
            r.violation(LIB, p.node.function().name, "snprintf(basename, %r)" % f,
                        "the in-progress data file name does not start with `tmp.`", line=p.node.line)
        else:
            r.ok(site, "in-progress file name starts with `tmp.`")
    # create / rename / remove sites
    expected_tmp = ("<directory>", "/", "<sub_directory>", "/", "<basename>")
    n_create = n_rename = n_remove = 0
    for fname, fn in tu.functions.items():
        for c in fn.calls(("H5Fcreate", "rename", "remove", "unlink")):
            if c.callee == "H5Fcreate":
                var = c.args[0].path()
                pieces, seen = clib.build_string(fn, var, before=c)
                sh = clib.shape(pieces)
                if sh and sh[-1] == "<basename>":
                    n_create += 1
                    if sh == expected_tmp:
                        r.ok("%s:%s %s H5Fcreate(%s)" % (LIB, c.line, fname, var),
                             "created path = directory/sub_directory/basename (tmp name)")
                    else:
                        r.violation(LIB, fname, "H5Fcreate(%s) path=%s" % (var, "".join(sh)),
                                    "data file created under an unexpected path composition", line=c.line)
            elif c.callee == "rename":
                n_rename += 1
                src, _ = clib.build_string(fn, c.args[0].path(), before=c)
                dst, _ = clib.build_string(fn, c.args[1].path(), before=c)
                ssh, dsh = clib.shape(src), clib.shape(dst)
                ok = ssh == expected_tmp and dsh[:-1] == expected_tmp[:-1] and dsh[-1].startswith("strstr(<basename>")
                if ok:
                    needle = dst[-1].val
                    for p in fmts:
                        if p.val.find(needle) != len("tmp.") or not p.val.startswith("tmp."):
                            ok = False
                            r.violation(LIB, fname, "rename target strstr(basename, %r) with format %r" % (needle, p.val),
                                        "the rename target is not exactly the tmp name with the `tmp.` prefix removed",
                                        line=c.line)
                    if ok:
                        r.ok("%s:%s %s rename" % (LIB, c.line, fname),
                             "source is the tmp path; target is the same path with exactly `tmp.` removed "
                             "(strstr needle %r at offset 4 of every format)" % needle)
                else:
                    r.violation(LIB, fname, "rename(%s -> %s)" % ("".join(ssh), "".join(dsh)),
                                "rename does not go from the tmp path to its final name", line=c.line)
            else:
                n_remove += 1
                src, _ = clib.build_string(fn, c.args[0].path(), before=c)
                if clib.shape(src) == expected_tmp:
                    r.ok("%s:%s %s %s" % (LIB, c.line, fname, c.callee), "only the tmp path is removed")
                elif _failed_create_leftover(fn, c):
                    r.ok("%s:%s %s %s(%s)" % (LIB, c.line, fname, c.callee, "".join(clib.shape(src))),
                         "removes what a failed H5F_ACC_EXCL create of this same call left behind, and only when no file of that "
                         "name existed before the create (access() probe taken before it)")
                elif _own_exclusive_create(fn, c):
                    r.ok("%s:%s %s %s(%s)" % (LIB, c.line, fname, c.callee, "".join(clib.shape(src))),
                         "removes only the file this same call created with H5F_ACC_EXCL (creation succeeded on every "
                         "path to the remove)")
                else:
                    r.violation(LIB, fname, "%s(%s)" % (c.callee, "".join(clib.shape(src))),
                                "a path other than the in-progress tmp file is deleted", line=c.line)
    if n_create < 1 or n_rename < 1 or n_remove < 1:
        raise AnalysisError("C02.R1: expected >=1 data-file create, rename and remove site, found %d/%d/%d"
                            % (n_create, n_rename, n_remove))
    r.guard(4)
    return r


def _own_exclusive_create(fn, rm):
    """remove(path) is acceptable when the same function created `path` itself with H5F_ACC_EXCL on every path to
    the remove and the create's failure branch cannot reach the remove."""
    g = _cfg.build_c(fn)
    var = rm.args[0].path()

    def node_of(x):
        best = None
        for n in g.nodes:
            if n.ast is not None and n.kind in ("stmt", "cond", "return") and n.ast.begin <= x.begin and x.end <= n.ast.end:
                if best is None or (n.ast.end - n.ast.begin) < (best.ast.end - best.ast.begin):
                    best = n
        return best

    R = node_of(rm)
    creates = [c for c in fn.calls(("H5Fcreate",)) if c.args[0].path() == var and "H5F_ACC_EXCL" in c.args[1].nsrc]
    if not creates or R is None:
        return False
    K = [node_of(c) for c in creates]
    if R.id in g.reach([g.entry.id], avoid=[k.id for k in K]):
        return False
    for c in creates:
        use = clib.status_usage(c)
        if not use.startswith("assigned:"):
            return False
        hv = use.split(":", 1)[1]
        tested = False
        for n in g.nodes:
            if n.kind == "cond" and n.ast is not None:
                e = n.ast.strip()
                if e.kind == "BinaryOperator" and e.opcode == "<" and e.children[0].path() == hv \
                        and e.children[1].intval() == 0:
                    tested = True
                    fail = [b for b, l in g.succ[n.id] if l == "T"]
                    if R.id in g.reach(fail):
                        return False
        if not tested:
            return False
    return True


def _failed_create_leftover(fn, rm):
    """remove(path) on the failure side of `h = H5Fcreate(path, H5F_ACC_EXCL, ..)` is acceptable when its path condition
    contains `!V` for a local V assigned once, before the create on every path, from `access(path, F_OK) != -1` (the name
    did not exist, so what is there now was made by the failed create)."""
    from .. import cbool
    g = _cfg.build_c(fn)
    var = rm.args[0].path()
    creates = [c for c in fn.calls(("H5Fcreate",)) if c.args[0].path() == var and "H5F_ACC_EXCL" in c.args[1].nsrc]
    if len(creates) != 1:
        return False
    pc = cbool.path_condition(rm, fn)
    use = clib.status_usage(creates[0])
    if not use.startswith("assigned:"):
        return False
    hv = use.split(":", 1)[1]
    # the remove is on the failure side of the create: path condition with `h < 0` false is unsatisfiable
    fail_atoms = [a for a in cbool.atoms(pc) if a.replace(" ", "") in ("0>%s" % hv, "%s<0" % hv)]
    if not fail_atoms:
        return False
    ok_, _w = cbool.equivalent(cbool.conj([pc, ("not", ("atom", fail_atoms[0]))]), ("false",))
    if not ok_:
        return False
    flags = []
    for path, node, rhs, kind in clib.stores(fn):
        if kind == "=" and path in {d.name for d in fn.find("VarDecl")}:
            e = rhs.strip(casts=True)
            acc = [c for c in e.calls(("access",)) if c.args and c.args[0].path() == var and "F_OK" in c.args[1].nsrc]
            if acc and e.kind == "BinaryOperator" and e.opcode == "!=" and e.children[1].intval() == -1:
                flags.append((path, node))
    for v, node in flags:
        if len([1 for path, n2, _r, _k in clib.stores(fn) if path == v]) != 1:
            continue
        ok2, _w = cbool.equivalent(cbool.conj([pc, ("atom", v)]), ("false",))
        if not ok2 or v not in cbool.atoms(pc):
            # the path condition may spell the named condition out (cbool.truth looks through locals defined once by a boolean
            # expression): `V` true is then the truth of its definition
            vdef = [rhs_ for path_, n_, rhs_, k_ in clib.stores(fn) if path_ == v and rhs_ is not None]
            ok2 = False
            if len(vdef) == 1:
                ok2, _w = cbool.equivalent(cbool.conj([pc, cbool.truth(vdef[0])]), ("false",))
        if not ok2:
            continue
        # the probe is taken before the create on every path
        def node_of(x):
            best = None
            for n in g.nodes:
                if n.ast is not None and n.kind in ("stmt", "cond", "return") and n.ast.begin <= x.begin and x.end <= n.ast.end:
                    if best is None or (n.ast.end - n.ast.begin) < (best.ast.end - best.ast.begin):
                        best = n
            return best
        P, K = node_of(node), node_of(creates[0])
        if P is not None and K is not None and K.id not in g.reach([g.entry.id], avoid=[P.id]):
            return True
    return False


def publish_sites(tu):
    return [(f, c) for f, c in clib.callers(tu, "digital_rf_close_hdf5_file")]


def r2_publish_after_close(repo=None):
    r = Rule("C02.R2", "rename happens only after every HDF5 handle of the file was closed (typestate)")
    tu = cfront.lib(repo)
    # rename lives only in digital_rf_close_hdf5_file
    for fname, fn in tu.functions.items():
        for c in fn.calls(("rename",)):
            if fname != "digital_rf_close_hdf5_file":
                r.violation(LIB, fname, c.nsrc, "rename outside digital_rf_close_hdf5_file (publish protocol bypassed)",
                            line=c.line)
    sites = publish_sites(tu)
    if len(sites) < 2:
        raise AnalysisError("expected 2 publish sites (roll-over, final close), found %d" % len(sites))
    # the same typestate in the functions that hold no publish call: a handle forgotten there (zeroed while it may be open, e.g. on
    # an error path that believes nothing is open) is never closed, so the file it belongs to is never published at all
    pub_fns = {fname for fname, call in sites}
    for fname, fn in tu.functions.items():
        if fname in pub_fns:
            continue
        zs = [(path, node) for path, node, rhs, kind in clib.stores(fn) if path and path.startswith(clib.OBJ + "->") and path.split("->")[-1] in HANDLES
              and kind == "=" and rhs is not None and rhs.intval() == 0]
        if not zs:
            continue
        try:
            g_, IN_, events_, _t = clib.handle_states(fn, HANDLES)
        except AnalysisError:
            raise
        for kind, n, f, prev in events_:
            if fname in ("digital_rf_create_write_hdf5",):
                continue        # the constructor initialises the fields of a fresh object
            r.violation(LIB, fname, "%s = 0 without close" % f, "handle `%s` is zeroed without its H5?close call on some path (state %s): the file it "
                        "belongs to stays open and unnamed - the next roll-over or close skips the close-and-rename step and the `tmp.` "
                        "file is never published" % (f, prev), line=n.line)
    for fname, call in sites:
        fn = tu.fn(fname)
        g, IN, events, transfer = clib.handle_states(fn, HANDLES)
        node = [n for n in g.nodes if n.ast is not None and n.kind in ("stmt", "cond", "return")
                and n.ast.begin <= call.begin and call.end <= n.ast.end]
        node = sorted(node, key=lambda n: n.ast.end - n.ast.begin)[0]
        if node.id not in IN:
            r.note("%s: publish call at line %s is unreachable" % (fname, call.line))
            continue
        st = IN[node.id]
        for h in HANDLES:
            v = st.get(h, clib.TOP)
            site = "%s:%s %s publish call, handle %s" % (LIB, call.line, fname, h)
            if v == clib.Z:
                r.ok(site, "ZERO on every path (closed and zeroed before the rename)")
            else:
                r.violation(LIB, fname, "digital_rf_close_hdf5_file() with %s=%s" % (h, v),
                            "the file can be renamed to its final name while HDF5 handle `%s` may still be open "
                            "(state %s)" % (h, v), line=call.line)
        for kind, n, f, prev in events:
            r.violation(LIB, fname, "%s = 0 without close" % f,
                        "handle `%s` is zeroed without its H5?close call on some path (state %s): an unflushed file "
                        "could be published" % (f, prev), line=n.line)
        # no HDF5 mutation between the last close and the publish call
        closes = [n for n in g.nodes if n.ast is not None and any(
            c.callee in ("H5Fclose",) for c in n.ast.calls())]
        muts = [n.id for n in g.nodes if n.ast is not None and n.kind in ("stmt", "cond", "return") and any(
            c.callee in H5_MUTATORS for c in n.ast.calls())]
        for cl in closes:
            reach = g.reach([cl.id])
            if node.id not in reach:
                continue
            for m in muts:
                if m in reach and node.id in g.reach([m]) and m != cl.id:
                    # m lies between close and publish on some path
                    if g.path(cl.id, m) and g.path(m, node.id):
                        r.violation(LIB, fname, g.nodes[m].label,
                                    "HDF5 mutation between H5Fclose and the publishing rename", line=g.nodes[m].line)
    r.guard(6)
    return r


FINAL_WRITERS_PY = ("os.remove", "os.unlink", "os.rename", "os.replace", "os.truncate", "shutil.move",
                    "shutil.copy", "shutil.copy2", "shutil.copyfile", "os.link", "os.symlink")


def h5py_sites(repo=None):
    """All h5py.File(...) call sites of the package with their (constant) mode."""
    out = []
    for mname, m in pyfront.package(repo).items():
        for n in ast.walk(m.tree):
            if isinstance(n, ast.Call) and pyfront.call_name(n) == "h5py.File":
                mode = pyfront.kwarg(n, "mode", 1)
                mv = pyfront.const(mode) if mode is not None else "r"
                out.append((m, n, mv if mode is None or isinstance(mode, ast.Constant) else None))
    return out


def r3_no_writer_of_final(repo=None):
    r = Rule("C02.R3", "nothing opens, truncates or removes a final data-file name (who-may-write)")
    tu = cfront.lib(repo)
    seen = {}
    for fname, fn in tu.functions.items():
        for c in fn.calls():
            if c.callee in clib.FS_CALLS:
                seen.setdefault(c.callee, []).append((fname, c))
    allowed = {"H5Fcreate", "H5Fopen", "mkdir", "_mkdir", "rename", "remove"}
    for callee, sites in sorted(seen.items()):
        for fname, c in sites:
            site = "%s:%s %s %s" % (LIB, c.line, fname, callee)
            if callee not in allowed:
                r.violation(LIB, fname, c.nsrc, "file-system primitive `%s` is not part of the publish protocol "
                            "(allowed: H5Fcreate, H5Fopen read-only, mkdir, rename, remove)" % callee, line=c.line)
            elif callee == "H5Fcreate":
                flag = c.args[1].nsrc
                if "H5F_ACC_EXCL" in flag and "TRUNC" not in flag:
                    r.ok(site, "creates with H5F_ACC_EXCL (never truncates an existing file)")
                else:
                    r.violation(LIB, fname, "H5Fcreate(..., %s)" % flag,
                                "file created without H5F_ACC_EXCL: an existing (finalized) file could be truncated",
                                line=c.line)
            elif callee == "H5Fopen":
                flag = c.args[1].nsrc
                if "H5F_ACC_RDONLY" in flag:
                    r.ok(site, "opens read-only")
                else:
                    r.violation(LIB, fname, "H5Fopen(..., %s)" % flag, "file opened for writing", line=c.line)
            else:
                r.ok(site, "part of the protocol (path checked by C02.R1)")
    # the access(finished) test dominates the data-file H5Fcreate
    fn = tu.fn("digital_rf_create_hdf5_file")
    g = _cfg.build_c(fn)
    creates = [n for n in g.nodes if n.ast is not None and any(c.callee == "H5Fcreate" for c in n.ast.calls())]
    if not creates:
        raise AnalysisError("H5Fcreate not found in digital_rf_create_hdf5_file")
    probes = []
    for n in g.nodes:
        if n.kind == "cond" and n.ast is not None:
            for c in n.ast.calls(("access",)):
                pieces, _ = clib.build_string(fn, c.args[0].path(), before=c)
                sh = clib.shape(pieces)
                if len(sh) == 5 and sh[-1].startswith("strstr(<basename>") and sh[:4] == (
                        "<directory>", "/", "<sub_directory>", "/"):
                    probes.append(n)
    for cr in creates:
        if not probes:
            r.violation(LIB, fn.name, "H5Fcreate without access(finished_fullname) test",
                        "the existence test on the final name before creating the tmp file is missing", line=cr.line)
            continue
        # every path entry -> create passes a probe
        reach = g.reach([g.entry.id], avoid=[p.id for p in probes])
        if cr.id in reach:
            r.violation(LIB, fn.name, "H5Fcreate reachable without access(finished_fullname) test",
                        "a path reaches the file creation without testing that the final name is free",
                        line=cr.line, path=g.describe(g.path(g.entry.id, cr.id, avoid=[p.id for p in probes]) or []))
            continue
        # the 'exists' branch must not reach the create
        okp = True
        for p in probes:
            e = p.ast.strip()
            # access(...) != -1  => T means exists
            exists_lab = "T" if (e.kind == "BinaryOperator" and e.opcode == "!=") else (
                "F" if (e.kind == "BinaryOperator" and e.opcode == "==") else None)
            if exists_lab is None:
                raise AnalysisError("unrecognised form of the access() existence test: %s" % e.nsrc)
            starts = [b for b, lab in g.succ[p.id] if lab == exists_lab]
            if cr.id in g.reach(starts):
                okp = False
                r.violation(LIB, fn.name, "access(finished) != -1 branch reaches H5Fcreate",
                            "the file is created although the final name already exists", line=p.line)
        if okp:
            r.ok("%s:%s %s" % (LIB, cr.line, fn.name),
                 "access(final name) test dominates H5Fcreate and its `exists` branch returns without creating")
    # Python side: h5py.File modes and os/shutil mutators on RF data-file names
    sites = h5py_sites(repo)
    if len(sites) < 10:
        raise AnalysisError("expected >= 10 h5py.File call sites in the package, found %d" % len(sites))
    writer_ok = {("digital_metadata", "DigitalMetadataWriter._sample_group_generator"),
                 ("digital_metadata", "DigitalMetadataWriter._set_fields"),
                 ("digital_metadata", "DigitalMetadataWriter._write_properties"),
                 ("digital_rf_hdf5", "recreate_properties_file")}
    for m, n, mode in sites:
        q = m.qualname_of(n)
        site = "%s:%s %s h5py.File mode=%r" % (m.rel, n.lineno, q, mode)
        if mode == "r":
            r.ok(site, "read-only open")
        elif (m.name, q) in writer_ok or (m.name == "digital_metadata" and q.startswith("DigitalMetadataWriter.")):
            # writer role = any method of the metadata writer class (private helpers may be renamed or split)
            # the write-mode sites must not target RF data files: their path argument is a properties file or a
            # Digital Metadata file name
            arg = ast.unparse(n.args[0]) if n.args else "?"
            r.ok(site, "write-mode open in a writer role on `%s` (not an RF data file)" % arg)
        else:
            r.violation(m.rel, q, ast.unparse(n)[:80], "HDF5 file opened with mode %r outside the writer roles "
                        "(a finalized data file could be modified)" % (mode,), line=n.lineno)
    r.guard(18)
    return r


def r4_staged_creation(repo=None):
    r = Rule("C02.R4", "every HDF5 file the library publishes is created under a tmp name first")
    tu = cfront.lib(repo)
    n = 0
    for fname, fn in tu.functions.items():
        for c in fn.calls(("H5Fcreate",)):
            n += 1
            var = c.args[0].path()
            pieces, _ = clib.build_string(fn, var, before=c)
            sh = clib.shape(pieces)
            last = pieces[-1] if pieces else None
            staged = False
            if last is not None:
                res = clib.resolve_piece(tu, fname, last)
                staged = bool(res) and all(p.kind == "fmt" and p.val.startswith("tmp.") for p in res
                                           if not (p.kind == "lit" and p.val == ""))
                if last.kind == "lit":
                    staged = last.val.startswith("tmp.")
            if staged:
                r.ok("%s:%s %s H5Fcreate(%s)" % (LIB, c.line, fname, "".join(sh)), "created under a tmp. name")
            else:
                r.violation(LIB, fname, "H5Fcreate(%s)" % "".join(sh),
                            "HDF5 file is created directly under its final name: a kill between H5Fcreate and H5Fclose "
                            "leaves a truncated file that readers and a restarted writer trip over", line=c.line)
    if n < 2:
        raise AnalysisError("expected 2 H5Fcreate sites, found %d" % n)
    r.guard(2)
    return r


def grammar_space(repo=None, extra=None):
    f = cfold.Folder(repo)
    names = ["RE_SUBDIR", "RE_DRFFILE", "RE_DMDFILE", "RE_FILE", "RE_DRFPROPFILE", "RE_DMDPROPFILE", "RE_PROPFILE",
             "RE_DRF", "RE_DMD", "RE_DRFDMD", "RE_DRFPROP", "RE_DMDPROP", "RE_DRFDMDPROP",
             "_RE_SUBDIR", "_RE_FILE", "_RE_DRFFILE", "_RE_DMDFILE", "_RE_DRFPROPFILE", "_RE_DMDPROPFILE", "_RE_PROPFILE"]
    pats = {n: f.name("list_drf", n) for n in names}
    globs = {n: f.name("list_drf", n) for n in ("GLOB_SUBDIR", "GLOB_DRFFILE", "GLOB_DMDFILE", "GLOB_DRFPROPFILE",
                                                 "GLOB_DMDPROPFILE")}
    pats["TMPNAME"] = r"tmp\.[^/]*$"
    pats["TMPANY"] = r"tmp\."
    if extra:
        pats.update(extra)
    for n, gl in globs.items():
        pats[n] = rx.glob_to_regex(gl)
    sp = rx.Space(pats, texts=["tmp.rf@drf_properties.h5metadata_dmd/\n", "0123456789-T"])
    return sp, pats, globs


def reader_rf_format(repo=None):
    """The file-name and sub-directory formats DigitalRFReader._get_file_list generates (module constants folded).
    Returns (module, (format string, BinOp node), (strftime format, call node))."""
    m = pyfront.mod("digital_rf_hdf5", repo)
    fn = m.fn("DigitalRFReader._get_file_list")
    fold = cfold.Folder(repo)
    fmts = []
    strf = []
    # the formats may sit in private module helpers the method calls (`_subdir_name(ts)`): those helpers are read as well
    scope = [fn]
    todo = [fn]
    while todo:
        f_ = todo.pop()
        for c in ast.walk(f_):
            if isinstance(c, ast.Call) and isinstance(c.func, ast.Name) and c.func.id.startswith("_") and c.func.id in m.functions \
                    and m.functions[c.func.id] not in scope and len(scope) < 6:
                scope.append(m.functions[c.func.id])
                todo.append(m.functions[c.func.id])
    for n in [x for f_ in scope for x in ast.walk(f_)]:
        if isinstance(n, ast.BinOp) and isinstance(n.op, ast.Mod):
            val = None
            if isinstance(n.left, ast.Constant) and isinstance(n.left.value, str):
                val = n.left.value
            elif isinstance(n.left, ast.Name):
                try:
                    val = fold.expr("digital_rf_hdf5", n.left)
                except AnalysisError:
                    val = None
            if isinstance(val, str) and "@" in val:
                fmts.append((val, n))
        if isinstance(n, ast.Call) and isinstance(n.func, ast.Attribute) and n.func.attr == "strftime" and n.args:
            try:
                strf.append((fold.expr("digital_rf_hdf5", n.args[0]), n))
            except AnalysisError:
                strf.append((None, n))
    if len(fmts) != 1 or len(strf) != 1 or strf[0][0] is None:
        raise AnalysisError("DigitalRFReader._get_file_list: expected one file-name %%-format and one strftime, "
                            "found %d / %d" % (len(fmts), len(strf)))
    return m, fmts[0], strf[0]


def regen_data_glob(repo=None):
    """(pattern text, glob.glob calls, local name or None) of the glob by which recreate_properties_file looks for data files:
    the glob.glob call whose pattern - the last component of the os.path.join it is given, a once-assigned local resolved -
    folds to a text ending in `.h5` (the other glob of the function lists sub-directories)"""
    m2 = pyfront.mod("digital_rf_hdf5", repo)
    fn = m2.fn("recreate_properties_file")
    fo = cfold.Folder(repo)
    found = []
    for c in ast.walk(fn):
        if not (isinstance(c, ast.Call) and pyfront.call_name(c) == "glob.glob" and c.args):
            continue
        a = c.args[0]
        if isinstance(a, ast.Call) and pyfront.call_name(a) == "os.path.join" and a.args:
            a = a.args[-1]
        name = None
        if isinstance(a, ast.Name):
            defs = [n.value for n in ast.walk(fn) if isinstance(n, ast.Assign) and len(n.targets) == 1 and isinstance(n.targets[0], ast.Name)
                    and n.targets[0].id == a.id]
            if len(defs) != 1:
                continue
            name, a = a.id, defs[0]
        try:
            text = fo.expr("digital_rf_hdf5", a)
        except AnalysisError:
            continue
        if isinstance(text, str) and text.endswith(".h5"):
            found.append((text, c, name))
    if not found:
        raise AnalysisError("recreate_properties_file: the glob for data files (a pattern ending in .h5 given to glob.glob) was not found")
    if len({t for t, _, _ in found}) != 1:
        raise AnalysisError("recreate_properties_file: several different data-file globs: %s" % sorted({t for t, _, _ in found}))
    return found[0][0], [c for _, c, _ in found], found[0][2]


def r5_readers_ignore_tmp(repo=None):
    r = Rule("C02.R5", "readers, listings and regeneration cannot see `tmp.` names; a clean close leaves no tmp (rx)")
    m, (fmt, fnode), (sfmt, snode) = reader_rf_format(repo)
    # the millisecond directive of the reader format is bounded: argument is `x % 1000`
    args = fnode.right.elts if isinstance(fnode.right, ast.Tuple) else [fnode.right]
    bounded = {}
    for i, a in enumerate(args):
        if isinstance(a, ast.BinOp) and isinstance(a.op, ast.Mod) and pyfront.int_const(a.right, m) == 1000:
            bounded[i] = 3
    rdr, _ = rx.printf_to_regex(fmt, bounded)
    sp, pats, globs = grammar_space(repo, {"READER_RF": rdr})
    L = sp.langs
    tmp = L["TMPANY"]
    for name in ("_RE_DRFFILE", "_RE_DMDFILE", "_RE_FILE", "READER_RF"):
        w = (L[name] & tmp).witness()
        if w is None:
            r.ok("list_drf/%s" % name, "L(%s) & tmp\\..* = {} (no in-progress file name is accepted)" % name)
        else:
            r.violation("python/digital_rf/list_drf.py", "-", "%s = %s" % (name, pats[name]),
                        "the grammar accepts the in-progress name %r" % w)
    # path-level grammars used by watchers must not accept a tmp file at format depth
    # regeneration glob
    m2 = pyfront.mod("digital_rf_hdf5", repo)
    fn = m2.fn("recreate_properties_file")
    gtext, _gcalls, _gname = regen_data_glob(repo)
    greg = rx.glob_to_regex(gtext)
    sp2 = rx.Space({"G": greg, "TMP": r"tmp\."}, texts=["tmp.rf@.h5"])
    w = (sp2["G"] & sp2["TMP"]).witness()
    if w is None:
        r.ok("%s:%s recreate_properties_file glob %r" % (m2.rel, fn.lineno, gtext),
             "the regeneration glob cannot match a tmp. file")
    else:
        r.violation(m2.rel, "recreate_properties_file", "rf_file_glob = %r" % gtext,
                    "regeneration can pick an in-progress tmp file: %r" % w, line=fn.lineno)
    # clean close: digital_rf_close_write_hdf5 reaches digital_rf_close_hdf5_file on every path where the object
    # is non-NULL; that function renames or removes whenever the tmp file exists
    tu = cfront.lib(repo)
    fnc = tu.fn("digital_rf_close_write_hdf5")
    g = _cfg.build_c(fnc)
    pubs = [n.id for n in g.nodes if n.ast is not None and n.kind in ("stmt", "cond") and any(
        c.callee == "digital_rf_close_hdf5_file" for c in n.ast.calls())]
    frees = [n for n in g.nodes if n.ast is not None and any(
        c.callee == "digital_rf_free_hdf5_data_object" for c in n.ast.calls())]
    if not frees:
        raise AnalysisError("digital_rf_free_hdf5_data_object call not found in digital_rf_close_write_hdf5")
    for fr in frees:
        if fr.id in g.reach([g.entry.id], avoid=pubs):
            r.violation(LIB, fnc.name, "free without finalize", "the object can be freed without finalizing "
                        "(renaming or removing) the in-progress file", line=fr.line)
        else:
            r.ok("%s:%s %s" % (LIB, fr.line, fnc.name), "every path to the final free passes the finalize call")
    fh = tu.fn("digital_rf_close_hdf5_file")
    gh = _cfg.build_c(fh)
    acc = [n for n in gh.nodes if n.kind == "cond" and n.ast is not None and n.ast.calls(("access",))]
    if len(acc) != 1:
        raise AnalysisError("digital_rf_close_hdf5_file: expected one access() test, found %d" % len(acc))
    e = acc[0].ast.strip()
    exists_lab = "T" if e.opcode == "!=" else "F"
    starts = [b for b, lab in gh.succ[acc[0].id] if lab == exists_lab]
    acts = [n.id for n in gh.nodes if n.ast is not None and n.ast.calls(("rename", "remove"))]
    if gh.exit.id in gh.reach(starts, avoid=acts):
        r.violation(LIB, fh.name, "tmp exists but neither renamed nor removed",
                    "a path leaves the in-progress tmp file behind", line=acc[0].line)
    else:
        r.ok("%s:%s %s" % (LIB, acc[0].line, fh.name), "when the tmp file exists it is either renamed or removed")
    r.guard(7)
    return r


IDENTITY = ("sub_directory", "basename")


def identity_writers(tu):
    """Functions that (transitively) store the open file's identity fields sub_directory / basename."""
    direct = set()
    for f in IDENTITY:
        for fname, node, rhs, kind in clib.field_stores(tu, f):
            if fname != "digital_rf_create_write_hdf5":
                direct.add(fname)
    g = clib.call_graph(tu)
    out = set(direct)
    changed = True
    while changed:
        changed = False
        for f, calls in g.items():
            if f not in out and any(c in out for c, _ in calls):
                out.add(f)
                changed = True
    return direct, out


def r6_identity_stable_until_published(repo=None):
    r = Rule("C02.R6", "the open file is published under the name it was created under (identity fields unchanged before the rename)")
    tu = cfront.lib(repo)
    direct, trans = identity_writers(tu)
    sites = publish_sites(tu)
    if len(sites) < 2:
        raise AnalysisError("expected 2 publish sites, found %d" % len(sites))
    for fname, call in sites:
        fn = tu.fn(fname)
        g = _cfg.build_c(fn)
        P = None
        for n in g.nodes:
            if n.ast is not None and n.kind in ("stmt", "cond", "return") and n.ast.begin <= call.begin and call.end <= n.ast.end:
                if P is None or (n.ast.end - n.ast.begin) < (P.ast.end - P.ast.begin):
                    P = n
        writers = []
        for n in g.nodes:
            if n.ast is None or n.kind not in ("stmt", "cond", "return") or n.id == P.id:
                continue
            hit = None
            for path, node, rhs, kind in clib.stores(n.ast):
                if path and path.startswith(clib.OBJ + "->") and path.split("->")[-1] in IDENTITY and kind != "call:free":
                    hit = "store to %s" % path.split("->")[-1]
            for c in n.ast.calls():
                if c.callee in trans and c.callee != "digital_rf_close_hdf5_file":
                    hit = "call of %s (stores %s)" % (c.callee, "/".join(IDENTITY))
            if hit:
                writers.append((n, hit))
        bad = [(n, h) for n, h in writers if P.id in g.reach([n.id], skip_labels=("back",))]
        site = "%s:%s %s publish call" % (LIB, call.line, fname)
        if bad:
            n, h = bad[0]
            r.violation(LIB, fname, "%s before digital_rf_close_hdf5_file()" % n.label[:70],
                        "%s can run before the previous file is renamed: the rename then looks for the tmp file under the *new* "
                        "sub-directory/name, finds nothing and silently leaves the finished file as tmp. (never published)" % h,
                        line=n.line, path=g.describe(g.path(n.id, P.id, skip_labels=("back",)) or []))
        else:
            r.ok(site, "no store to sub_directory/basename (direct or through %s) can precede it in this function" % sorted(trans - {fname}))
    r.guard(2)
    return r


def r7_failed_create_not_published(repo=None, rid="C02.R7"):
    """The publish step decides between rename and remove from has_failure alone and finds the file by the remembered name,
    which already names the new tmp file when its exclusive create fails (e.g. a stale tmp file of a killed run is in the
    way): unless that branch sets has_failure, closing the writer renames a file this session neither created nor closed."""
    from . import c10
    r = c10.r2_sticky_failure(repo, rid=rid, detected=[("digital_rf_create_hdf5_file", "H5Fcreate")],
                              title="a tmp file whose exclusive create failed is never published (failure flag set on that branch)")
    # the same for an explicit probe: `access(<the path handed to H5Fcreate>)` finding a file - the tmp name is taken by a file this
    # writer did not create; refusing without the failure flag leaves the remembered name pointing at it, and close renames it
    tu = cfront.lib(repo)
    fn = tu.fn("digital_rf_create_hdf5_file")
    g = _cfg.build_c(fn)
    creates = fn.calls(("H5Fcreate",))
    if not creates:
        raise AnalysisError("digital_rf_create_hdf5_file: H5Fcreate not found")
    tmp_paths = {c.args[0].path() for c in creates if c.args and c.args[0].path()}
    setters = c10._failure_setters(g)
    for n in g.nodes:
        if n.kind != "cond" or n.ast is None:
            continue
        for c in n.ast.calls(("access", "stat", "lstat")):
            if not c.args or c.args[0].path() not in tmp_paths:
                continue
            e = n.ast.strip()
            exists_label = None
            if e.kind == "BinaryOperator" and e.opcode in ("!=", "==") and e.children[1].intval() in (-1, 0) and e.children[0].strip(casts=True) is not None:
                k = e.children[1].intval()
                if (e.opcode, k) in (("!=", -1), ("==", 0)):
                    exists_label = "T"
                elif (e.opcode, k) in (("==", -1), ("!=", 0)):
                    exists_label = "F"
            elif e.kind == "UnaryOperator" and e.opcode == "!":
                exists_label = "T"
            elif e.kind == "CallExpr":
                exists_label = "F"
            if exists_label is None:
                raise AnalysisError("digital_rf_create_hdf5_file: existence test on the tmp path not recognised: %s" % n.label[:60])
            starts = [b for b, l in g.succ[n.id] if l == exists_label]
            reach = g.reach(starts, avoid=setters)
            bad = [x for x in g.nodes if x.kind == "return" and x.id in reach and x.ast.children and x.ast.children[0].intval() not in (None, 0)]
            site = "%s:%s digital_rf_create_hdf5_file `%s`" % (C_LIB, n.line, n.label[:50])
            # a refusal taken before the writer object remembers the new name is harmless: the remembered name is still the
            # previous file's, which this writer created (nothing else of the object has changed either)
            _direct, _trans = identity_writers(tu)
            remembered_before = []
            for w in g.nodes:
                if w.ast is None or w.kind not in ("stmt", "cond", "return") or w.id == n.id:
                    continue
                hit = any(path and path.startswith(clib.OBJ + "->") and path.split("->")[-1] in IDENTITY and kind != "call:free"
                          for path, node, rhs, kind in clib.stores(w.ast)) or any(
                    c2.callee in _trans and c2.callee != "digital_rf_close_hdf5_file" for c2 in w.ast.calls())
                if hit and n.id in g.reach([w.id], skip_labels=("back",)):
                    remembered_before.append(w)
            if bad and not remembered_before:
                r.ok(site, "a tmp name found taken is refused before the writer object remembers the new name (no store to %s can "
                     "precede the test): the close step still finds only this writer's own file" % "/".join(IDENTITY))
                continue
            if bad:
                r.violation(C_LIB, fn.name, "%s -> %s without has_failure" % (n.label[:50], bad[0].label[:20]),
                            "the tmp name this call is about to create is found taken (a file left by a killed writer) and the call is "
                            "refused without setting has_failure, after the writer object already remembers that name: closing the writer "
                            "finds a file under the remembered name and renames it - a file this session neither created nor closed is "
                            "published", line=n.line)
            else:
                r.ok(site, "a tmp name found taken sets has_failure before the refusal")
    return r


def r8_paths_fit_their_buffers(repo=None):
    """R1 decides what the paths given to H5Fcreate / rename / remove are made of; they are assembled with strcpy / strcat /
    snprintf in fixed buffers of BIG_HDF5_STR bytes from the channel directory, the sub-directory name and the file name.  The only
    part of unbounded length is the directory the caller gives.  If it does not fit, the name that is created and later renamed
    is not the tmp. name R1 reasons about (a truncated relative name; the final rf@ file then holds a dataset under a garbage
    name).  So the constructor refuses a directory whose length plus the fixed parts exceeds the buffer: a condition over
    strlen(directory) and BIG_HDF5_STR whose true side leads to `return NULL`, before the directory is stored."""
    r = Rule("C02.R8", "the caller's directory name is checked against the size of the path buffers before it is used")
    tu = cfront.lib(repo)
    fn = tu.fn("digital_rf_create_write_hdf5")
    g = _cfg.build_c(fn)
    import re as _re
    checks = []
    # the length may be held in a local first: `n = strlen(directory)`
    len_pat = r"strlen\s*\(\s*directory\s*\)"
    len_locals = {p_ for p_, nd_, rhs_, k_ in clib.stores(fn) if p_ and k_ == "=" and rhs_ is not None and "->" not in p_
                  and _re.fullmatch(r"\(?\s*(?:\([a-z_ 0-9]+\)\s*)?" + len_pat + r"\s*\)?", rhs_.nsrc.strip())}
    len_locals |= {d_.name for d_ in fn.find("VarDecl") if d_.children and _re.fullmatch(len_pat, d_.children[-1].strip(casts=True).nsrc.strip())}
    for v_ in sorted(len_locals):
        len_pat += r"|(?<![A-Za-z0-9_>.])" + _re.escape(v_) + r"(?![A-Za-z0-9_])"
    for n in g.nodes:
        if n.kind != "cond" or n.ast is None:
            continue
        e = n.ast.strip()
        if e.kind == "BinaryOperator" and e.opcode in ("<", ">", "<=", ">="):
            sides = [e.children[0].nsrc, e.children[1].nsrc]
            if any(_re.search(len_pat, x) for x in sides) and any(
                    ("BIG_HDF5_STR" in x or "sizeof" in x or (c_.intval() or 0) >= 256) and "strlen" not in x
                    for x, c_ in zip(sides, e.children)):
                checks.append(n)
    stores = [n for n in g.nodes if n.ast is not None and n.kind in ("stmt", "cond") and any(
        path == clib.OBJ + "->directory" and not (rhs is not None and (rhs.strip(casts=True).intval() == 0 or rhs.nsrc.strip() == "NULL"))
        for path, node, rhs, kind in clib.stores(n.ast))]
    if not stores:
        raise AnalysisError("%s: store of the directory field not found" % fn.name)
    good = []
    for n in checks:
        for lab in ("T", "F"):
            side = g.reach([b for b, l in g.succ[n.id] if l == lab])
            null_ret = [x for x in g.nodes if x.kind == "return" and x.id in side and x.ast.children and (
                x.ast.children[0].intval() == 0 or "NULL" in x.ast.nsrc)]
            if null_ret and not any(s_.id in g.reach([b for b, l in g.succ[n.id] if l == lab], avoid=[x.id for x in null_ret]) for s_ in stores[:1]):
                good.append(n)
                break
    dominated = [n for n in good if all(s_.id not in g.reach([g.entry.id], avoid=[n.id]) for s_ in stores)]
    if dominated:
        r.ok("%s:%s %s `%s`" % (LIB, dominated[0].line, fn.name, dominated[0].label[:70]), "a directory name that does not fit the path "
             "buffers is refused before it is stored")
    else:
        r.violation(LIB, fn.name, "no length check of `directory` against BIG_HDF5_STR before it is stored",
                    "the paths of data files are assembled with strcpy / strcat in buffers of BIG_HDF5_STR bytes; a channel directory of "
                    "more than about 968 characters overflows them: the in-progress file is created under a truncated name, renamed to "
                    "a final rf@ name with its dataset under a garbage name, and the process crashes", line=fn.line)
    r.guard(1)
    return r


def r9_close_drops_the_last_reference(repo=None):
    """'After close no file of the channel carries the temporary marker': the Python close() publishes the last file by deleting
    the attribute that holds the extension's writer object; the destructor that closes and renames the file runs only if that
    was the last reference.  The who-may-hold rule of C09.R6, claimed here for the publication at close."""
    from . import c09
    return c09.r6_capsule_has_one_owner(repo, rid="C02.R9")


def rules(repo=None):
    return [lambda: r8_paths_fit_their_buffers(repo), lambda: r1_tmp_provenance(repo), lambda: r2_publish_after_close(repo),
            lambda: r3_no_writer_of_final(repo), lambda: r4_staged_creation(repo),
            lambda: r5_readers_ignore_tmp(repo), lambda: r6_identity_stable_until_published(repo),
            lambda: r7_failed_create_not_published(repo), lambda: r9_close_drops_the_last_reference(repo)]


EXPLANATION = (
    "Static protocol check of the writer's file-system behaviour. R1: string provenance of every path given to "
    'H5Fcreate/rename/remove (tmp. format literal, strstr needle offset). R2: typestate of the HDF5 handles at each '
    'publish call (ZERO on every path, each zeroing preceded by its close). R3: complete table of FS primitives in the C '
    'library and h5py.File modes in the package; access()+H5F_ACC_EXCL before create. R4: every H5Fcreate is staged under'
    ' tmp. R6: no store to the identity fields sub_directory/basename can precede a publish call in its function. R5: '
    'regular-language emptiness of grammar & tmp-names; clean close finalizes. R7: the failed-create branch sets '
    'has_failure, and a refusal made after probing the tmp. path (a file found under the name about to be created) sets '
    'it too or does not leave the remembered name pointing at that file, so a tmp file this session does not own is never'
    ' renamed. R1 also accepts the remove of what a failed exclusive create of the same call left behind when an access()'
    ' probe taken before the create says the name was free. R7 also: a refusal made before any store to the identity '
    'fields is harmless. R9 (= C09.R6): the extension writer object is read only as a direct argument of an extension call, tested or '
    'deleted - a second reference in a Python local alive across a call or raise keeps the destructor (which publishes the last file) '
    'from running at close(). R8: in the constructor a comparison of strlen(directory) with the size of the path buffers, '
    'whose failing side returns NULL, dominates the store of the directory (the paths R1 reasons about are assembled with'
    ' strcpy / strcat in fixed buffers). Decides the protocol shape on all paths, NOT that HDF5 flushed every byte (see '
    'C10) nor page-cache loss.')
TECHNIQUE = ('clang JSON AST; string provenance (with helper inlining); HDF5 handle typestate over the CFG; who-may-call table of file-system primitives; regular-language emptiness')
ASSUMPTIONS = ["POSIX rename within a directory is atomic", "a file is complete once H5Fclose succeeded",
               "H5F_ACC_EXCL fails on an existing file", "clang 14 AST and CPython ast are faithful"]
FILES = [C_LIB, "c/include/digital_rf.h", "python/digital_rf/list_drf.py", "python/digital_rf/digital_rf_hdf5.py",
         "python/digital_rf/digital_metadata.py"]
