"""C11 -- Multi-session / multi-directory continuity without overwrite (partial).

Decides: every stored parameter is compared on restart and a mismatch refuses the session (table, shared with
C06), a refused session has no persistent effect, a finalized file is never replaced and the refusal keeps the
writer usable, the reader consults every top-level directory.  Not decided: union/bounds arithmetic.
"""
from __future__ import annotations

import ast

from ..core import Rule, AnalysisError, C_LIB, C_EXT, norm
from .. import cfront, clib, cfg as _cfg, pyfront
from . import c06, c02

LIB = C_LIB
OBJ = clib.OBJ
PY_MUTATORS = {"os.mkdir", "os.makedirs", "os.remove", "os.unlink", "os.rename", "os.replace", "os.rmdir", "open",
               "h5py.File", "shutil.move", "shutil.copy", "shutil.copy2", "shutil.rmtree", "os.link", "os.symlink"}


def _node_of(g, ast_node):
    best = None
    for n in g.nodes:
        if n.ast is None or n.kind not in ("stmt", "cond", "return"):
            continue
        if n.ast.begin <= ast_node.begin and ast_node.end <= n.ast.end:
            if best is None or (n.ast.end - n.ast.begin) < (best.ast.end - best.ast.begin):
                best = n
    return best


def r1_compare_all(repo=None):
    r = Rule("C11.R1", "every stored channel parameter is compared on restart and a mismatch refuses the session")
    tu = cfront.lib(repo)
    t_prop = c06.written_attrs(tu.fn("digital_rf_handle_metadata"))
    t_cmp = c06.compared_attrs(tu.fn("digital_rf_handle_metadata"))
    H = "digital_rf_handle_metadata"
    for name in sorted(set(t_prop) - c06.NOT_COMPARED):
        if name not in t_cmp:
            r.violation(LIB, H, "attribute `%s` not compared on restart" % name, "a session with a different `%s` would be "
                        "accepted into the existing channel" % name, line=tu.fn(H).line)
            continue
        mtype, canon, node, miss_ok, mism_ok = t_cmp[name]
        wsrc = t_prop[name][2]
        if miss_ok is None:
            raise AnalysisError("%s: how the helper that opens `%s` reports a missing attribute to the restart comparison was not recognised" % (H, name))
        if canon == wsrc and mtype == t_prop[name][1] and miss_ok and mism_ok:
            r.ok("%s:%s %s `%s`" % (LIB, node.line, H, name), "compared with %s; missing or different -> non-zero return" % canon)
        else:
            r.violation(LIB, H, "restart comparison of `%s` (compared with %s, written from %s, missing->err %s, mismatch->err %s)"
                        % (name, canon, wsrc, miss_ok, mism_ok), "the stored parameter is not effectively compared", line=node.line)
    # constructor: non-zero -> NULL
    ctor = tu.fn("digital_rf_create_write_hdf5")
    g = _cfg.build_c(ctor)
    hm = [n for n in g.nodes if n.ast is not None and n.ast.calls((H,))]
    succ = [n for n in g.nodes if n.kind == "return" and n.ast.children and n.ast.children[0].path() == "hdf5_data_object"]
    if len(hm) != 1 or hm[0].kind != "cond":
        r.violation(LIB, ctor.name, "digital_rf_handle_metadata result not tested", "a refused comparison does not fail the "
                    "constructor", line=ctor.line)
    else:
        ts = [b for b, l in g.succ[hm[0].id] if l == "T"]
        if any(s.id in g.reach(ts) for s in succ) or any(s.id in g.reach([g.entry.id], avoid=[hm[0].id]) for s in succ):
            r.violation(LIB, ctor.name, "constructor succeeds despite a non-zero digital_rf_handle_metadata", "mismatching "
                        "session is not refused", line=hm[0].line)
        else:
            r.ok("%s:%s %s" % (LIB, hm[0].line, ctor.name), "non-zero result of digital_rf_handle_metadata -> return NULL; the "
                 "success return is dominated by the call")
    ext = cfront.ext(repo)
    fi = ext.fn(cfront.ext_fn(ext, "init"))
    gi = _cfg.build_c(fi)
    mk = fi.calls(("digital_rf_create_write_hdf5",))
    if len(mk) != 1:
        raise AnalysisError("_py_rf_write_hdf5_init: expected one digital_rf_create_write_hdf5 call")
    use = clib.status_usage(mk[0])
    if not use.startswith("assigned:"):
        raise AnalysisError("_py_rf_write_hdf5_init: result of digital_rf_create_write_hdf5 is not stored in a variable (%s)" % use)
    objv = use.split(":", 1)[1]
    mkn = clib.node_of(gi, mk[0])
    caps = [n for n in gi.nodes if n.ast is not None and n.ast.calls(("PyCapsule_New",))]
    if not caps:
        raise AnalysisError("_py_rf_write_hdf5_init: PyCapsule_New not found")
    # branch nodes that test the object and their NULL edge
    tests = []
    for n in gi.nodes:
        if n.kind == "cond" and n.ast is not None and n.id in gi.reach([mkn.id]) and clib._reads(n.ast, objv):
            e = n.ast.strip()
            null_lab = None
            if e.kind == "BinaryOperator" and e.opcode in ("==", "!="):
                other = e.children[1] if e.children[0].path() == objv else e.children[0]
                if other.intval() == 0 or "NULL" in other.nsrc:
                    null_lab = "T" if e.opcode == "==" else "F"
            elif e.path() == objv:
                null_lab = "F"
            if null_lab:
                tests.append((n, null_lab))
    if not tests:
        r.violation(C_EXT, fi.name, "result of digital_rf_create_write_hdf5 (`%s`) is never tested for NULL" % objv,
                    "Python would receive a capsule wrapping NULL for a refused session", line=mk[0].line)
    else:
        n, lab = tests[0]
        nulls = [b for b, l in gi.succ[n.id] if l == lab]
        reach = gi.reach(nulls)
        dominated = all(c.id not in gi.reach([mkn.id], avoid=[n.id]) for c in caps)
        if any(c.id in reach for c in caps) or not dominated or not any(
                x.ast is not None and x.ast.calls(("PyErr_SetString", "PyErr_Format")) for x in gi.nodes if x.id in reach):
            r.violation(C_EXT, fi.name, "NULL writer object not turned into an exception", "Python would receive a capsule for "
                        "a refused session", line=n.line)
        else:
            r.ok("%s:%s %s" % (C_EXT, n.line, fi.name), "NULL from the library -> PyErr_SetString + return NULL, before any capsule is made")
    r.guard(14)
    return r


def r2_refused_session_no_effect(repo=None):
    r = Rule("C11.R2", "a refused session leaves the channel directory untouched (effects)")
    tu = cfront.lib(repo)
    eff = clib.may_effect(tu)
    fn = tu.fn("digital_rf_handle_metadata")
    g = _cfg.build_c(fn)
    # the verify branch (existing channel) = everything on a path through the read-only open of the properties file: from the
    # function entry to that open and from it to the exits
    ro = [n for n in g.nodes if n.ast is not None and any("H5F_ACC_RDONLY" in c.args[1].nsrc for c in n.ast.calls(("H5Fopen",)) if len(c.args) > 1)]
    if len(ro) != 1:
        raise AnalysisError("digital_rf_handle_metadata: read-only open of the existing properties file not found exactly once")
    sel = ro
    reach = g.reach([ro[0].id]) | (g.reach([g.entry.id]) & g.rreach([ro[0].id]))
    bad = []
    for n in g.nodes:
        if n.id in reach and n.ast is not None and n.kind in ("stmt", "cond", "return"):
            for c in n.ast.calls():
                if c.callee in clib.EFFECT_CALLS or (c.callee in tu.functions and eff[c.callee]):
                    bad.append(c)
                if c.callee == "H5Fopen" and "H5F_ACC_RDONLY" not in c.args[1].nsrc:
                    bad.append(c)
    if bad:
        r.violation(LIB, fn.name, bad[0].nsrc[:80], "the verify branch (existing channel) performs a persistent effect: a "
                    "refused session would modify the channel", line=bad[0].line)
    else:
        r.ok("%s:%s %s verify branch" % (LIB, sel[0].line, fn.name), "only H5Fopen(read-only) and attribute reads; no effect call")
    ctor = tu.fn("digital_rf_create_write_hdf5")
    gc = _cfg.build_c(ctor)
    H = [n for n in gc.nodes if n.ast is not None and n.ast.calls(("digital_rf_handle_metadata",))]
    if not H:
        raise AnalysisError("digital_rf_handle_metadata call not found in the constructor")
    before = gc.reach([gc.entry.id]) & gc.rreach([H[0].id])
    bad = []
    for n in gc.nodes:
        if n.id in before and n.id != H[0].id and n.ast is not None and n.kind in ("stmt", "cond"):
            for c in n.ast.calls():
                if c.callee in clib.EFFECT_CALLS or (c.callee in tu.functions and eff[c.callee]):
                    bad.append(c)
    if bad:
        r.violation(LIB, ctor.name, bad[0].nsrc[:80], "a persistent effect precedes the parameter comparison: a refused "
                    "session would already have changed the directory", line=bad[0].line)
    else:
        r.ok("%s:%s %s" % (LIB, H[0].line, ctor.name), "no effect call on any path from entry to digital_rf_handle_metadata")
    m = pyfront.mod("digital_rf_hdf5", repo)
    q = "DigitalRFWriter.__init__"
    pg = m.cfg(q)
    E = [n for n in pg.nodes if any(pyfront.call_name(c) == "_py_rf_write_hdf5.init" for c in pyfront.node_calls(n))]
    if not E:
        raise AnalysisError("extension init call not found")
    before = pg.reach([pg.entry.id], skip_labels=("exc",)) & pg.rreach([E[0].id], skip_labels=("exc",))
    bad = []
    for n in pg.nodes:
        if n.id in before and n.id != E[0].id:
            for c in pyfront.node_calls(n):
                if pyfront.call_name(c) in PY_MUTATORS:
                    bad.append(c)
    if bad:
        r.violation(m.rel, q, ast.unparse(bad[0])[:80], "the Python constructor changes the file system before the C library "
                    "has accepted the session", line=bad[0].lineno)
    else:
        r.ok("%s:%s %s" % (m.rel, E[0].line, q), "no file-system mutator before the extension's init call")
    r.guard(3)
    return r


def r3_never_replace(repo=None):
    r = Rule("C11.R3", "a finalized data file is never replaced; the refusal leaves the writer usable")
    sub = c02.r3_no_writer_of_final(repo)
    for inst in sub.instances:
        if "access(final name)" in inst["established"] or "H5F_ACC_EXCL" in inst["established"]:
            r.instances.append(inst)
    for f in sub.findings:
        if "access" in f.message or "H5F_ACC_EXCL" in f.message or "final name" in f.message:
            f.rule = "C11.R3"
            r.bad(f)
    tu = cfront.lib(repo)
    fn = tu.fn("digital_rf_create_hdf5_file")
    g = _cfg.build_c(fn)
    probes = [n for n in g.nodes if n.kind == "cond" and n.ast is not None and n.ast.calls(("access",))]
    if not probes:
        r.violation(LIB, fn.name, "no access() probe", "existing finalized file not detected", line=fn.line)
        return r
    p = probes[0]
    e = p.ast.strip()
    exists_lab = "T" if e.opcode == "!=" else "F"
    starts = [b for b, l in g.succ[p.id] if l == exists_lab]
    reach = g.reach(starts)
    setters = [n for n in g.nodes if n.id in reach and n.ast is not None and any(
        path == OBJ + "->has_failure" for path, *_ in clib.stores(n.ast))]
    rets = [n for n in g.nodes if n.id in reach and n.kind == "return"]
    if setters or not rets or any((x.ast.children[0].intval() or 0) == 0 for x in rets):
        r.violation(LIB, fn.name, "refusal branch of access(final name)", "the 'file already exists' refusal must return an error "
                    "without raising the sticky failure flag (the writer has to stay usable for later periods)",
                    line=p.line)
    else:
        r.ok("%s:%s %s" % (LIB, p.line, fn.name), "existing final name -> error return, has_failure untouched")
    r.guard(3)
    return r


def r4_reader_all_directories(repo=None):
    r = Rule("C11.R4", "the reader consults every top-level directory of a channel")
    m = pyfront.mod("digital_rf_hdf5", repo)
    for q in ("DigitalRFReader.read", "DigitalRFReader.get_continuous_blocks", "DigitalRFReader.get_bounds"):
        fn = m.flat(q, keep=("_get_file_list", "_combine_blocks", "_read", "_get_bounds")).fn()

        def resolved_iter(n):
            it = n.iter
            if isinstance(it, ast.Name):
                defs = [x.value for x in pyfront.walk_no_nested(fn) if isinstance(x, ast.Assign) and len(x.targets) == 1
                        and isinstance(x.targets[0], ast.Name) and x.targets[0].id == it.id]
                if len(defs) == 1:
                    return defs[0]
            return it
        loops = [n for n in pyfront.walk_no_nested(fn) if isinstance(n, ast.For)
                 and "top_level_dir_meta_list" in ast.unparse(resolved_iter(n))]
        if len(loops) != 1:
            # positive evidence only: one element of the list is picked by a constant index and the list is not iterated
            picked = [x for x in pyfront.walk_no_nested(fn) if isinstance(x, ast.Subscript) and "top_level_dir_meta_list" in ast.unparse(x.value)
                      and isinstance(x.slice, (ast.Constant, ast.UnaryOp))]
            if loops or not picked:
                raise AnalysisError("%s: %d loops over top_level_dir_meta_list, expected one" % (q, len(loops)))
            r.violation(m.rel, q, "%d loops over top_level_dir_meta_list" % len(loops), "the query does not iterate over the "
                        "channel's top-level directories", line=fn.lineno)
            continue
        lp = loops[0]
        plain = isinstance(resolved_iter(lp), (ast.Attribute,)) and not isinstance(resolved_iter(lp), ast.Subscript)
        early = [x for x in ast.walk(lp) if isinstance(x, (ast.Break, ast.Return))]
        if early or not plain:
            x = early[0] if early else lp
            r.violation(m.rel, q, ast.unparse(x)[:60] if early else "iterates over %s" % ast.unparse(resolved_iter(lp)),
                        "the loop over top-level directories can stop early or skips directories: data of other sessions' "
                        "directories would be missing from the result", line=x.lineno)
        else:
            r.ok("%s:%s %s" % (m.rel, lp.lineno, q), "iterates over the whole top_level_dir_meta_list with no break/return")
    # the list holds every directory where the channel was found
    q = "DigitalRFReader.__init__"
    fn = m.fn(q)
    g = m.cfg(q)
    heads = [n for n in g.nodes if n.kind == "cond" and isinstance(n.ast, ast.For)]
    outer = [n for n in heads if "self._top_level_dir_dict" in ast.unparse(n.ast.iter) and isinstance(n.ast.target, ast.Name)]
    if len(outer) != 1:
        raise AnalysisError("%s: loop over self._top_level_dir_dict not found exactly once" % q)
    dvar = outer[0].ast.target.id
    def lists_dir(e):
        """a call self.<method>(dvar) - the per-directory channel listing, whatever it is called"""
        return isinstance(e, ast.Call) and (pyfront.call_name(e) or "").startswith("self.") and len(e.args) == 1 \
            and isinstance(e.args[0], ast.Name) and e.args[0].id == dvar and not e.keywords
    found_vars = set()
    for n in ast.walk(outer[0].ast):
        if isinstance(n, ast.Assign) and lists_dir(n.value) and isinstance(n.targets[0], ast.Name):
            found_vars.add(n.targets[0].id)
    inner = [n for n in heads if n is not outer[0] and outer[0].ast.lineno < n.ast.lineno <= outer[0].ast.end_lineno
             and (lists_dir(n.ast.iter) or (isinstance(n.ast.iter, ast.Name) and n.ast.iter.id in found_vars))]
    if len(inner) != 1:
        raise AnalysisError("%s: loop over the channels found in a top-level directory not recognised" % q)

    def records(n):
        if n.ast is None or n.kind == "cond":
            return False
        for x in ast.walk(n.ast):
            if isinstance(x, ast.Call) and isinstance(x.func, ast.Attribute) and x.func.attr == "append" and len(x.args) == 1 \
                    and isinstance(x.args[0], ast.Name) and x.args[0].id == dvar:
                return True
            if isinstance(x, ast.Assign) and isinstance(x.targets[0], ast.Subscript) and isinstance(x.value, ast.List) \
                    and any(isinstance(e, ast.Name) and e.id == dvar for e in x.value.elts):
                return True
        return False
    rec = [n.id for n in g.nodes if records(n)]
    if not rec:
        raise AnalysisError("%s: no statement recording the top-level directory `%s` under the channel name" % (q, dvar))
    body = [x for x, l in g.succ[inner[0].id] if l == "T"]
    skip = g.reach(body, avoid=rec + [inner[0].id], skip_labels=("exc",))
    skips = any(inner[0].id in [x for x, l in g.succ[nid] if l != "exc"] for nid in skip)
    if skips:
        r.violation(m.rel, q, "a channel found in `%s` can be skipped without recording the directory" % dvar,
                    "not every top-level directory holding the channel is recorded", line=inner[0].line)
    else:
        r.ok("%s:%s %s" % (m.rel, inner[0].line, q), "every channel found in a top-level directory records that directory on every path")
    ctor = [c for c in ast.walk(fn) if isinstance(c, ast.Call) and pyfront.call_name(c) == "_top_level_dir_properties"]
    if len(ctor) != 1:
        raise AnalysisError("%s: _top_level_dir_properties(...) construction not found exactly once" % q)
    encl = m.enclosing(ctor[0], (ast.For, ast.ListComp, ast.GeneratorExp))
    if encl is None:
        raise AnalysisError("%s: _top_level_dir_properties(...) is not constructed in a loop" % q)
    if isinstance(encl, ast.For):
        it, filt = encl.iter, [x for x in ast.walk(encl) if isinstance(x, (ast.Break, ast.Continue))]
        tgt = encl.target
    else:
        it, filt, tgt = encl.generators[0].iter, list(encl.generators[0].ifs) + encl.generators[1:], encl.generators[0].target
    sliced = [x for x in ast.walk(it) if isinstance(x, ast.Slice)] or (
        isinstance(it, ast.Subscript) and isinstance(pyfront.const(it.slice), int))
    first = ctor[0].args[0] if ctor[0].args else pyfront.kwarg(ctor[0], "top_level_dir")
    if sliced or filt:
        r.violation(m.rel, q, "for %s in %s%s" % (norm(ast.unparse(tgt)), norm(ast.unparse(it)), " with a filter/break" if filt else ""),
                    "only some of the top-level directories recorded for the channel are turned into reader entries", line=encl.lineno)
    elif isinstance(tgt, ast.Name) and isinstance(first, ast.Name) and first.id == tgt.id:
        r.ok("%s:%s %s" % (m.rel, encl.lineno, q), "one _top_level_dir_properties entry per recorded directory (%s)" % norm(ast.unparse(it)))
    else:
        raise AnalysisError("%s: construction of the per-directory reader entries not recognised" % q)
    r.guard(5)
    return r


def r5_bounds_merge(repo=None):
    r = Rule("C11.R5", "bounds over several top-level directories: the minimum and the maximum are merged independently")
    m = pyfront.mod("digital_rf_hdf5", repo)
    q = "DigitalRFReader.get_bounds"
    g = m.cfg(q)
    fdef = m.fn(q)
    # roles: (this directory's first, last) = the tuple target of the per-directory `<entry>._get_bounds()` call; (merged first,
    # merged last) = the names returned
    per = [a for a in ast.walk(fdef) if isinstance(a, ast.Assign) and isinstance(a.value, ast.Call) and isinstance(a.value.func, ast.Attribute)
           and a.value.func.attr == "_get_bounds" and isinstance(a.targets[0], ast.Tuple) and len(a.targets[0].elts) == 2
           and all(isinstance(e, ast.Name) for e in a.targets[0].elts)]
    rets = [x for x in ast.walk(fdef) if isinstance(x, ast.Return) and isinstance(x.value, ast.Tuple) and len(x.value.elts) == 2
            and all(isinstance(e, ast.Name) for e in x.value.elts)]
    if len(per) != 1 or len(rets) != 1:
        raise AnalysisError("%s: per-directory `a, b = <entry>._get_bounds()` (%d) / `return (first, last)` (%d) not found exactly once" % (
            q, len(per), len(rets)))
    TF, TL = (e.id for e in per[0].targets[0].elts)
    MF, ML = (e.id for e in rets[0].value.elts)
    lo = [n for n in g.nodes if n.kind == "cond" and isinstance(n.ast, ast.Compare) and norm(ast.unparse(n.ast)) in (
        "%s < %s" % (TF, MF), "%s > %s" % (MF, TF))]
    hi = [n for n in g.nodes if n.kind == "cond" and isinstance(n.ast, ast.Compare) and norm(ast.unparse(n.ast)) in (
        "%s > %s" % (TL, ML), "%s < %s" % (ML, TL))]
    if not lo and not hi:
        # the merges written with min / max: `first = min(first, this_first)` and `last = max(last, this_last)`, the second reached
        # from the first on every path of the iteration
        def merge(fname, tgt, src):
            return [n for n in g.nodes if isinstance(n.ast, ast.Assign) and norm(ast.unparse(n.ast)) in (
                "%s = %s(%s, %s)" % (tgt, fname, tgt, src), "%s = %s(%s, %s)" % (tgt, fname, src, tgt))]
        mlo, mhi = merge("min", MF, TF), merge("max", ML, TL)
        if len(mlo) == 1 and len(mhi) == 1:
            first, second = (mlo[0], mhi[0]) if mhi[0].id in g.reach([mlo[0].id], skip_labels=("back", "exc")) else (mhi[0], mlo[0])
            ends = [n.id for n in g.nodes if n.kind in ("exit", "return")] + [n.id for n in g.nodes if n.kind == "cond" and isinstance(n.ast, ast.For)]
            escaped = [x for x in ends if x in g.reach([first.id], avoid=[second.id], skip_labels=("exc",)) and x != first.id]
            if escaped:
                r.violation(m.rel, q, "`%s` can be skipped after `%s`" % (second.label, first.label), "the two merges are not both made for "
                            "every further directory", line=second.line)
            else:
                r.ok("%s:%s %s" % (m.rel, first.line, q), "`%s` and `%s` are both evaluated for every further directory, each updating its "
                     "own bound" % (first.label, second.label))
            r.guard(1)
            return r
    if len(lo) != 1 or len(hi) != 1:
        raise AnalysisError("%s: merge of the per-directory bounds not recognised (%d `<` tests of the first sample, %d `>` tests of the last "
                            "sample, no min / max pair)" % (q, len(lo), len(hi)))
    a, b = lo[0], hi[0]
    first, second = (a, b) if b.id in g.reach([a.id], skip_labels=("back", "exc")) else (b, a)
    ok = True
    for lab in ("T", "F"):
        st = [x for x, l in g.succ[first.id] if l == lab]
        if second.id not in g.reach(st, skip_labels=("back", "exc")):
            ok = False
            r.violation(m.rel, q, "`%s` is skipped when `%s` is %s" % (second.label, first.label, "true" if lab == "T" else "false"),
                        "the two merges are mutually exclusive: a directory that extends the start of the channel can no longer also "
                        "extend its end (or vice versa), so the reported bounds miss data of a later session", line=second.line)
    for n, tgt, src in ((a, MF, TF), (b, ML, TL)):
        ts = [x for x, l in g.succ[n.id] if l == "T"]
        st = [x for x in g.nodes if isinstance(x.ast, ast.Assign) and norm(ast.unparse(x.ast)) == "%s = %s" % (tgt, src)
              and x.id in g.reach(ts, skip_labels=("back", "exc"))]
        if not st:
            ok = False
            r.violation(m.rel, q, "`%s` does not assign %s = %s" % (n.label, tgt, src), "merge branch does not update the bound", line=n.line)
    if ok:
        r.ok("%s:%s %s" % (m.rel, a.line, q), "`%s` and `%s` are both evaluated for every further directory, each updating its own bound" % (
            a.label, b.label))
    r.guard(1)
    return r


def r6_existence_test_in_current_subdir(repo=None):
    """The 'never replace a finalized file' test (R3) looks in <directory>/<sub_directory>/: it protects earlier sessions only
    if that field names the sub-directory of the file being created (C04.R8)."""
    from . import c04
    return c04.r8_remembered_subdir_is_current(repo, rid="C11.R6")


def r7_usable_after_a_refusal(repo=None):
    """'a write that would need to [alter a finalized file] is rejected and the writer remains usable for later time periods'.
    The writer decides between 'continue in the open file' and 'enter a new file' by comparing the remembered (sub_directory,
    basename) with the names derived for the sample.  If the create function can store those names and then return an error with no
    file open (the refusal of an existing finalized file does exactly that), the next write into the same period finds the names
    equal: unless the decision also requires an open handle, it 'continues' in a file that is not open, the data write fails on
    handle 0 and latches has_failure - the writer is dead for every later period.  Positive evidence = both halves: (a) a path in the
    create function from the store of the remembered name to a non-zero return that does not pass the store of the file handle, and
    (b) a `file_exists = 1` whose path condition is satisfiable with the handle zero (truth table over canonical atoms)."""
    import itertools
    from .. import cbool
    r = Rule("C11.R7", "after a refused write the writer does not take the refused file for the open one")
    tu = cfront.lib(repo)
    cf = tu.fn("digital_rf_create_hdf5_file")
    g = _cfg.build_c(cf)
    name_stores = []
    handle_stores = []
    for n in g.nodes:
        if n.ast is None or n.kind not in ("stmt", "cond"):
            continue
        for path, node, rhs, kind in clib.stores(n.ast):
            if path == OBJ + "->basename" and kind.startswith("call:"):
                name_stores.append(n)
            if path == OBJ + "->hdf5_file" and kind == "=" and rhs is not None and rhs.intval() != 0:
                handle_stores.append(n)
    if not name_stores or not handle_stores:
        raise AnalysisError("digital_rf_create_hdf5_file: store of the remembered name (%d) / of the file handle (%d) not found" % (
            len(name_stores), len(handle_stores)))
    err_rets = [n for n in g.nodes if n.kind == "return" and n.ast is not None and n.ast.children and n.ast.children[0].intval() not in (None, 0)]
    reach = g.reach([b for s_ in name_stores for b, _l in g.succ[s_.id]], avoid=[h.id for h in handle_stores])
    refused = [n for n in err_rets if n.id in reach]
    wf = tu.fn("digital_rf_write_samples_to_file")
    from . import c04
    FE = c04.exists_flag(wf)
    ones = [n for n in wf.walk() if n.kind == "BinaryOperator" and n.opcode == "=" and n.children[0].path() == FE
            and n.children[1].intval() == 1]
    forms = [(o, cbool.path_condition(o, wf)) for o in ones]
    if not ones:
        f1, at = c04.flag_is_one(wf, FE)        # the flag is assigned one boolean expression
        forms = [(at, f1)]
    H = OBJ + "->hdf5_file"
    for o, f in forms:
        names = sorted(cbool.atoms(f))
        hatoms = [a for a in names if a == H]
        free = [a for a in names if a not in hatoms]
        sat = None
        for bits in itertools.product((False, True), repeat=len(free)):
            val = dict(zip(free, bits))
            for a in hatoms:
                val[a] = False
            if cbool.ev(f, val):
                sat = val
                break
        site = "%s:%s digital_rf_write_samples_to_file `file_exists = 1`" % (LIB, o.line)
        if sat is None:
            r.ok(site, "only with the file handle non-zero (%s)" % cbool.show(f)[:140])
        elif not refused:
            r.ok(site, "decided by the remembered names; digital_rf_create_hdf5_file never returns an error after storing the name without "
                       "an open file")
        else:
            r.violation(LIB, "digital_rf_write_samples_to_file", "file_exists = 1 under %s" % cbool.show(f)[:160],
                        "the open file is recognised by the remembered names alone, and digital_rf_create_hdf5_file stores them before it "
                        "can refuse (error return at line %s reached from the name store without opening a file): after a write into an "
                        "already finalized period was refused, the next write into the same period continues in a file that is not open, "
                        "H5Dwrite fails on handle 0 and latches has_failure, so every later write - also into periods never recorded - "
                        "is refused" % refused[0].line, line=o.line)
    r.guard(1)
    return r


def r8_newest_file_over_all_directories(repo=None):
    """'the reader merges directories': the file reported as last written is the newest candidate in whichever top-level directory
    holds it.  get_last_write walks candidate file names (newest first) and top-level directories and returns at the first
    readable one - so the loop over the candidates has to be the outer one; with the directories outside, the first directory
    that holds any candidate wins and the answer depends on the order the directories were given in."""
    r = Rule("C11.R8", "get_last_write reports the newest file over all top-level directories (candidate loop outside, directory loop inside)")
    m = pyfront.mod("digital_rf_hdf5", repo)
    q = "DigitalRFReader.get_last_write"
    f = m.flat(q).fn()
    rets = [x for x in ast.walk(f) if isinstance(x, ast.Return) and isinstance(x.value, ast.Tuple) and any(
        isinstance(c, ast.Call) and pyfront.call_name(c) == "os.path.getmtime" for c in ast.walk(x.value))]
    if len(rets) != 1:
        raise AnalysisError("%s: the `return (mtime, path)` of a found file was not found exactly once (%d)" % (q, len(rets)))
    parents = {}
    for n in ast.walk(f):
        for ch in ast.iter_child_nodes(n):
            parents[ch] = n
    loops = []
    p_ = parents.get(rets[0])
    while p_ is not None:
        if isinstance(p_, ast.For):
            loops.append(p_)
        p_ = parents.get(p_)
    if len(loops) != 2:
        raise AnalysisError("%s: expected the early return inside two nested loops (candidates x directories), found %d" % (q, len(loops)))
    inner, outer = loops

    def is_dirs(lp):
        return "_top_level_dir" in ast.unparse(lp.iter)
    if is_dirs(inner) and not is_dirs(outer):
        r.ok("%s:%s %s" % (m.rel, outer.lineno, q), "for every candidate file (newest first) all top-level directories are probed before "
             "the next candidate (`for %s in %s: for %s in %s`)" % (norm(ast.unparse(outer.target)), norm(ast.unparse(outer.iter))[:30],
                                                                     norm(ast.unparse(inner.target)), norm(ast.unparse(inner.iter))[:40]))
    elif is_dirs(outer) and not is_dirs(inner):
        r.violation(m.rel, q, "for %s in %s: for %s in %s: ... return" % (norm(ast.unparse(outer.target)), norm(ast.unparse(outer.iter))[:40],
                                                                      norm(ast.unparse(inner.target)), norm(ast.unparse(inner.iter))[:30]),
                    "the loop over the top-level directories is the outer one: the first directory that holds any of the candidate "
                    "files wins, so with the newest file in a directory given later an older file is reported, and the answer "
                    "depends on the order of the directories", line=outer.lineno)
    else:
        raise AnalysisError("%s: roles of the two loops around the early return not recognised" % q)
    r.guard(1)
    return r


def r9_refusal_is_not_a_failure(repo=None):
    """'... is rejected and the writer remains usable for later time periods': the sticky failure flag may be set only where an
    HDF5 / file-system call was seen to fail (C10.R5) - set on a refusal it blocks every later write and makes close() remove the
    open file."""
    from . import c10
    return c10.r5_failure_flag_means_io_failure(repo, rid="C11.R9")


def rules(repo=None):
    return [lambda: r8_newest_file_over_all_directories(repo), lambda: r7_usable_after_a_refusal(repo), lambda: r1_compare_all(repo), lambda: r2_refused_session_no_effect(repo), lambda: r3_never_replace(repo),
            lambda: r4_reader_all_directories(repo), lambda: r5_bounds_merge(repo), lambda: r6_existence_test_in_current_subdir(repo),
            lambda: r9_refusal_is_not_a_failure(repo)]


EXPLANATION = (
    'R1: the 12 stored channel parameters are each read back with the written type, compared against the expression that '
    'wrote them, with rejecting missing/mismatch branches; the constructor maps non-zero to NULL and the extension maps '
    'NULL to an exception. R2: the verify branch of digital_rf_handle_metadata and every path of the C and Python '
    'constructors before the comparison contain no persistent effect. R3: access(final name) dominates the H5F_ACC_EXCL '
    'create and its refusal returns an error without touching has_failure. R4: read/get_continuous_blocks/get_bounds '
    'iterate over the whole top-level directory list with no early exit. R5: get_bounds merges the first and the last '
    'sample of each directory with two independent comparisons. R6 (= C04.R8): the existence test and the create use the '
    'sub-directory computed for this file (the remembered field is set or compared on every path). R7: the writer stays '
    'usable after a refusal: `file_exists = 1` is unsatisfiable with the file handle zero, or the create function never '
    'returns an error after storing the remembered name without an open file (CFG reach + truth table). R8: in '
    'get_last_write the early `return (mtime, path)` sits in two nested loops with the candidate files (newest first) '
    'outside and the top-level directories inside. Does NOT decide union/bounds arithmetic across sessions. R9 (= '
    'C10.R5): every store of a non-zero value into has_failure is controlled by a test of an I/O status (result of an '
    'HDF5 / file-system call, a variable assigned from one, a library function whose non-zero returns are so controlled, '
    'or a parameter receiving such a value at every call site): a refusal never sets the sticky flag.')
TECHNIQUE = ("clang JSON AST + Python ast; attribute comparison table; effect-free prefix by effect summaries; dominance of the existence test; CFG must-pass in the reader's directory loops")
ASSUMPTIONS = ["H5F_ACC_EXCL fails on an existing file", "the same file period is never recorded in two directories (format rule)"]
FILES = [C_LIB, C_EXT, "python/digital_rf/digital_rf_hdf5.py"]
