"""C12 -- Digital Metadata round-trip (partial).

Decides: append-never-truncate and duplicate refusal, range filtering wherever the range may not cover a file,
numeric ordering of sample keys, exact placement (shared with C13), same recursive shape and string encoding
on both sides.  Not decided: value equality of arbitrary numpy/h5py conversions.
"""
from __future__ import annotations

import ast

from ..core import Rule, AnalysisError, norm
from .. import pyfront, pyutil
from . import dmdroles

W = "DigitalMetadataWriter"
R = "DigitalMetadataReader"


def r1_append_and_refuse(repo=None):
    r = Rule("C12.R1", "metadata files are appended to, never truncated; an existing sample index is refused")
    ro = dmdroles.roles(repo)
    m = ro.m
    q = ro.gen
    gv = ro.gen_view
    f = gv.fn()
    opens = [c for c in pyfront.calls_in(f, ("h5py.File",))]
    if len(opens) != 1:
        raise AnalysisError("%s: expected one h5py.File call, found %d" % (q, len(opens)))
    mode = pyfront.const(pyfront.kwarg(opens[0], "mode", 1))
    if mode == "a":
        r.ok("%s:%s %s" % (m.rel, opens[0].lineno, q), "data file opened with mode 'a' (create or append, never truncate)")
    else:
        r.violation(m.rel, q, norm(ast.unparse(opens[0])), "metadata data file opened with mode %r: samples already stored in the "
                    "file would be lost or the open would fail" % (mode,), line=opens[0].lineno)
    groups = [c for c in ast.walk(f) if isinstance(c, ast.Call) and isinstance(c.func, ast.Attribute)
              and c.func.attr in ("create_group", "require_group", "__setitem__")]
    if len(groups) != 1 or groups[0].func.attr != "create_group":
        r.violation(m.rel, q, norm(ast.unparse(groups[0])) if groups else "no create_group", "sample groups must be made with "
                    "create_group (which fails on an existing name), not require_group: a duplicate index would silently be "
                    "merged into the stored sample", line=groups[0].lineno if groups else f.lineno)
    else:
        c = groups[0]
        tr = gv.enclosing(c, (ast.Try,))
        ok = False
        if tr is not None:
            for h in tr.handlers:
                names = [pyfront.dotted(h.type)] if not isinstance(h.type, ast.Tuple) else [pyfront.dotted(e) for e in h.type.elts]
                if "ValueError" in names and any(isinstance(x, ast.Raise) for x in ast.walk(h)) and not any(
                        isinstance(x, (ast.Yield, ast.Continue, ast.Pass)) for x in ast.walk(h)):
                    ok = True
        if ok:
            r.ok("%s:%s %s" % (m.rel, c.lineno, q), "create_group inside try; ValueError (name exists) -> raise, nothing yielded")
        else:
            r.violation(m.rel, q, norm(ast.unparse(c)), "a duplicate sample index is not turned into an error", line=c.lineno)
    w = ro.write_view.fn()
    zips = [n for n in ast.walk(w) if isinstance(n, ast.For) and isinstance(n.iter, ast.Call) and pyfront.call_name(n.iter) == "zip"
            and isinstance(n.target, ast.Tuple)]
    writes = [c for z in zips for c in ast.walk(z) if isinstance(c, ast.Call) and isinstance(c.func, ast.Attribute)
              and c.func.attr in ("create_dataset", "require_dataset", "__setitem__")]
    gnames = {z.target.elts[0].id for z in zips if isinstance(z.target.elts[0], ast.Name)}
    subs = [n for z in zips for n in ast.walk(z) if isinstance(n, ast.Assign) and isinstance(n.targets[0], ast.Subscript)
            and pyfront.dotted(n.targets[0].value) in gnames]
    gvars = set()
    for n in ast.walk(w):
        if isinstance(n, ast.For) and isinstance(n.iter, ast.Call) and pyfront.call_name(n.iter) == "zip" and isinstance(n.target, ast.Tuple) \
                and n.target.elts and isinstance(n.target.elts[0], ast.Name):
            gvars.add(n.target.elts[0].id)
    if not gvars:
        raise AnalysisError("%s.write: loop over zip(<sample groups>, <key/value iterators>) not recognised" % W)
    if writes and all(c.func.attr == "create_dataset" and pyfront.dotted(c.func.value) in gvars for c in writes) and not subs:
        r.ok("%s:%s %s.write" % (m.rel, w.lineno, W), "values are written only with create_dataset into the freshly created group")
    else:
        r.violation(m.rel, W + ".write", "dataset writes: %s" % [norm(ast.unparse(c))[:40] for c in writes], "values are not "
                    "written exclusively into the new sample group", line=w.lineno)
    r.guard(3)
    return r


def _is_edge_membership(test):
    """`this_file in (file_list[0], file_list[-1])`"""
    if isinstance(test, ast.Compare) and len(test.ops) == 1 and isinstance(test.ops[0], ast.In):
        comp = test.comparators[0]
        if isinstance(comp, (ast.Tuple, ast.List)) and len(comp.elts) == 2:
            idx = []
            for e in comp.elts:
                if isinstance(e, ast.Subscript):
                    s = e.slice
                    v = pyfront.const(s)
                    if v is None and isinstance(s, ast.UnaryOp) and isinstance(s.op, ast.USub):
                        v = -pyfront.const(s.operand)
                    idx.append(v)
            return sorted(idx, key=str) == sorted([0, -1], key=str)
    return False


def _mentions_list_ends(test):
    return any(isinstance(n, ast.Subscript) and (pyfront.const(n.slice) == 0 or (
        isinstance(n.slice, ast.UnaryOp) and isinstance(n.slice.op, ast.USub))) for n in ast.walk(test))


def r2_range_filter(repo=None, rid="C12.R2"):
    r = Rule(rid, "the sample range is applied to every file the range may not cover completely")
    ro = dmdroles.roles(repo)
    m = ro.m
    q = R + ".read"
    rv = ro.read_view
    f = rv.fn()
    calls = pyfront.calls_in(f, ("self." + ro.add_name,))
    if len(calls) < 2:
        raise AnalysisError("%s: expected 2 calls of the per-file reading method %s, found %d" % (q, ro.add_name, len(calls)))
    params = list(ro.add_params)
    if "is_edge" not in params:
        raise AnalysisError("%s: no `is_edge` parameter" % ro.add)
    pos = params.index("is_edge") - 1
    for c in calls:
        arg = pyfront.kwarg(c, "is_edge", pos)
        site = "%s:%s %s _add_metadata(is_edge=%s)" % (m.rel, c.lineno, q, ast.unparse(arg) if arg is not None else "?")
        if arg is None:
            r.violation(m.rel, q, norm(ast.unparse(c))[:80], "is_edge not passed", line=c.lineno)
        elif isinstance(arg, ast.Constant):
            if arg.value is True:
                r.ok(site, "range filter always applied")
            else:
                in_ffill = any(isinstance(a, ast.If) and "ffill" in ast.unparse(a.test) for a in _ancestors(rv, c))
                r.violation(m.rel, q, "_add_metadata(..., is_edge=%r)%s" % (arg.value, " in the forward-fill search" if in_ffill else ""),
                            "the range filter is switched off for a file that can hold samples outside [sample0, sample1]: "
                            "samples outside the requested range (e.g. later than the start in a forward-fill read) are returned",
                            line=c.lineno)
        elif isinstance(arg, ast.Name):
            assigns = [n for n in pyfront.walk_no_nested(f) if isinstance(n, ast.Assign)
                       and any(isinstance(t, ast.Name) and t.id == arg.id for t in n.targets)]
            bad = None
            for a in assigns:
                v = pyfront.const(a.value)
                if v is True:
                    continue
                if _is_edge_membership(a.value):
                    continue
                par = rv.parents.get(a)
                if v is False:
                    if isinstance(par, ast.If) and a in par.orelse and _is_edge_membership(par.test):
                        continue
                    # any other shape of the same decision: the path condition of the assignment excludes the membership
                    mem = [c_ for an in _ancestors(rv, a) if isinstance(an, ast.If) for c_ in ast.walk(an.test) if _is_edge_membership(c_)]
                    if mem:
                        from .. import pybool, cbool
                        pc = pybool.path_condition(a, rv.parents, f)
                        M = pybool.truth(mem[0])
                        ok_, _w = cbool.equivalent(cbool.conj([pc, M]), ("false",))
                        if ok_:
                            continue
                    if isinstance(par, ast.If) and not _mentions_list_ends(par.test):
                        raise AnalysisError("%s: condition `%s` under which is_edge is False not recognised" % (q, norm(ast.unparse(par.test))))
                    bad = a
                    continue
                if isinstance(a.value, ast.Compare) and isinstance(a.value.ops[0], ast.In):
                    bad = a        # membership in something that is not (first, last)
                    continue
                raise AnalysisError("%s: `%s` not recognised" % (q, norm(ast.unparse(a))))
            if bad is None and assigns:
                r.ok(site, "False only for files strictly between the first and the last file of the list")
            elif not assigns:
                raise AnalysisError("%s: no assignment to `%s`" % (q, arg.id))
            else:
                r.violation(m.rel, q, norm(ast.unparse(bad))[:80], "is_edge can be False for a file at the edge of the "
                            "requested range", line=bad.lineno)
        elif _is_edge_membership(arg):
            r.ok(site, "False only for files strictly between the first and the last file of the list")
        else:
            raise AnalysisError("%s: is_edge argument `%s` not recognised" % (q, norm(ast.unparse(arg))))
    # the forward-fill look-back starts from the *requested* start: on every path to the look-back the range parameter handed to it
    # (upper end of the candidate-file list, upper end of the edge filter) is the caller's value - assigned only as a default
    # (`if <param> is None:`) or through int(); a start that was clamped, shifted or rounded first changes which sample is "the
    # latest at or before the start" (clamped to the first sample, a look-back for a range that lies before all data returns a
    # sample *after* the range)
    fparams = [a.arg for a in f.args.args if a.arg != "self"]
    g = rv.cfg()
    lookbacks = []
    for c in ast.walk(f):
        if isinstance(c, ast.Call) and pyfront.call_name(c) == "self." + ro.filelist_name and len(c.args) >= 2:
            in_ffill = any(isinstance(a, ast.If) and any(isinstance(x, ast.Name) and x.id == "method" for x in ast.walk(a.test))
                           for a in _ancestors(rv, c))
            if in_ffill:
                lookbacks.append(c)
    if not lookbacks:
        # positive evidence for a look-back that cannot reach far enough: the files come from a *listing* bounded below
        # (lsdrf / ilsdrf with a start time) - the latest sample at or before the requested start may lie in any earlier file
        for c in ast.walk(f):
            if isinstance(c, ast.Call) and (pyfront.call_name(c) or "").split(".")[-1] in ("lsdrf", "ilsdrf"):
                in_ffill = any(isinstance(a, ast.If) and any(isinstance(x, ast.Name) and x.id == "method" for x in ast.walk(a.test))
                               for a in _ancestors(rv, c))
                st = pyfront.kwarg(c, "starttime")
                if in_ffill and st is not None and not (isinstance(st, ast.Constant) and st.value is None):
                    r.violation(m.rel, q, norm(ast.unparse(c))[:80], "the forward-fill look-back takes its files from a listing that is bounded "
                                "below (`starttime=%s`): the latest sample at or before the requested start can lie in any earlier file "
                                "(the file covering the start may hold only later samples), and is then not found although it was "
                                "before a later write" % norm(ast.unparse(st))[:40], line=c.lineno)
                    r.guard(1)
                    return r
        raise AnalysisError("%s: the forward-fill candidate-file call (self.%s inside the branch on `method`) was not found" % (q, ro.filelist_name))
    alias_env = pyutil.single_alias_env(f)
    for c in lookbacks:
        ref = pyutil.dealias(c.args[1], alias_env)      # the parameter of an inlined helper is a plain copy of the caller's argument
        site = "%s:%s %s `%s`" % (m.rel, c.lineno, q, norm(ast.unparse(c))[:70])
        if not (isinstance(ref, ast.Name) and ref.id in fparams):
            r.violation(m.rel, q, norm(ast.unparse(c))[:80], "the forward-fill look-back does not end at the requested start (a range "
                        "parameter of read) but at `%s`" % norm(ast.unparse(ref))[:40], line=c.lineno)
            continue
        cn = [n for n in g.nodes if any(x is c for x in pyfront.node_calls(n))]
        if not cn:
            raise AnalysisError("%s: look-back call not in the CFG" % q)
        bad = None
        for n in g.nodes:
            a = n.ast
            tgt = None
            if isinstance(a, ast.Assign) and any(isinstance(t, ast.Name) and t.id == ref.id for t in a.targets):
                tgt = a
            elif isinstance(a, ast.AugAssign) and isinstance(a.target, ast.Name) and a.target.id == ref.id:
                tgt = a
            elif isinstance(a, ast.Assign) and any(isinstance(t, ast.Tuple) and any(isinstance(e, ast.Name) and e.id == ref.id for e in t.elts) for t in a.targets):
                tgt = a
            if tgt is None or cn[0].id not in g.reach([n.id], skip_labels=("exc",)) or n.id == cn[0].id:
                continue
            default = any(isinstance(x, ast.If) and norm(ast.unparse(x.test)) in ("%s is None" % ref.id,) for x in _ancestors(rv, tgt))
            conv = isinstance(tgt, ast.Assign) and isinstance(tgt.value, ast.Call) and pyfront.call_name(tgt.value) in ("int", "np.uint64", "np.int64") \
                and len(tgt.value.args) == 1 and isinstance(tgt.value.args[0], ast.Name) and tgt.value.args[0].id == ref.id
            if not (default or conv):
                bad = tgt
                break
        if bad is None:
            r.ok(site, "the look-back ends at the caller's `%s` (only defaulted / converted before)" % ref.id)
        else:
            r.violation(m.rel, q, norm(ast.unparse(bad))[:80], "the requested start is altered before the forward-fill look-back uses it: the "
                        "sample returned as 'latest at or before the start' is then taken relative to another index (clamped to the "
                        "first sample written, a forward-fill read of a range lying before all data returns a sample after the range)",
                        line=bad.lineno)
    # the filter itself: keys >= sample0 and keys <= sample1 under `if is_edge`
    am = ro.add_view.fn()
    p_lo, p_hi, p_edge = params[pos - 1], params[pos], params[pos + 1]
    ifs = [n for n in ast.walk(am) if isinstance(n, ast.If) and isinstance(n.test, ast.Name) and n.test.id == p_edge]
    if len(ifs) != 1:
        raise AnalysisError("%s: `if %s:` not found exactly once" % (ro.add, p_edge))
    cmps = {}
    from .. import pybool
    for l, op_, rt in pybool.compare_nodes(ifs[0]):
        op = type(op_).__name__
        if isinstance(rt, ast.Name) and rt.id in (p_lo, p_hi) and isinstance(l, ast.Name):
            cmps[rt.id] = (l.id, op)
        elif isinstance(l, ast.Name) and l.id in (p_lo, p_hi) and isinstance(rt, ast.Name):
            flip = {"LtE": "GtE", "GtE": "LtE", "Lt": "Gt", "Gt": "Lt"}.get(op, op)
            cmps[l.id] = (rt.id, flip)
    if p_lo not in cmps or p_hi not in cmps:
        raise AnalysisError("%s: comparisons with %s / %s not found under `if %s`" % (ro.add, p_lo, p_hi, p_edge))
    arr = cmps[p_lo][0]
    # the selection is applied to the list of keys: a mask subscript `idxs = idxs[valid]`, or a comprehension over the list whose
    # element variable is the one compared (`idxs = [i for i in idxs if lo <= i <= hi]`)
    sel = [n for n in ast.walk(ifs[0]) if isinstance(n, ast.Assign) and isinstance(n.targets[0], ast.Name) and n.targets[0].id == arr
           and isinstance(n.value, ast.Subscript) and pyfront.dotted(n.value.value) == arr]
    if not sel:
        for n in ast.walk(ifs[0]):
            if isinstance(n, ast.Assign) and isinstance(n.targets[0], ast.Name) and isinstance(n.value, (ast.ListComp, ast.GeneratorExp)) \
                    and len(n.value.generators) == 1 and isinstance(n.value.generators[0].iter, ast.Name) \
                    and n.value.generators[0].iter.id == n.targets[0].id and isinstance(n.value.generators[0].target, ast.Name) \
                    and n.value.generators[0].target.id == arr and isinstance(n.value.elt, ast.Name) and n.value.elt.id == arr \
                    and n.value.generators[0].ifs:
                sel = [n]
    # the list the filter is applied to is the file's complete list of samples: between its definition and the `if is_edge`
    # nothing removes elements from it (a cut to "the newest sample only" made *before* the range filter keeps a sample outside the
    # range and drops the newest one inside it)
    if sel:
        listvar = sel[0].targets[0].id
        cuts = []
        for n in ast.walk(am):
            if any(n is y for y in ast.walk(ifs[0])):
                continue
            if getattr(n, "lineno", 10 ** 9) > ifs[0].lineno:
                continue
            if isinstance(n, ast.Delete) and any(isinstance(t, ast.Subscript) and isinstance(t.value, ast.Name) and t.value.id == listvar for t in n.targets):
                cuts.append(n)
            elif isinstance(n, ast.Assign) and any(isinstance(t, ast.Name) and t.id == listvar for t in n.targets) and isinstance(n.value, ast.Subscript) \
                    and isinstance(n.value.value, ast.Name) and n.value.value.id == listvar:
                cuts.append(n)
            elif isinstance(n, ast.Assign) and any(isinstance(t, ast.Subscript) and isinstance(t.value, ast.Name) and t.value.id == listvar for t in n.targets):
                cuts.append(n)
            elif isinstance(n, ast.Call) and isinstance(n.func, ast.Attribute) and n.func.attr in ("pop", "remove", "clear") \
                    and isinstance(n.func.value, ast.Name) and n.func.value.id == listvar:
                cuts.append(n)
        if cuts:
            c0 = cuts[0]
            r.violation(m.rel, ro.add, norm(ast.unparse(c0))[:80], "elements are removed from the file's list of samples `%s` before the range "
                        "filter `%s <= idx <= %s` is applied: what is filtered is no longer every sample of the file - with 'newest only' the "
                        "newest sample of the *file* is kept, which lies after the requested range when two samples share a file, and the "
                        "newest sample inside the range is lost" % (listvar, p_lo, p_hi), line=c0.lineno)
            r.guard(3)
            return r
    if cmps[p_lo] == (arr, "GtE") and cmps[p_hi] == (arr, "LtE") and sel:
        r.ok("%s:%s %s" % (m.rel, ifs[0].lineno, ro.add), "is_edge selects %s <= idx <= %s (inclusive on both ends)" % (p_lo, p_hi))
    else:
        r.violation(m.rel, ro.add, "range filter: %s %s %s, %s %s %s%s" % (cmps[p_lo][0], cmps[p_lo][1], p_lo, cmps[p_hi][0],
                    cmps[p_hi][1], p_hi, "" if sel else " (selection not applied)"), "the range filter is not the inclusive "
                    "%s <= idx <= %s: a sample exactly at an end of the requested range is dropped, or samples outside are kept" % (p_lo, p_hi),
                    line=ifs[0].lineno)
    r.guard(3)
    return r


def _ancestors(m, n):
    p = m.parents.get(n)
    while p is not None:
        yield p
        p = m.parents.get(p)


def r3_numeric_key_order(repo=None, rid="C12.R3"):
    r = Rule(rid, "sample keys (stored as strings) are ordered numerically wherever an extreme key is taken")
    m = pyfront.mod("digital_metadata", repo)
    n_sites = 0
    # the writer names the groups from uint64 values: a reader that parses the names into a signed 64-bit type cannot hold every
    # index the writer accepted (>= 2**63: OverflowError for every read of that file)
    for name, f in m.methods(R).items():
        for c in pyfront.walk_no_nested(f):
            if isinstance(c, ast.Call) and pyfront.call_name(c) in ("np.fromiter", "numpy.fromiter", "np.array", "np.asarray") and len(c.args) >= 1:
                src = ast.unparse(c.args[0])
                keyish = ".keys()" in src or any(isinstance(a_, ast.Assign) and isinstance(a_.targets[0], ast.Name) and a_.targets[0].id == src
                                                 and ".keys()" in ast.unparse(a_.value) for a_ in pyfront.walk_no_nested(f))
                dt = c.args[1] if len(c.args) > 1 else pyfront.kwarg(c, "dtype")
                if keyish and dt is not None and norm(ast.unparse(dt)) in ("np.int64", "numpy.int64", "np.int_", "int", "'i8'", "'int64'", "np.longlong"):
                    r.violation(m.rel, "%s.%s" % (R, name), norm(ast.unparse(c))[:80],
                                "the sample keys of a file are parsed into a signed 64-bit array although the writer accepts (and names "
                                "groups from) any uint64 index: a sample at or above 2**63 - every present-day index at 5.3 GHz or more - "
                                "is written and reported by get_bounds, but every read of its file raises OverflowError", line=c.lineno)
    for name, f in m.methods(R).items():
        q = "%s.%s" % (R, name)
        keyvars = set()

        def int_keyed_base(e):
            """`<X>.keys()` where X is the result dictionary of one of the reader's own methods (keyed by Python integers since
            the keys are parsed on the way in) or a dictionary built in this function - not the string-named groups of a file"""
            for k in ast.walk(e):
                if isinstance(k, ast.Call) and isinstance(k.func, ast.Attribute) and k.func.attr == "keys" and isinstance(k.func.value, ast.Name):
                    defs = [a_.value for a_ in pyfront.walk_no_nested(f) if isinstance(a_, ast.Assign) and len(a_.targets) == 1
                            and isinstance(a_.targets[0], ast.Name) and a_.targets[0].id == k.func.value.id]
                    if defs and all(isinstance(d_, ast.Call) and ((pyfront.call_name(d_) or "").startswith("self.")
                                    or (pyfront.call_name(d_) or "").split(".")[-1] in ("OrderedDict", "dict", "defaultdict")) for d_ in defs):
                        continue
                    return False
                if isinstance(k, ast.Call) and isinstance(k.func, ast.Attribute) and k.func.attr == "keys" and not isinstance(k.func.value, ast.Name):
                    return False
            return True
        for n in pyfront.walk_no_nested(f):
            if isinstance(n, ast.Assign) and len(n.targets) == 1 and isinstance(n.targets[0], ast.Name):
                src = ast.unparse(n.value)
                if ".keys()" in src and not any(k in src for k in ("int(", "np.int64", "fromiter", "astype")) and not int_keyed_base(n.value):
                    keyvars.add(n.targets[0].id)
        for c in pyfront.walk_no_nested(f):
            if not isinstance(c, ast.Call):
                continue
            d = pyfront.call_name(c) or ""
            target = None
            if isinstance(c.func, ast.Attribute) and c.func.attr == "sort" and isinstance(c.func.value, ast.Name) \
                    and c.func.value.id in keyvars:
                target = c.func.value.id
            elif d in ("sorted", "min", "max") and c.args and (
                    (isinstance(c.args[0], ast.Name) and c.args[0].id in keyvars) or ".keys()" in ast.unparse(c.args[0])):
                target = ast.unparse(c.args[0])
            if target is None:
                continue
            n_sites += 1
            key = pyfront.kwarg(c, "key")
            numeric = key is not None and (pyfront.dotted(key) in ("int", "np.int64", "np.uint64", "float") or (
                isinstance(key, ast.Lambda) and "int(" in ast.unparse(key)))
            # the elements are converted before they are ordered: sorted(int(k) for k in f.keys()), sorted(map(int, f.keys()))
            a0 = c.args[0] if c.args else None
            if isinstance(a0, (ast.GeneratorExp, ast.ListComp)) and isinstance(a0.elt, ast.Call) and pyfront.call_name(a0.elt) in (
                    "int", "np.int64", "np.uint64") and len(a0.elt.args) == 1 and isinstance(a0.elt.args[0], ast.Name) \
                    and isinstance(a0.generators[0].target, ast.Name) and a0.elt.args[0].id == a0.generators[0].target.id:
                numeric = True
            if isinstance(a0, ast.Call) and pyfront.call_name(a0) == "map" and a0.args and pyfront.dotted(a0.args[0]) in ("int", "np.int64", "np.uint64"):
                numeric = True
            site = "%s:%s %s `%s`" % (m.rel, c.lineno, q, norm(ast.unparse(c)))
            if numeric:
                r.ok(site, "string keys ordered by integer value")
            else:
                r.violation(m.rel, q, norm(ast.unparse(c)), "group names are ordered as strings: with indices of different digit "
                            "counts in one file ('999999995' > '1000000005') the first/last key is wrong, so the reported "
                            "bounds are wrong", line=c.lineno)
    # _add_metadata: the array the samples are taken from is made of integers and sorted before the loop
    ro = dmdroles.roles(repo)
    am = ro.add_view.fn()
    qa = ro.add
    # positive evidence first: the samples of a file are taken in the order the HDF5 library iterates the groups - by *name*, i.e.
    # lexicographically ('10000000000' < '9999999995') - when the loop that fills the result runs over the file object itself
    handles = {it.optional_vars.id for w in ast.walk(am) if isinstance(w, ast.With) for it in w.items
               if isinstance(it.optional_vars, ast.Name) and isinstance(it.context_expr, ast.Call) and pyfront.call_name(it.context_expr) == "h5py.File"}
    handles |= {a_.targets[0].id for a_ in ast.walk(am) if isinstance(a_, ast.Assign) and len(a_.targets) == 1 and isinstance(a_.targets[0], ast.Name)
                and isinstance(a_.value, ast.Call) and pyfront.call_name(a_.value) == "h5py.File"}
    for lp in ast.walk(am):
        if not isinstance(lp, ast.For):
            continue
        it_ = lp.iter
        base = it_.func.value if isinstance(it_, ast.Call) and isinstance(it_.func, ast.Attribute) and it_.func.attr in ("items", "keys", "values") \
            and not it_.args else it_
        if isinstance(base, ast.Name) and base.id in handles and any(
                isinstance(c, ast.Call) and pyfront.call_name(c) == "self." + ro.populate_name for c in ast.walk(lp)):
            r.violation(m.rel, qa, "for %s in %s" % (norm(ast.unparse(lp.target)), norm(ast.unparse(it_))), "the samples of a file enter the "
                        "result in the order of their group *names*: with indices of different digit counts in one file the last entry "
                        "is not the highest index, and everything that takes the last entry for the latest sample (forward fill, "
                        "read_latest) answers with an older one although the newer one is written", line=lp.lineno)
            r.guard(1)
            return r
    loops = [n for n in ast.walk(am) if isinstance(n, ast.For) and isinstance(n.iter, ast.Name) and any(
        isinstance(c, ast.Call) and pyfront.call_name(c) == "self." + ro.populate_name for c in ast.walk(n))]
    loops = [l for l in loops if not any(l is not o and any(x is l for x in ast.walk(o)) for o in loops)]
    if len(loops) != 1:
        raise AnalysisError("%s: loop over the sample indices of a file not recognised" % qa)
    arr = loops[0].iter.id
    chain, work = set(), [arr]
    integer = ordered = False
    while work:
        v = work.pop()
        if v in chain:
            continue
        chain.add(v)
        for n in ast.walk(am):
            if isinstance(n, ast.Assign) and any(isinstance(t, ast.Name) and t.id == v for t in n.targets) and n.lineno < loops[0].lineno:
                src = norm(ast.unparse(n.value))
                if any(k in src for k in ("np.int64", "np.uint64", "'int64'", "dtype=int", "int(", "map(int,")) and any(
                        k in src for k in ("fromiter", "astype", "np.array", "np.asarray", "int(", "map(int,")):
                    integer = True
                if (src.startswith("np.sort(") or src.startswith("sorted(")) and integer:
                    ordered = True
                work.extend(x.id for x in ast.walk(n.value) if isinstance(x, ast.Name))
            if isinstance(n, ast.Call) and isinstance(n.func, ast.Attribute) and n.func.attr == "sort" and pyfront.dotted(n.func.value) == v \
                    and n.lineno < loops[0].lineno and v == arr:
                ordered = True
    keys_src = any(isinstance(n, ast.Call) and isinstance(n.func, ast.Attribute) and n.func.attr == "keys" for n in ast.walk(am))
    if not keys_src:
        raise AnalysisError("%s: group names (.keys()) not found" % qa)
    n_sites += 1
    if integer and ordered:
        r.ok("%s:%s %s" % (m.rel, am.lineno, qa), "group names converted to integers and sorted before the samples are read")
    else:
        r.violation(m.rel, qa, "key ordering of `%s` (integer: %s, sorted: %s)" % (arr, integer, ordered), "keys are not converted to "
                    "integers and sorted before being read: samples would be returned out of ascending index order", line=loops[0].lineno)
    if n_sites < 2:
        raise AnalysisError("C12.R3: %d key-ordering sites found, 3 confirmed on the reference tree" % n_sites)
    r.guard(3)
    return r


def _isinstance_test(test, var, types):
    """+1 if test is isinstance(var, T), -1 if `not isinstance(var, T)`, 0 otherwise"""
    neg = 1
    if isinstance(test, ast.UnaryOp) and isinstance(test.op, ast.Not):
        neg, test = -1, test.operand
    if isinstance(test, ast.Call) and pyfront.call_name(test) == "isinstance" and len(test.args) == 2 \
            and isinstance(test.args[0], ast.Name) and test.args[0].id == var and norm(ast.unparse(test.args[1])) in types:
        return neg
    return 0


def _none_test(test):
    """(var, +1) for `var is None`, (var, -1) for `var is not None`; `not <test>` flips the sign"""
    if isinstance(test, ast.UnaryOp) and isinstance(test.op, ast.Not):
        v, sg = _none_test(test.operand)
        return v, -sg
    if isinstance(test, ast.Compare) and len(test.ops) == 1 and isinstance(test.left, ast.Name) and pyfront.const(test.comparators[0]) is None \
            and isinstance(test.comparators[0], ast.Constant):
        if isinstance(test.ops[0], ast.Is):
            return test.left.id, 1
        if isinstance(test.ops[0], ast.IsNot):
            return test.left.id, -1
    return None, 0


def r5_recursive_shape(repo=None):
    r = Rule("C12.R5", "nested values are written and read by the same recursive shape; strings use one encoding")
    ro = dmdroles.roles(repo)
    m = ro.m
    ri = m.fn(ro.rec_items)
    rec = [c for c in pyfront.calls_in(ri, (ro.rec_items,))]
    rparams = [a.arg for a in ri.args.args]
    ok = False
    if len(rec) == 1 and len(rec[0].args) >= 2:
        a1 = rec[0].args[1]
        if isinstance(a1, ast.BinOp) and isinstance(a1.op, ast.Add) and pyfront.const(a1.right) == "/" and isinstance(a1.left, ast.Name):
            defs = [n for n in ast.walk(ri) if isinstance(n, ast.Assign) and isinstance(n.targets[0], ast.Name) and n.targets[0].id == a1.left.id]
            ok = len(defs) == 1 and isinstance(defs[0].value, ast.BinOp) and isinstance(defs[0].value.op, ast.Add) \
                and isinstance(defs[0].value.left, ast.Name) and defs[0].value.left.id == rparams[1]
    if ok:
        r.ok("%s:%s %s" % (m.rel, ri.lineno, ro.rec_items), "sub-dictionaries are flattened with the prefix name + '/' (HDF5 nested groups)")
    elif not rec:
        r.violation(m.rel, ro.rec_items, "no recursion", "nested dictionaries are not written as nested groups", line=ri.lineno)
    elif len(rec) == 1 and len(rec[0].args) >= 2:
        r.violation(m.rel, ro.rec_items, norm(ast.unparse(rec[0]))[:80], "nested dictionaries are not written as nested groups "
                    "(prefix is not <prefix + key> + '/')", line=rec[0].lineno)
    else:
        raise AnalysisError("%s: recursion not recognised" % ro.rec_items)
    pd = ro.populate_view.fn()
    pp = [a.arg for a in pd.args.args if a.arg != "self"]
    if len(pp) != 3:
        raise AnalysisError("%s: parameters not recognised" % ro.populate)
    top = [s_ for s_ in pd.body if isinstance(s_, ast.If) and _isinstance_test(s_.test, pp[1], ("h5py.Dataset", "h5py.Group"))]
    if len(top) != 1:
        raise AnalysisError("%s: dataset/group dispatch on `%s` not found" % (ro.populate, pp[1]))
    t = top[0]
    sign = _isinstance_test(t.test, pp[1], ("h5py.Dataset", "h5py.Group"))
    if "Group" in ast.unparse(t.test):
        sign = -sign
    group_branch = t.orelse if sign > 0 else t.body
    rec_ok = any(isinstance(s_, ast.For) and norm(ast.unparse(s_.iter)) in ("%s.items()" % pp[1], "six.iteritems(%s)" % pp[1])
                 and any(pyfront.call_name(c) == "self." + ro.populate_name for c in ast.walk(s_) if isinstance(c, ast.Call))
                 for b_ in group_branch for s_ in ast.walk(b_))
    if rec_ok:
        r.ok("%s:%s %s" % (m.rel, pd.lineno, ro.populate), "datasets become values, groups are read recursively over their items")
    else:
        r.violation(m.rel, ro.populate, "group branch: %s" % norm(" ".join(ast.unparse(x) for x in group_branch))[:100],
                    "nested groups are not read back recursively", line=t.lineno)
    decs = [c for c in ast.walk(pd) if isinstance(c, ast.Call) and isinstance(c.func, ast.Attribute) and c.func.attr == "decode"]
    for c in decs:
        enc = pyfront.const(c.args[0]) if c.args else pyfront.const(pyfront.kwarg(c, "encoding")) if c.keywords else None
        if enc is None or str(enc).lower().replace("-", "") == "utf8":
            r.ok("%s:%s %s `%s`" % (m.rel, c.lineno, ro.populate, norm(ast.unparse(c))), "bytes decoded as UTF-8, the "
                 "encoding h5py stores str values with")
        else:
            r.violation(m.rel, ro.populate, norm(ast.unparse(c)), "stored strings are decoded as %r but h5py stores str as "
                        "UTF-8: a non-ASCII value fails to decode and is returned as raw bytes instead of the written string" % enc,
                        line=c.lineno)
    # stored bytes need not be text: every decode sits in a try whose handler for UnicodeDecodeError keeps the bytes, otherwise
    # one such value makes every read of its file (and every forward fill looking back through it) raise
    pparents = {}
    for n_ in ast.walk(pd):
        for ch_ in ast.iter_child_nodes(n_):
            pparents[ch_] = n_
    for c in decs:
        tr = pparents.get(c)
        guarded = False
        while tr is not None and not guarded:
            if isinstance(tr, ast.Try) and any(c is x for st in tr.body for x in ast.walk(st)):
                for h in tr.handlers:
                    names = ["*"] if h.type is None else [pyfront.dotted(e) for e in (h.type.elts if isinstance(h.type, ast.Tuple) else [h.type])]
                    if any(n_ in ("UnicodeDecodeError", "UnicodeError", "ValueError", "Exception", "*") for n_ in names) and not any(
                            isinstance(x, ast.Raise) for x in ast.walk(h)):
                        guarded = True
            tr = pparents.get(tr)
        if guarded:
            r.ok("%s:%s %s `%s` (handler)" % (m.rel, c.lineno, ro.populate, norm(ast.unparse(c))), "a value that is not UTF-8 is kept as bytes")
        else:
            r.violation(m.rel, ro.populate, "%s outside try/except UnicodeDecodeError" % norm(ast.unparse(c)), "stored bytes that are "
                        "not UTF-8 (which the writer accepts) make the decode raise: every read of that file and every forward "
                        "fill that looks back through it fails, hiding the neighbouring samples as well; the scalar case keeps "
                        "such bytes", line=c.lineno)
    # bytes -> str through numpy's unicode dtypes uses the ASCII codec: `<array of bytes>.astype(np.str_ / str / 'U')`
    for c in ast.walk(pd):
        if isinstance(c, ast.Call) and isinstance(c.func, ast.Attribute) and c.func.attr == "astype" and c.args:
            t_ = norm(ast.unparse(c.args[0]))
            if t_ in ("np.str_", "numpy.str_", "str", "np.unicode_", "'U'", "'<U'", "np.dtype('U')"):
                r.violation(m.rel, ro.populate, norm(ast.unparse(c)), "an array of stored strings (h5py returns them as UTF-8 bytes) is "
                            "converted with astype(%s), which decodes through the ASCII codec: a list of strings with one non-ASCII "
                            "character raises UnicodeDecodeError in every read that touches its file, although a single string with "
                            "the same text is decoded as UTF-8 and read back" % t_, line=c.lineno)
    wv = ro.write_view
    w = wv.fn()
    zips = [n for n in ast.walk(w) if isinstance(n, ast.For) and isinstance(n.iter, ast.Call) and pyfront.call_name(n.iter) == "zip"
            and isinstance(n.target, ast.Tuple)]
    creates = [c for z in zips for c in ast.walk(z) if isinstance(c, ast.Call) and isinstance(c.func, ast.Attribute)
               and c.func.attr == "create_dataset"]
    if not creates:
        raise AnalysisError("%s.write: create_dataset not found" % W)
    n_ok = 0
    for c in creates:
        data = pyfront.kwarg(c, "data", 1)
        if isinstance(data, ast.IfExp):
            var, sg = _none_test(data.test)
            none_val, other = (data.body, data.orelse) if sg > 0 else (data.orelse, data.body)
            if var is None:
                raise AnalysisError("%s.write: `%s` not recognised" % (W, norm(ast.unparse(c))))
            if pyfront.const(none_val) == "" and isinstance(other, ast.Name) and other.id == var:
                n_ok += 2
            else:
                r.violation(m.rel, W + ".write", norm(ast.unparse(c)), "None values are not stored as the empty string (or other values "
                            "are not stored as themselves)", line=c.lineno)
            continue
        if isinstance(data, ast.Name):
            # must be in the not-None branch of a test of that name
            guarded = False
            child = c
            for anc in _ancestors(wv, c):
                if isinstance(anc, ast.If):
                    var, sg = _none_test(anc.test)
                    if var == data.id:
                        in_body = any(child is x or any(child is y for y in ast.walk(x)) for x in anc.body)
                        guarded = (sg < 0 and in_body) or (sg > 0 and not in_body)
                if isinstance(anc, ast.stmt):
                    child = anc
            if not guarded:
                # normalised first: `if val is None: val = ""` in front of the call, in the same block, nothing assigned in between
                stmt = c
                par_ = wv.parents.get(stmt)
                while par_ is not None and not isinstance(stmt, ast.stmt):
                    stmt, par_ = par_, wv.parents.get(par_)
                block = None
                for fld in ("body", "orelse", "finalbody"):
                    if par_ is not None and stmt in (getattr(par_, fld, None) or []):
                        block = getattr(par_, fld)
                if block is not None:
                    before = block[:block.index(stmt)]
                    for i_ in range(len(before) - 1, -1, -1):
                        st_ = before[i_]
                        if isinstance(st_, ast.If) and not st_.orelse and len(st_.body) == 1 and isinstance(st_.body[0], ast.Assign) \
                                and len(st_.body[0].targets) == 1 and isinstance(st_.body[0].targets[0], ast.Name) \
                                and st_.body[0].targets[0].id == data.id and pyfront.const(st_.body[0].value) == "":
                            var, sg = _none_test(st_.test)
                            if var == data.id and sg > 0:
                                guarded = True
                            break
                        if any(isinstance(y, ast.Name) and y.id == data.id and isinstance(y.ctx, ast.Store) for y in ast.walk(st_)):
                            break
            if guarded:
                n_ok += 1
            else:
                r.violation(m.rel, W + ".write", norm(ast.unparse(c)), "a None value reaches create_dataset(data=None): None values "
                            "are not stored as the empty string", line=c.lineno)
        elif pyfront.const(data) == "":
            in_none = False
            child = c
            for anc in _ancestors(wv, c):
                if isinstance(anc, ast.If):
                    var, sg = _none_test(anc.test)
                    if var is not None:
                        in_body = any(child is x or any(child is y for y in ast.walk(x)) for x in anc.body)
                        in_none = (sg > 0 and in_body) or (sg < 0 and not in_body)
                if isinstance(anc, ast.stmt):
                    child = anc
            if in_none:
                n_ok += 1
            else:
                r.violation(m.rel, W + ".write", norm(ast.unparse(c)), "the empty string is written for values that are not None",
                            line=c.lineno)
        else:
            raise AnalysisError("%s.write: `%s` not recognised" % (W, norm(ast.unparse(c))))
    if n_ok >= len(creates) and n_ok >= 2:
        r.ok("%s:%s %s.write" % (m.rel, w.lineno, W), "None is written as the empty string, everything else as itself")
    r.guard(4)
    return r


def r6_list_edges(repo=None, rid="C12.R6"):
    """is_edge is decided by position in the candidate list (C12.R2), which is sound only if the list starts with the file that
    contains the start of the range and ends with the file that contains its end."""
    from . import c13
    from .. import pysym
    r = Rule(rid, "the candidate file list starts at the file holding the range start and ends at the file holding its end")
    ro = dmdroles.roles(repo)
    m = ro.m
    rf = ro.filelist_view.fn()
    q = ro.filelist
    params, rloop, forms = c13._reader_forms(m, rf)
    env = pysym.seq_env(rf.body, stop=rloop)
    cad = None
    arr = None
    for n in ast.walk(rloop):
        if isinstance(n, ast.Assign) and isinstance(n.value, ast.Call) and pyfront.call_name(n.value) in ("np.arange", "numpy.arange", "range") \
                and len(n.value.args) == 3 and isinstance(n.targets[0], ast.Name):
            arr = n.targets[0].id
            cad = pysym.canon(pysym.subst(n.value.args[2], env))
    if arr is None or cad is None or cad[0] != "leaf":
        raise AnalysisError("%s: the array of candidate file timestamps (np.arange(start, stop, file cadence)) not recognised" % q)
    cname = cad[1]
    # the bound of each end of the range: a local derived from the parameter and floored to a multiple of the file cadence
    edge_vars = {}
    for p_ in params:
        al = [n for n, c in forms[p_].items() if c[0] == "mul" and len(c[1]) == 2 and ("leaf", cname) in c[1] and any(
            x[0] == "fdiv" and ("leaf", cname) in x[2] for x in c[1])]
        if len(al) != 1:
            raise AnalysisError("%s: the bound derived from `%s` and floored to the file cadence was not found (candidates %s)" % (
                q, p_, sorted(forms[p_])))
        edge_vars[p_] = al[0]
    want = {params[0]: ("lower", {(0, 0), (-1, 1)}), params[1]: ("upper", {(0, 0), (1, -1)})}
    for p_, (side, allowed) in want.items():
        ev_ = edge_vars[p_]
        cmps = [n for n in ast.walk(rloop) if isinstance(n, ast.Compare) and len(n.ops) == 1 and any(
            isinstance(x, ast.Name) and x.id == ev_ for x in ast.walk(n)) and any(isinstance(x, ast.Name) and x.id == arr for x in ast.walk(n))]
        if len(cmps) != 1:
            raise AnalysisError("%s: comparison of `%s` with `%s` not found exactly once" % (q, arr, ev_))
        c = cmps[0]
        keep = {k: v for k, v in env.items() if k not in (ev_, arr)}
        lf, rg = pysym.linform(c.left, keep), pysym.linform(c.comparators[0], keep)
        if lf is None or rg is None:
            raise AnalysisError("%s: `%s` is not linear" % (q, norm(ast.unparse(c))))
        d = dict(lf)
        for k, v in rg.items():
            d[k] = d.get(k, 0) - v          # d = left - right
        op = type(c.ops[0]).__name__
        xa, xe = d.get(arr, 0), d.get(ev_, 0)
        others = {k: v for k, v in d.items() if k not in (arr, ev_, cname, 1) and v != 0}
        if others or {xa, xe} != {1, -1}:
            raise AnalysisError("%s: `%s` has an unexpected form" % (q, norm(ast.unparse(c))))
        # normalise to  arr  OP  edge + a*c + b   (move everything but arr to the right, sign by arr's coefficient)
        a_, b_ = -d.get(cname, 0) * xa, -d.get(1, 0) * xa
        if xa < 0:
            op = {"GtE": "LtE", "LtE": "GtE", "Gt": "Lt", "Lt": "Gt"}.get(op, op)
        if op == "Gt":
            op, b_ = "GtE", b_ + 1
        if op == "Lt":
            op, b_ = "LtE", b_ - 1
        okop = "GtE" if side == "lower" else "LtE"
        text = "%s %s %s%s%s" % (arr, ">=" if op == "GtE" else "<=" if op == "LtE" else op, ev_,
                                 (" %+d*%s" % (a_, cname)) if a_ else "", (" %+d" % b_) if b_ else "")
        if op == okop and (a_, b_) in allowed:
            r.ok("%s:%s %s `%s`" % (m.rel, c.lineno, q, norm(ast.unparse(c))), "equivalent to %s %s %s for timestamps that are "
                 "multiples of the file cadence: the list %s with the file holding %s" % (arr, ">=" if side == "lower" else "<=", ev_,
                                                                                         "starts" if side == "lower" else "ends", p_))
        else:
            r.violation(m.rel, q, "candidate filter `%s` (i.e. %s)" % (norm(ast.unparse(c)), text), "the candidate list can %s a file "
                        "%s the one that holds `%s`: read() switches the range filter off for every file that is not first or last "
                        "in the list, so samples outside the requested range are returned (or wanted ones are skipped)" % (
                            "begin with" if side == "lower" else "end with", "before" if side == "lower" else "after", p_), line=c.lineno)
    r.guard(2)
    return r


def r7_indices_stay_exact(repo=None):
    """Sample indices are unsigned 64-bit quantities that callers hold as Python or NumPy integers.  (a) In the reader's `read`
    no arithmetic is done on a range parameter in the caller's type (`start += 1` on np.uint64(2**64-1) wraps to 0 and the main
    pass then reads everything): an Add / Sub / augmented assignment has the parameter wrapped in int().  (b) The 'index'
    column of read_flatdict is not left to a dtype-less np.array of Python integers (a mix below and at or above 2**63 has no
    common NumPy integer type and silently becomes float64): on its definition chain there is a conversion to np.uint64."""
    r = Rule("C12.R7", "sample indices stay exact integers in the reader (no arithmetic in the caller's type, no float64 promotion)")
    ro = dmdroles.roles(repo)
    m = ro.m
    q = R + ".read"
    f = ro.read_view.fn()
    params = [a.arg for a in f.args.args if a.arg != "self"][:2]
    n = 0
    for x in ast.walk(f):
        bad = None
        if isinstance(x, ast.AugAssign) and isinstance(x.target, ast.Name) and x.target.id in params and isinstance(x.op, (ast.Add, ast.Sub)):
            bad = x
        elif isinstance(x, ast.BinOp) and isinstance(x.op, (ast.Add, ast.Sub)) and any(
                isinstance(o, ast.Name) and o.id in params for o in (x.left, x.right)):
            bad = x
        elif isinstance(x, ast.BinOp) and isinstance(x.op, (ast.Add, ast.Sub)) and any(
                isinstance(o, ast.Call) and pyfront.call_name(o) == "int" and len(o.args) == 1 and isinstance(o.args[0], ast.Name)
                and o.args[0].id in params for o in (x.left, x.right)):
            n += 1
            r.ok("%s:%s %s `%s`" % (m.rel, x.lineno, q, norm(ast.unparse(x))), "arithmetic on int(<range parameter>)")
        if bad is not None:
            n += 1
            r.violation(m.rel, q, norm(ast.unparse(bad)), "index arithmetic on a range parameter in the caller's own type: a NumPy "
                        "integer at the maximum of its type wraps around (np.uint64(2**64-1) + 1 == 0), so a forward-fill read "
                        "starting there returns every sample of the channel after the filled one", line=bad.lineno)
    fq = R + ".read_flatdict"
    if fq in m.functions:
        ff = m.flat(fq).fn()
        idx = [a for a in ast.walk(ff) if isinstance(a, ast.Assign) and isinstance(a.targets[0], ast.Subscript)
               and pyfront.const(a.targets[0].slice) == "index"]
        if len(idx) != 1:
            raise AnalysisError("%s: store of the 'index' column not found exactly once (%d)" % (fq, len(idx)))
        chain, work, seen = [], [idx[0].value], set()
        while work:
            e = work.pop()
            chain.append(e)
            for nm in {y.id for y in ast.walk(e) if isinstance(y, ast.Name)} - seen:
                seen.add(nm)
                work += [a.value for a in ast.walk(ff) if isinstance(a, ast.Assign) and any(isinstance(t, ast.Name) and t.id == nm for t in a.targets)]
        conv = any("uint64" in ast.unparse(e) for e in chain)
        n += 1
        if conv:
            r.ok("%s:%s %s 'index'" % (m.rel, idx[0].lineno, fq), "the index column passes a conversion to np.uint64 (for values at or above 2**63)")
        else:
            r.violation(m.rel, fq, norm(ast.unparse(idx[0])), "the 'index' column is a list of Python integers that a dtype-less np.array "
                        "converts: values below and at or above 2**63 together have no common NumPy integer type and become "
                        "float64 - all indices near 2**63 are returned rounded to values that were never written", line=idx[0].lineno)
    if n < 2:
        raise AnalysisError("%s: index arithmetic / index column not found (%d sites)" % (q, n))
    r.guard(2)
    return r


def r8_per_sample_split_reaches_nested_values(repo=None):
    """'values may be ... nested dictionaries of these ... batch writes' round trip: in the dict-of-arrays form a value whose length
    equals the number of samples gives one element per sample.  That rule is applied in one loop of DigitalMetadataWriter.write
    (the one that tests `len(<value>) == <N>`); it reaches values *inside* nested dictionaries only if that loop runs over the
    flattened (key path, leaf) pairs - the module's recursive item generator applied to `data` - and not over the top-level items.
    Flattening later, per sample, stores the whole array under every sample."""
    r = Rule("C12.R8", "the per-sample split of a batch write is applied to the leaves of nested dictionaries")
    m = pyfront.mod("digital_metadata", repo)
    q = "DigitalMetadataWriter.write"
    f = m.fn(q)
    # the recursive item generator: a module-level generator that calls itself
    rec = [name for name, fn in m.functions.items() if "." not in name and any(isinstance(x, (ast.Yield, ast.YieldFrom)) for x in ast.walk(fn))
           and any(isinstance(c, ast.Call) and isinstance(c.func, ast.Name) and c.func.id == name for c in ast.walk(fn))]
    if len(rec) != 1:
        raise AnalysisError("digital_metadata: the recursive (key, value) generator for nested dictionaries was not found exactly once (%s)" % rec)
    rec = rec[0]
    # the test `len(<value>) == <N>`: in write itself or in a private helper of the writer; <value> is followed back to the
    # iteration that produces it (a loop / comprehension target, possibly through a helper's parameter)
    W = "DigitalMetadataWriter"
    cands = []
    scope_fns = dict(m.methods(W))
    scope_fns.update({n_: f_ for n_, f_ in m.functions.items() if "." not in n_ and n_.startswith("_")})     # private module helpers as well
    for name, fn in scope_fns.items():
        for c in ast.walk(fn):
            if isinstance(c, ast.Compare) and len(c.ops) == 1 and isinstance(c.ops[0], ast.Eq) and isinstance(c.left, ast.Call) \
                    and pyfront.call_name(c.left) == "len" and c.left.args and isinstance(c.left.args[0], ast.Name) \
                    and isinstance(c.comparators[0], ast.Name):
                cands.append((name, fn, c.left.args[0].id, c))
    # keep the tests on a value of the data (not `len(data) != N` on the whole argument, which is an inequality anyway)
    cands = [c_ for c_ in cands if not (c_[0] == "write" and c_[2] in [a.arg for a in c_[1].args.args])]      # not `len(data) == N` on the argument itself
    if len(cands) != 1:
        raise AnalysisError("%s: the test `len(value) == N` was not found exactly once (%d)" % (W, len(cands)))
    name, fn, var, cmp_ = cands[0]

    def producers(fn_, v, at, depth=0):
        """the iteration that binds v around node `at` in fn_ (innermost enclosing loop / comprehension whose target holds v); if v is
        a parameter of the private helper fn_, the same question is asked at every call site"""
        par_ = {}
        for n in ast.walk(fn_):
            for ch in ast.iter_child_nodes(n):
                par_[ch] = n
        p_ = par_.get(at)
        while p_ is not None:
            if isinstance(p_, ast.For) and any(isinstance(x, ast.Name) and x.id == v for x in ast.walk(p_.target)):
                return [(fn_, p_.iter, p_)]
            if isinstance(p_, (ast.ListComp, ast.GeneratorExp, ast.SetComp, ast.DictComp)):
                for gen in p_.generators:
                    if any(isinstance(x, ast.Name) and x.id == v for x in ast.walk(gen.target)):
                        return [(fn_, gen.iter, p_)]
            p_ = par_.get(p_)
        out = []
        ps = [a.arg for a in fn_.args.args if a.arg not in ("self", "cls")]
        if depth < 3 and v in ps:
            idx = ps.index(v)
            for cname, cf in scope_fns.items():
                for c in ast.walk(cf):
                    if isinstance(c, ast.Call) and (pyfront.call_name(c) or "") in ("self." + fn_.name, "cls." + fn_.name, W + "." + fn_.name, fn_.name) \
                            and idx < len(c.args) and isinstance(c.args[idx], ast.Name):
                        out += producers(cf, c.args[idx].id, c, depth + 1)
        return out
    # the rule holds for every batch size: nothing but the value's own type decides whether `len(value) == N` is asked at all
    nname = cmp_.comparators[0].id
    par0 = {}
    for n_ in ast.walk(fn):
        for ch_ in ast.iter_child_nodes(n_):
            par0[ch_] = n_
    an_, ch0 = par0.get(cmp_), cmp_
    while an_ is not None and an_ is not fn:
        if isinstance(an_, ast.If) and ch0 is not an_.test and not any(ch0 is x for x in ast.walk(an_.test)):
            terms_ = an_.test.values if isinstance(an_.test, ast.BoolOp) else [an_.test]
            for t_ in terms_:
                core = t_.operand if isinstance(t_, ast.UnaryOp) and isinstance(t_.op, ast.Not) else t_
                if isinstance(core, ast.Call) and pyfront.call_name(core) == "isinstance" and core.args and isinstance(core.args[0], ast.Name) and core.args[0].id == var:
                    continue
                names_ = {x.id for x in ast.walk(t_) if isinstance(x, ast.Name)}
                # a local that stands for a test on the batch size
                for nm_ in list(names_):
                    for a_ in ast.walk(fn):
                        if isinstance(a_, ast.Assign) and any(isinstance(tt, ast.Name) and tt.id == nm_ for tt in a_.targets):
                            names_ |= {x.id for x in ast.walk(a_.value) if isinstance(x, ast.Name)}
                if nname in names_:
                    r.violation(m.rel, "%s.%s" % (W, name), "`%s` guards `%s`" % (norm(ast.unparse(t_))[:40], norm(ast.unparse(cmp_))), "the rule 'a value whose "
                                "length equals the number of samples gives one element per sample' is switched off for some batch sizes (a "
                                "single sample): `{'a': [7]}` written for one index reads back as array([7]) instead of 7", line=an_.lineno)
                    r.guard(1)
                    return r
        ch0, an_ = an_, par0.get(an_)
    prods = producers(fn, var, cmp_)
    if not prods:
        raise AnalysisError("%s.%s: where the value `%s` of the per-sample split comes from was not recognised" % (W, name, var))
    params_w = [a.arg for a in f.args.args]
    for pf, it, node in prods:
        site = "%s:%s %s.%s `%s in %s`" % (m.rel, getattr(node, "lineno", getattr(it, "lineno", 0)), W, pf.name, var, norm(ast.unparse(it))[:50])
        pparams = [a.arg for a in pf.args.args]
        if isinstance(it, ast.Call) and pyfront.call_name(it) == rec and it.args and isinstance(it.args[0], ast.Name) and it.args[0].id in pparams:
            r.ok(site, "runs over the flattened leaves of `%s`" % it.args[0].id)
        elif isinstance(it, ast.Call) and (pyfront.call_name(it) in ("six.iteritems", "iteritems") or (
                isinstance(it.func, ast.Attribute) and it.func.attr in ("items", "iteritems"))):
            r.violation(m.rel, "%s.%s" % (W, pf.name), "%s in %s" % (var, norm(ast.unparse(it))[:50]), "the per-sample split looks at the "
                        "top-level values only: a value of length N inside a nested dictionary is not split, every sample stores the whole "
                        "array under that key and read() returns it for each sample", line=getattr(it, "lineno", pf.lineno))
        else:
            raise AnalysisError("%s.%s: iterable `%s` of the per-sample split not recognised" % (W, pf.name, norm(ast.unparse(it))[:60]))
    r.guard(1)
    return r


def rules(repo=None):
    from . import c13
    return [lambda: r1_append_and_refuse(repo), lambda: r2_range_filter(repo), lambda: r3_numeric_key_order(repo),
            lambda: c13.r1_exact_placement(repo, rid="C12.R4"), lambda: r5_recursive_shape(repo), lambda: r6_list_edges(repo),
            lambda: r7_indices_stay_exact(repo), lambda: r8_per_sample_split_reaches_nested_values(repo),
            lambda: c13.r9_reader_file_list_has_no_memory(repo, rid="C12.R9", view="perfile")]


EXPLANATION = (
    "R9 (who-may-write, see C13.R9): an attribute of the reader that the per-file reading method reads is stored or mutated only by "
    "the constructor - an index of a file's samples remembered across reads hides samples appended to the file later. "
    "R1: the metadata data file is opened with mode 'a', sample groups are made with create_group inside a try whose "
    'ValueError handler raises, values are written only with create_dataset into the new group. R2: every _add_metadata '
    'call from read passes is_edge True, or False only for files strictly between the first and last of the list; the '
    "filter is the inclusive sample0 <= idx <= sample1; the forward-fill look-back is bounded above by the caller's start"
    ' sample itself (not by a value clamped to the data bounds), for both values of the method parameter. R3: every '
    'sort/min/max over the string keys of a file uses an integer key, and the keys are never parsed into a signed 64-bit '
    'type (the writer names groups from uint64). R4: exact integer placement in writer and reader (C13.R1). R5: writer '
    'and reader use the same recursive shape and UTF-8 (no astype(str) of byte arrays, which decodes as ASCII); None is '
    "written as ''. R6: the candidate-file filter of _get_file_list, as linear forms over (file timestamp, bound, "
    'cadence), is equivalent to bound_start <= ts <= bound_end for cadence-aligned timestamps, so the first and last list'
    " entries are the files holding the range ends (which R2's position-based is_edge relies on). R5 also: every "
    '.decode() of a stored value sits in a try whose UnicodeDecodeError handler keeps the bytes. R7: in read no Add / Sub'
    " / augmented assignment is applied to a range parameter outside int(); the 'index' column of read_flatdict passes a "
    'conversion to np.uint64 on its definition chain. Does NOT decide value equality of arbitrary numpy/h5py conversions '
    'or the dict-of-arrays distribution rule. R3 also: a loop that fills the result while iterating the h5py file object '
    'itself (HDF5 name order) is a violation. R8: the value tested by `len(value) == N` in the batch write is produced by'
    " an iteration over the module's recursive item generator applied to `data` (followed through helper parameters to "
    'the enclosing loop or comprehension); an iteration over .items() is the violation. R8 also: no test that depends on '
    'the batch size N may guard `len(value) == N`.')
TECHNIQUE = ("Python ast; table/idiom checks with def-use roles; linear forms for the candidate filter; shares C13's symbolic placement forms")
ASSUMPTIONS = ["h5py: create_group raises ValueError on an existing name; mode 'a' never truncates; str is stored as UTF-8"]
FILES = ["python/digital_rf/digital_metadata.py"]
