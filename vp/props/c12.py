"""C12 -- Digital Metadata round-trip (partial).

Decides: append-never-truncate and duplicate refusal, range filtering wherever the range may not cover a file,
numeric ordering of sample keys, exact placement (shared with C13), same recursive shape and string encoding
on both sides.  Not decided: value equality of arbitrary numpy/h5py conversions.
"""
from __future__ import annotations

import ast

from ..core import Rule, AnalysisError, norm
from .. import pyfront

W = "DigitalMetadataWriter"
R = "DigitalMetadataReader"


def r1_append_and_refuse(repo=None):
    r = Rule("C12.R1", "metadata files are appended to, never truncated; an existing sample index is refused")
    m = pyfront.mod("digital_metadata", repo)
    q = W + "._sample_group_generator"
    f = m.fn(q)
    opens = [c for c in pyfront.calls_in(f, ("h5py.File",))]
    if len(opens) != 1:
        raise AnalysisError("%s: expected one h5py.File call, found %d" % (q, len(opens)))
    mode = pyfront.const(pyfront.kwarg(opens[0], "mode", 1))
    if mode == "a":
        r.ok("%s:%s %s" % (m.rel, opens[0].lineno, q), "data file opened with mode 'a' (create or append, never truncate)")
    else:
        r.violation(m.rel, q, norm(ast.unparse(opens[0])), "metadata data file opened with mode %r: samples already stored in the "
                    "file would be lost or the open would fail" % (mode,), line=opens[0].lineno)
    groups = [c for c in ast.walk(f) if isinstance(c, ast.Call) and isinstance(c.func, ast.Attribute)
              and c.func.attr in ("create_group", "require_group", "__setitem__")]
    if len(groups) != 1 or groups[0].func.attr != "create_group":
        r.violation(m.rel, q, norm(ast.unparse(groups[0])) if groups else "no create_group", "sample groups must be made with "
                    "create_group (which fails on an existing name), not require_group: a duplicate index would silently be "
                    "merged into the stored sample", line=groups[0].lineno if groups else f.lineno)
    else:
        c = groups[0]
        tr = m.enclosing(c, (ast.Try,))
        ok = False
        if tr is not None:
            for h in tr.handlers:
                names = [pyfront.dotted(h.type)] if not isinstance(h.type, ast.Tuple) else [pyfront.dotted(e) for e in h.type.elts]
                if "ValueError" in names and any(isinstance(x, ast.Raise) for x in ast.walk(h)) and not any(
                        isinstance(x, (ast.Yield, ast.Continue, ast.Pass)) for x in ast.walk(h)):
                    ok = True
        if ok:
            r.ok("%s:%s %s" % (m.rel, c.lineno, q), "create_group inside try; ValueError (name exists) -> raise, nothing yielded")
        else:
            r.violation(m.rel, q, norm(ast.unparse(c)), "a duplicate sample index is not turned into an error", line=c.lineno)
    w = m.fn(W + "._write")
    writes = [c for c in ast.walk(w) if isinstance(c, ast.Call) and isinstance(c.func, ast.Attribute)
              and c.func.attr in ("create_dataset", "require_dataset", "__setitem__")]
    subs = [n for n in ast.walk(w) if isinstance(n, ast.Assign) and isinstance(n.targets[0], ast.Subscript)]
    if writes and all(c.func.attr == "create_dataset" and pyfront.dotted(c.func.value) == "grp" for c in writes) and not subs:
        r.ok("%s:%s %s._write" % (m.rel, w.lineno, W), "values are written only with create_dataset into the freshly created group")
    else:
        r.violation(m.rel, W + "._write", "dataset writes: %s" % [norm(ast.unparse(c))[:40] for c in writes], "values are not "
                    "written exclusively into the new sample group", line=w.lineno)
    r.guard(3)
    return r


def _is_edge_membership(test):
    """`this_file in (file_list[0], file_list[-1])`"""
    if isinstance(test, ast.Compare) and len(test.ops) == 1 and isinstance(test.ops[0], ast.In):
        comp = test.comparators[0]
        if isinstance(comp, (ast.Tuple, ast.List)) and len(comp.elts) == 2:
            idx = []
            for e in comp.elts:
                if isinstance(e, ast.Subscript):
                    s = e.slice
                    v = pyfront.const(s)
                    if v is None and isinstance(s, ast.UnaryOp) and isinstance(s.op, ast.USub):
                        v = -pyfront.const(s.operand)
                    idx.append(v)
            return sorted(idx, key=str) == sorted([0, -1], key=str)
    return False


def r2_range_filter(repo=None, rid="C12.R2"):
    r = Rule(rid, "the sample range is applied to every file the range may not cover completely")
    m = pyfront.mod("digital_metadata", repo)
    q = R + ".read"
    f = m.fn(q)
    calls = pyfront.calls_in(f, ("self._add_metadata",))
    if len(calls) < 2:
        raise AnalysisError("%s: expected 2 _add_metadata calls, found %d" % (q, len(calls)))
    params = [a.arg for a in m.fn(R + "._add_metadata").args.args]
    pos = params.index("is_edge") - 1
    for c in calls:
        arg = pyfront.kwarg(c, "is_edge", pos)
        site = "%s:%s %s _add_metadata(is_edge=%s)" % (m.rel, c.lineno, q, ast.unparse(arg) if arg is not None else "?")
        if arg is None:
            r.violation(m.rel, q, norm(ast.unparse(c))[:80], "is_edge not passed", line=c.lineno)
        elif isinstance(arg, ast.Constant):
            if arg.value is True:
                r.ok(site, "range filter always applied")
            else:
                in_ffill = any(isinstance(a, ast.If) and "ffill" in ast.unparse(a.test) for a in _ancestors(m, c))
                r.violation(m.rel, q, "_add_metadata(..., is_edge=%r)%s" % (arg.value, " in the forward-fill search" if in_ffill else ""),
                            "the range filter is switched off for a file that can hold samples outside [sample0, sample1]: "
                            "samples outside the requested range (e.g. later than the start in a forward-fill read) are returned",
                            line=c.lineno)
        elif isinstance(arg, ast.Name):
            assigns = [n for n in pyfront.walk_no_nested(f) if isinstance(n, ast.Assign)
                       and any(isinstance(t, ast.Name) and t.id == arg.id for t in n.targets)]
            bad = None
            for a in assigns:
                v = pyfront.const(a.value)
                if v is True:
                    continue
                if v is False:
                    par = m.parents.get(a)
                    if isinstance(par, ast.If) and a in par.orelse and _is_edge_membership(par.test):
                        continue
                bad = a
            if bad is None and assigns:
                r.ok(site, "False only for files strictly between the first and the last file of the list")
            else:
                r.violation(m.rel, q, norm(ast.unparse(bad or c))[:80], "is_edge can be False for a file at the edge of the "
                            "requested range", line=(bad or c).lineno)
        else:
            r.violation(m.rel, q, norm(ast.unparse(c))[:80], "unrecognised is_edge argument", line=c.lineno)
    # the filter itself: idxs >= sample0 and idxs <= sample1 under `if is_edge`
    am = m.fn(R + "._add_metadata")
    ifs = [n for n in ast.walk(am) if isinstance(n, ast.If) and isinstance(n.test, ast.Name) and n.test.id == "is_edge"]
    ok = False
    if len(ifs) == 1:
        src = ast.unparse(ifs[0])
        ok = "idxs >= sample0" in src and "idxs <= sample1" in src and "idxs = idxs[valid]" in src
    if ok:
        r.ok("%s:%s %s._add_metadata" % (m.rel, ifs[0].lineno, R), "is_edge selects sample0 <= idx <= sample1 (inclusive on both ends)")
    else:
        r.violation(m.rel, R + "._add_metadata", "if is_edge: ...", "inclusive range filter idiom not found", line=am.lineno)
    r.guard(3)
    return r


def _ancestors(m, n):
    p = m.parents.get(n)
    while p is not None:
        yield p
        p = m.parents.get(p)


def r3_numeric_key_order(repo=None, rid="C12.R3"):
    r = Rule(rid, "sample keys (stored as strings) are ordered numerically wherever an extreme key is taken")
    m = pyfront.mod("digital_metadata", repo)
    n_sites = 0
    for name, f in m.methods(R).items():
        q = "%s.%s" % (R, name)
        keyvars = set()
        for n in pyfront.walk_no_nested(f):
            if isinstance(n, ast.Assign) and len(n.targets) == 1 and isinstance(n.targets[0], ast.Name):
                src = ast.unparse(n.value)
                if ".keys()" in src and not any(k in src for k in ("int(", "np.int64", "fromiter", "astype")):
                    keyvars.add(n.targets[0].id)
        for c in pyfront.walk_no_nested(f):
            if not isinstance(c, ast.Call):
                continue
            d = pyfront.call_name(c) or ""
            target = None
            if isinstance(c.func, ast.Attribute) and c.func.attr == "sort" and isinstance(c.func.value, ast.Name) \
                    and c.func.value.id in keyvars:
                target = c.func.value.id
            elif d in ("sorted", "min", "max") and c.args and (
                    (isinstance(c.args[0], ast.Name) and c.args[0].id in keyvars) or ".keys()" in ast.unparse(c.args[0])):
                target = ast.unparse(c.args[0])
            if target is None:
                continue
            n_sites += 1
            key = pyfront.kwarg(c, "key")
            numeric = key is not None and (pyfront.dotted(key) in ("int", "np.int64", "np.uint64", "float") or (
                isinstance(key, ast.Lambda) and "int(" in ast.unparse(key)))
            site = "%s:%s %s `%s`" % (m.rel, c.lineno, q, norm(ast.unparse(c)))
            if numeric:
                r.ok(site, "string keys ordered by integer value")
            else:
                r.violation(m.rel, q, norm(ast.unparse(c)), "group names are ordered as strings: with indices of different digit "
                            "counts in one file ('999999995' > '1000000005') the first/last key is wrong, so the reported "
                            "bounds are wrong", line=c.lineno)
    # _add_metadata converts to int64 before sorting
    am = m.fn(R + "._add_metadata")
    src = ast.unparse(am)
    if "np.fromiter(keys, np.int64" in src and "idxs.sort()" in src:
        n_sites += 1
        r.ok("%s:%s %s._add_metadata" % (m.rel, am.lineno, R), "keys converted to int64 before sort()")
    else:
        r.violation(m.rel, R + "._add_metadata", "key ordering", "keys are not converted to integers before being sorted: "
                    "samples would be returned out of ascending index order", line=am.lineno)
    if n_sites < 3:
        raise AnalysisError("C12.R3: %d key-ordering sites found, 3 confirmed on the reference tree" % n_sites)
    r.guard(3)
    return r


def r5_recursive_shape(repo=None):
    r = Rule("C12.R5", "nested values are written and read by the same recursive shape; strings use one encoding")
    m = pyfront.mod("digital_metadata", repo)
    ri = m.fn("_recursive_items")
    rec = [c for c in pyfront.calls_in(ri, ("_recursive_items",))]
    ok = len(rec) == 1 and len(rec[0].args) >= 2 and norm(ast.unparse(rec[0].args[1])) in ("name + '/'",)
    if ok:
        r.ok("%s:%s _recursive_items" % (m.rel, ri.lineno), "sub-dictionaries are flattened with the prefix name + '/' (HDF5 nested groups)")
    else:
        r.violation(m.rel, "_recursive_items", norm(ast.unparse(rec[0]))[:80] if rec else "no recursion",
                    "nested dictionaries are not written as nested groups", line=ri.lineno)
    pd = m.fn(R + "._populate_data")
    top = [s for s in pd.body if isinstance(s, ast.If)]
    ok = False
    if top:
        t = top[0]
        ok = "isinstance(obj, h5py.Dataset)" in ast.unparse(t.test) and t.orelse and any(
            pyfront.call_name(c) == "self._populate_data" for s in t.orelse for c in ast.walk(s) if isinstance(c, ast.Call)) \
            and any(isinstance(s, ast.For) and "obj.items()" in ast.unparse(s.iter) for s in t.orelse)
    if ok:
        r.ok("%s:%s %s._populate_data" % (m.rel, pd.lineno, R), "datasets become values, groups are read recursively over obj.items()")
    else:
        r.violation(m.rel, R + "._populate_data", "dataset/group dispatch", "nested groups are not read back recursively", line=pd.lineno)
    decs = [c for c in ast.walk(pd) if isinstance(c, ast.Call) and isinstance(c.func, ast.Attribute) and c.func.attr == "decode"]
    for c in decs:
        enc = pyfront.const(c.args[0]) if c.args else pyfront.const(pyfront.kwarg(c, "encoding")) if c.keywords else None
        if enc is None or str(enc).lower().replace("-", "") == "utf8":
            r.ok("%s:%s %s._populate_data `%s`" % (m.rel, c.lineno, R, norm(ast.unparse(c))), "bytes decoded as UTF-8, the "
                 "encoding h5py stores str values with")
        else:
            r.violation(m.rel, R + "._populate_data", norm(ast.unparse(c)), "stored strings are decoded as %r but h5py stores str as "
                        "UTF-8: a non-ASCII value fails to decode and is returned as raw bytes instead of the written string" % enc,
                        line=c.lineno)
    w = m.fn(W + "._write")
    src = ast.unparse(w)
    if "if val is not None" in src and "data=''" in src:
        r.ok("%s:%s %s._write" % (m.rel, w.lineno, W), "None is written as the empty string on a single branch")
    else:
        r.violation(m.rel, W + "._write", "None handling", "None values are not stored as the empty string", line=w.lineno)
    r.guard(4)
    return r


def rules(repo=None):
    from . import c13
    return [lambda: r1_append_and_refuse(repo), lambda: r2_range_filter(repo), lambda: r3_numeric_key_order(repo),
            lambda: c13.r1_exact_placement(repo, rid="C12.R4"), lambda: r5_recursive_shape(repo)]


EXPLANATION = (
    "R1: the metadata data file is opened with mode 'a', sample groups are made with create_group inside a try whose "
    "ValueError handler raises, values are written only with create_dataset into the new group. R2: every _add_metadata call "
    "from read passes is_edge True, or False only for files strictly between the first and last of the list; the filter is "
    "the inclusive sample0 <= idx <= sample1. R3: every sort/min/max over the string keys of a file uses an integer key. "
    "R4: exact integer placement in writer and reader (C13.R1). R5: writer and reader use the same recursive shape and UTF-8. "
    "Does NOT decide value equality of arbitrary numpy/h5py conversions or the dict-of-arrays distribution rule.")
ASSUMPTIONS = ["h5py: create_group raises ValueError on an existing name; mode 'a' never truncates; str is stored as UTF-8"]
FILES = ["python/digital_rf/digital_metadata.py"]
