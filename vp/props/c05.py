"""C05 -- Write-once, forward-only recording with atomic rejection.

"Rejected and changes nothing" is an ordering statement: every input rejection happens before the first
persistent effect.  Decided on the CFGs of the C write path and of the Python writer methods.  Not decided:
that the guards' arithmetic is the right predicate (e.g. `<` vs `<=`).
"""
from __future__ import annotations

import ast

from ..core import Rule, AnalysisError, C_LIB, C_EXT, norm
from .. import cfront, clib, cfg as _cfg, pyfront

LIB = C_LIB
OBJ = clib.OBJ
WRITE_PATH = ["digital_rf_write_blocks_hdf5", "digital_rf_write_samples_to_file", "digital_rf_create_rf_data_index",
              "digital_rf_get_subdir_file", "digital_rf_get_global_sample"]
PURE_EXTERNAL = {"gmtime", "snprintf", "fprintf", "strcmp", "strlen", "assert", "__assert_fail", "printf", "fflush",
                 "free", "malloc", "exit", "strcpy", "strcat", "strstr", "H5Tget_size", "time", "H5Eprint2", "H5Eprint"}
ENV_EXTERNAL = {"access", "stat", "H5Tget_order", "H5Tget_class", "H5Tget_sign"}


def _node_of(g, ast_node):
    best = None
    for n in g.nodes:
        if n.ast is None or n.kind not in ("stmt", "cond", "return"):
            continue
        if n.ast.begin <= ast_node.begin and ast_node.end <= n.ast.end:
            if best is None or (n.ast.end - n.ast.begin) < (best.ast.end - best.ast.begin):
                best = n
    return best


def pure_functions(tu):
    """TU functions with no persistent effect and no environment probe, transitively."""
    eff = clib.may_effect(tu)
    g = clib.call_graph(tu)
    memo = {}

    def visit(f):
        if f in memo:
            return memo[f]
        memo[f] = True
        ok = not eff[f]
        for callee, c in g[f]:
            if callee in tu.functions:
                ok = ok and visit(callee)
            elif callee in ENV_EXTERNAL or callee in clib.EFFECT_CALLS or (callee or "").startswith("H5") and \
                    callee not in PURE_EXTERNAL:
                ok = False
        memo[f] = ok
        return ok

    for f in tu.functions:
        visit(f)
    return memo


def controlling_conditions(ret):
    """Condition expressions of the if/while/for statements enclosing `ret` (AST ancestors)."""
    out = []
    child = ret
    for a in ret.ancestors():
        if a.kind == "IfStmt":
            out.append(a.children[0])
        elif a.kind == "WhileStmt":
            out.append(a.children[0])
        elif a.kind == "ForStmt" and a.children[2].kind is not None:
            out.append(a.children[2])
        elif a.kind == "FunctionDecl":
            break
        child = a
    return out


def depends_on_environment(tu, fn, exprs, pure):
    """Do the expressions read a value produced by a non-pure call (I/O status, may-effect library function,
    environment probe)?  Flow-insensitive def-use over the function: a local is environment-dependent if any
    store to it (or any call taking its address) involves a non-pure callee, transitively."""
    def nonpure_call(c):
        if c.callee in tu.functions:
            return not pure[c.callee]
        return c.callee in ENV_EXTERNAL or c.callee in clib.EFFECT_CALLS or c.callee in (
            "H5Dwrite", "H5Dset_extent", "H5Sselect_hyperslab", "H5Dget_space", "H5Screate_simple", "mkdir")

    tainted = set()
    changed = True
    while changed:
        changed = False
        for path, node, rhs, kind in clib.stores(fn):
            if path is None or path in tainted or rhs is None:
                continue
            bad = any(nonpure_call(c) for c in rhs.calls()) or any(
                (x.kind == "DeclRefExpr" and x.ref in tainted) for x in rhs.walk())
            if bad:
                tainted.add(path)
                changed = True
        for c in fn.calls():
            if nonpure_call(c):
                for a in c.args:
                    s = a.strip(casts=True)
                    if s.kind == "UnaryOperator" and s.opcode == "&":
                        p = s.children[0].path()
                        if p and p not in tainted:
                            tainted.add(p)
                            changed = True
        for d in fn.find("VarDecl"):
            if d.children and d.name not in tainted:
                init = d.children[-1]
                if any(nonpure_call(c) for c in init.calls()):
                    tainted.add(d.name)
                    changed = True
    for e in exprs:
        if any(nonpure_call(c) for c in e.calls()):
            return True
        for x in e.walk():
            if x.kind == "DeclRefExpr" and x.ref in tainted:
                return True
    return False


ERROR_RETURN = {
    "digital_rf_write_blocks_hdf5": lambda v, src: v is not None and v != 0,
    "digital_rf_write_hdf5": lambda v, src: v is not None and v != 0,
    "digital_rf_write_samples_to_file": lambda v, src: v == 0,
    "digital_rf_create_rf_data_index": lambda v, src: "NULL" in src or v == 0,
    "digital_rf_get_subdir_file": lambda v, src: v is not None and v != 0,
}


def rejection_returns(tu, fname, pure):
    fn = tu.fn(fname)
    out = []
    for ret in fn.find("ReturnStmt"):
        v = ret.children[0].intval() if ret.children else None
        src = ret.nsrc
        if fname not in ERROR_RETURN or not ERROR_RETURN[fname](v, src):
            continue
        conds = controlling_conditions(ret)
        if fname == "digital_rf_create_rf_data_index":
            # the error convention is NULL + *rows_to_write = -1; `row_count == 0` returns NULL as success
            blk = ret.parent
            sets = [s for s in (blk.children if blk is not None else []) if s.kind == "BinaryOperator"
                    and s.opcode == "=" and (s.children[0].path() or "").endswith("rows_to_write")
                    and s.children[1].intval() == -1]
            if not sets:
                continue
        if not conds:
            continue
        env = depends_on_environment(tu, fn, conds, pure)
        out.append((ret, conds, env))
    return out


def r1_validate_before_effect_c(repo=None):
    r = Rule("C05.R1", "C write path: every input rejection precedes the first persistent effect (effects + must-pass)")
    tu = cfront.lib(repo)
    pure = pure_functions(tu)
    eff = clib.may_effect(tu)
    total = 0
    for fname in WRITE_PATH:
        if fname not in tu.functions:
            raise AnalysisError("write-path function %s not found" % fname)
        fn = tu.fn(fname)
        g = _cfg.build_c(fn)
        # effect nodes: direct effects and calls to may-effect library functions
        eff_nodes = set()
        for what, node in clib.direct_effects(fn):
            n = _node_of(g, node)
            if n is not None:
                eff_nodes.add(n.id)
        for c in fn.calls():
            if c.callee in tu.functions and eff[c.callee]:
                n = _node_of(g, c)
                if n is not None:
                    eff_nodes.add(n.id)
        rej = rejection_returns(tu, fname, pure)
        for ret, conds, env in rej:
            if env:
                continue
            total += 1
            rn = _node_of(g, ret)
            # reachable from an effect node without taking a loop back edge?
            srcs = [e for e in eff_nodes if rn.id in g.reach([e], skip_labels=("back",)) and e != rn.id]
            site = "%s:%s %s `%s` under `%s`" % (LIB, ret.line, fname, ret.nsrc, conds[0].nsrc[:60])
            if srcs:
                e0 = g.nodes[srcs[0]]
                r.violation(LIB, fname, "%s under %s after %s" % (ret.nsrc, conds[0].nsrc, e0.label[:60]),
                            "an input-rejection return is reachable after a persistent effect: a rejected call would "
                            "already have changed files or the writer's cursor", line=ret.line,
                            path=g.describe(g.path(srcs[0], rn.id, skip_labels=("back",)) or []))
            else:
                r.ok(site, "input rejection, not reachable from any effect node of the function")
    # completeness of the validation pass: the loop holding the per-block rejections visits every block
    fn = tu.fn("digital_rf_create_rf_data_index")
    rej = [x for x in rejection_returns(tu, fn.name, pure) if not x[2]]
    loops = {}
    for ret, conds, env in rej:
        for a in ret.ancestors():
            if a.kind == "ForStmt":
                loops.setdefault(a.begin, (a, []))[1].append(ret)
                break
    if not loops:
        raise AnalysisError("no validation loop found in digital_rf_create_rf_data_index")
    for _, (loop, rets) in loops.items():
        init, _, cond, inc, body = loop.children
        okform = False
        var = None
        i0 = init.strip()
        if i0.kind == "BinaryOperator" and i0.opcode == "=" and i0.children[1].intval() == 0:
            var = i0.children[0].path()
        c0 = cond.strip() if cond.kind else None
        if var and c0 is not None and c0.kind == "BinaryOperator" and c0.opcode == "<" and c0.children[0].path() == var \
                and c0.children[1].path() == "index_len":
            n0 = inc.strip()
            if n0.kind == "UnaryOperator" and n0.opcode == "++" and n0.children[0].path() == var:
                okform = True
        if not okform:
            raise AnalysisError("validation loop at %s:%s is not of the form for(i=0; i<index_len; i++): %s" % (
                LIB, loop.line, loop.nsrc[:60]))
        brk = [b for b in body.find("BreakStmt") if not any(
            a.kind in ("SwitchStmt", "ForStmt", "WhileStmt") and a is not loop and a.begin > loop.begin
            for a in b.ancestors())]
        other_writes = [n for p, n, rhs, k in clib.stores(body) if p == var]
        site = "%s:%s digital_rf_create_rf_data_index validation loop over all %d per-block rejections" % (
            LIB, loop.line, len(rets))
        if brk or other_writes:
            x = (brk or other_writes)[0]
            r.violation(LIB, fn.name, "validation loop exits early: %s" % x.nsrc,
                        "the loop that validates the block description can stop before all blocks were checked, so a "
                        "malformed later block is only rejected after earlier files were already written", line=x.line)
        else:
            r.ok(site, "visits every i in [0, index_len) (no break, loop variable not modified): the first per-file "
                       "iteration validates the whole call")
    # the validating function runs before any effect in write_samples_to_file on every path
    fn = tu.fn("digital_rf_write_samples_to_file")
    g = _cfg.build_c(fn)
    val = [_node_of(g, c).id for c in fn.calls(("digital_rf_create_rf_data_index",))]
    if not val:
        raise AnalysisError("digital_rf_create_rf_data_index call not found in digital_rf_write_samples_to_file")
    effn = []
    for what, node in clib.direct_effects(fn):
        effn.append(_node_of(g, node))
    for c in fn.calls():
        if c.callee in tu.functions and eff[c.callee]:
            effn.append(_node_of(g, c))
    bad = [n for n in effn if n.id in g.reach([g.entry.id], avoid=val)]
    if bad:
        r.violation(LIB, fn.name, "effect before block validation: %s" % bad[0].label[:60],
                    "a persistent effect can happen before the block description was validated", line=bad[0].line)
    else:
        r.ok("%s:%s %s" % (LIB, fn.line, fn.name), "every effect (%d nodes) is dominated by the validating call "
             "digital_rf_create_rf_data_index" % len(effn))
    if total < 12:
        raise AnalysisError("C05.R1: classifier found %d input-rejection returns, 12 were confirmed on the reference tree"
                            % total)
    r.allowed("digital_rf_write_blocks_hdf5: hdf5_data_object->chunk_size = chunk_size / H5Pset_chunk",
              "one-time tuning parameter on the in-memory property list set before validation; not data, not observable "
              "through the API (not in the effect table)")
    r.guard(14)
    return r


def _calls_named(node, name):
    return [c for c in pyfront.walk_no_nested(node) if isinstance(c, ast.Call) and pyfront.call_name(c) == name]


def r2_validate_before_effect_py(repo=None):
    r = Rule("C05.R2", "Python writer: every raise precedes the extension call; counters change only after it succeeded")
    m = pyfront.mod("digital_rf_hdf5", repo)
    spec = [("DigitalRFWriter.rf_write", "_py_rf_write_hdf5.rf_write", 1),
            ("DigitalRFWriter.rf_write_blocks", "_py_rf_write_hdf5.rf_block_write", 7)]
    for q, ext_name, min_guards in spec:
        fv = m.flat(q)
        fn = fv.fn()
        g = fv.cfg()
        E = [n for n in g.nodes if any(pyfront.call_name(c) == ext_name for c in pyfront.node_calls(n))]
        if len(E) != 1:
            raise AnalysisError("%s: expected exactly one call of %s, found %d" % (q, ext_name, len(E)))
        E = E[0]
        normal_after = g.reach([b for b, l in g.succ[E.id] if l != "exc"], skip_labels=())
        handlers = [b for b, l in g.succ[E.id] if l == "exc" and b != g.rexit.id]
        in_handler = g.reach(handlers) if handlers else set()
        before = g.reach([g.entry.id], avoid=[E.id])
        guards = 0
        for n in g.nodes:
            if n.kind == "raise":
                if n.id in before and n.id not in normal_after:
                    guards += 1
                    r.ok("%s:%s %s `%s`" % (m.rel, n.line, q, n.label[:50]), "rejection before the extension call")
                elif n.id in in_handler and n.id not in normal_after:
                    r.ok("%s:%s %s `%s`" % (m.rel, n.line, q, n.label[:50]),
                         "handler of the extension call's own failure (closed writer)")
                else:
                    r.violation(m.rel, q, n.label, "a raise is reachable after the extension call succeeded: the data is "
                                "on disk but the call reports rejection / counters are not updated", line=n.line)
        if guards < min_guards:
            raise AnalysisError("%s: %d pre-validation guards found, %d confirmed on the reference tree" % (
                q, guards, min_guards))
        for attr, node in pyfront.self_stores(fn):
            ns = [n for n in g.nodes if n.ast is node or (n.ast is not None and not isinstance(n.ast, ast.withitem)
                                                          and any(x is node for x in ast.walk(n.ast)))]
            for n in ns:
                if n.id in before or n.id in in_handler:
                    r.violation(m.rel, q, "self.%s stored before the extension call returned" % attr,
                                "writer state changes although the write may still be rejected", line=n.line)
                else:
                    r.ok("%s:%s %s self.%s" % (m.rel, n.line, q, attr), "stored only after the extension call succeeded")
        # the helpers called before E must not store self.*
        for c in pyfront.walk_no_nested(fn):
            if isinstance(c, ast.Call) and (pyfront.call_name(c) or "").startswith("self."):
                helper = "DigitalRFWriter." + pyfront.call_name(c)[5:]
                if helper in m.functions:
                    st = pyfront.self_stores(m.functions[helper])
                    if st:
                        r.violation(m.rel, helper, "self.%s stored in a pre-validation helper" % st[0][0],
                                    "writer state changes before the write was accepted", line=st[0][1].lineno)
                    else:
                        r.ok("%s:%s %s" % (m.rel, m.functions[helper].lineno, helper), "helper stores no self.* attribute")
    r.guard(16)
    return r


def r8_checks_read_the_array_that_is_written(repo=None):
    """'a rejected call changes nothing' needs the checks to be about the data that would be written: the writer normalises its
    array arguments first (`arr = self._cast_input_array(arr)`: interleaved I/Q reals become N complex samples, a list becomes an
    array) and validates the block description against the *normalised* length.  A length taken from the raw argument before the
    normalisation describes another object (2N reals for N samples): block offsets in [N, 2N) pass, the extension writes the
    earlier blocks and nothing rejects the call.  Reaching definitions on the CFG of rf_write / rf_write_blocks: for every name
    handed to the extension call, each read of its size (len(X), X.shape, X.size, X.ndim) anywhere in the method is reached by
    exactly the definitions that reach the call."""
    r = Rule("C05.R8", "sizes used in the checks are read from the arrays as they are handed to the extension (same reaching definitions)")
    m = pyfront.mod("digital_rf_hdf5", repo)
    n_sites = 0
    for q, ext_name in (("DigitalRFWriter.rf_write", "_py_rf_write_hdf5.rf_write"), ("DigitalRFWriter.rf_write_blocks", "_py_rf_write_hdf5.rf_block_write")):
        fn = m.fn(q)
        g = m.cfg(q)
        # the node that hands the arrays over: the extension function called in place, or passed to a private wrapper that calls it
        E = [n for n in g.nodes if n.ast is not None and not isinstance(n.ast, (ast.If, ast.For, ast.While, ast.Try, ast.With)) and any(
            isinstance(x, ast.Attribute) and pyfront.dotted(x) == ext_name for x in ast.walk(n.ast))]
        if len(E) != 1:
            raise AnalysisError("%s: the statement handing the arrays to %s was not found exactly once (%d)" % (q, ext_name, len(E)))
        E = E[0]
        call = [c for c in ast.walk(E.ast) if isinstance(c, ast.Call) and (pyfront.call_name(c) == ext_name or any(
            pyfront.dotted(a) == ext_name for a in c.args))]
        if not call:
            raise AnalysisError("%s: call with %s not recognised" % (q, ext_name))
        handed = [a.id for a in call[0].args if isinstance(a, ast.Name)]
        params = {a.arg for a in fn.args.args}

        def defs_of(v):
            out = [n.id for n in g.nodes if n.ast is not None and (
                (isinstance(n.ast, (ast.Assign, ast.AugAssign, ast.AnnAssign)) and any(
                    isinstance(x, ast.Name) and x.id == v and isinstance(x.ctx, ast.Store) for t in (
                        n.ast.targets if isinstance(n.ast, ast.Assign) else [n.ast.target]) for x in ast.walk(t)))
                or (isinstance(n.ast, ast.For) and any(isinstance(x, ast.Name) and x.id == v for x in ast.walk(n.ast.target))))]
            return out

        def reaching(v, node_id):
            ds = defs_of(v)
            out = set()
            for d in ds:
                if node_id in g.reach([b for b, l in g.succ[d] if l != "exc"], avoid=[x for x in ds if x != d]) or False:
                    out.add(d)
            if v in params and node_id in g.reach([g.entry.id], avoid=ds):
                out.add("<parameter>")
            return out
        for v in handed:
            at_call = reaching(v, E.id)
            for n in g.nodes:
                if n.ast is None or n.id == E.id:
                    continue
                own = list(c08_own(n))
                reads = [x for x in own if (isinstance(x, ast.Call) and pyfront.call_name(x) == "len" and x.args and isinstance(x.args[0], ast.Name)
                                            and x.args[0].id == v)
                         or (isinstance(x, ast.Attribute) and x.attr in ("shape", "size", "ndim") and isinstance(x.value, ast.Name) and x.value.id == v)]
                for x in reads:
                    n_sites += 1
                    here = reaching(v, n.id)
                    site = "%s:%s %s `%s`" % (m.rel, n.line, q, norm(ast.unparse(x)))
                    if here == at_call:
                        r.ok(site, "the size of `%s` as it is handed to the extension" % v)
                    else:
                        r.violation(m.rel, q, "%s read at line %s" % (norm(ast.unparse(x)), n.line), "the size is read from `%s` as defined at %s, "
                                    "the extension receives `%s` as defined at %s: the check describes another object than the one written "
                                    "(interleaved I/Q reals have twice the length of the samples they become), so a block description "
                                    "past the end of the data is accepted and partly written" % (
                                        v, sorted(str(g.nodes[d].line) if d != "<parameter>" else d for d in here), v,
                                        sorted(str(g.nodes[d].line) if d != "<parameter>" else d for d in at_call)), line=n.line)
    if n_sites < 3:
        raise AnalysisError("size reads of the arrays handed to the extension: %d found, 4 confirmed on the reference tree" % n_sites)
    r.guard(3)
    return r


def c08_own(n):
    """expression nodes evaluated by CFG node n itself (a compound statement's node stands for its header only)"""
    a = n.ast
    if isinstance(a, (ast.If, ast.While)):
        return ast.walk(a.test)
    if isinstance(a, ast.For):
        return ast.walk(a.iter)
    if isinstance(a, (ast.Try, ast.With, ast.FunctionDef)):
        return iter(())
    return ast.walk(a)


def r3_extension_reports_rejection(repo=None):
    r = Rule("C05.R3", "the extension turns every non-zero library result into a Python exception")
    tu = cfront.ext(repo)
    n = 0
    for fname in (cfront.ext_fn(tu, "rf_write"), cfront.ext_fn(tu, "rf_block_write")):
        fn = tu.fn(fname)
        g = _cfg.build_c(fn)
        for c in fn.calls(("digital_rf_write_hdf5", "digital_rf_write_blocks_hdf5")):
            n += 1
            cn = _node_of(g, c)
            use = clib.status_usage(c)
            site = "%s:%s %s %s" % (C_EXT, c.line, fname, c.callee)
            if not use.startswith("assigned:"):
                if use == "tested":
                    var = None
                else:
                    r.violation(C_EXT, fname, "%s result %s" % (c.callee, use), "library status not examined", line=c.line)
                    continue
            else:
                var = use.split(":", 1)[1]
                ok, where = clib.var_tested_after(fn, g, cn.id, var)
                if not ok:
                    r.violation(C_EXT, fname, "%s = %s(...) not tested" % (var, c.callee),
                                "a failed write can be reported as success", line=c.line, path=where)
                    continue
            # the first test of var after the call: its true branch must set an error and return NULL
            tests = [t for t in g.nodes if t.kind == "cond" and t.ast is not None and t.id in g.reach([cn.id])
                     and (clib._reads(t.ast, var) if var else t.id == cn.id)]
            tests = sorted(tests, key=lambda t: len(g.path(cn.id, t.id) or []))
            t = tests[0]
            e = t.ast.strip()
            lab = "T"
            if e.kind == "BinaryOperator":
                if e.opcode == "==" and e.children[1].intval() == 0:
                    lab = "F"
                elif e.opcode == "!=" and e.children[1].intval() == 0:
                    lab = "T"
                elif e.opcode == "<" and e.children[1].intval() == 0:
                    r.violation(C_EXT, fname, "%s tested with `< 0`" % var, "positive error codes would be reported as "
                                "success", line=t.line)
                    continue
            starts = [b for b, l in g.succ[t.id] if l == lab]
            # on the failure branch the status variable is non-zero: copies of it are too (feasible paths only)
            reach = clib.nonzero_reach(g, starts, [var] if var else [])
            seterr = [x.id for x in g.nodes if x.ast is not None and x.ast.calls(("PyErr_SetString", "PyErr_Format"))]
            rets = [x for x in g.nodes if x.kind == "return" and x.id in reach]
            good = rets and all(("NULL" in x.label or (x.ast.children and x.ast.children[0].intval() == 0)) for x in rets) \
                and not any(x.ast is not None and x.ast.calls(("Py_BuildValue",)) for x in g.nodes if x.id in reach) \
                and not any(x.id in (g.reach(starts, avoid=seterr) & reach) for x in rets)
            if good:
                r.ok(site, "non-zero result -> PyErr_SetString + return NULL on every path")
            else:
                r.violation(C_EXT, fname, "failure branch of %s" % c.callee, "a failed library write does not raise a "
                            "Python exception on every path (Python would advance its cursor)", line=t.line)
    if n < 3:
        raise AnalysisError("expected 3 library write calls in the extension, found %d" % n)
    r.guard(3)
    return r


def r4_forward_only_guard(repo=None):
    r = Rule("C05.R4", "the forward-only guard is present at the public C entry points")
    tu = cfront.lib(repo)
    fn = tu.fn("digital_rf_write_blocks_hdf5")
    g = _cfg.build_c(fn)
    guards = []
    for n in g.nodes:
        if n.kind == "cond" and n.ast is not None:
            e = n.ast.strip()
            if e.kind == "BinaryOperator" and e.opcode in ("<", ">", "<=", ">="):
                a, b = e.children[0].path(), e.children[1].path()
                if {a, b} == {"global_index_arr[0]", OBJ + "->global_index"}:
                    guards.append((n, e))
    loop_calls = [_node_of(g, c) for c in fn.calls(("digital_rf_write_samples_to_file",))]
    if not loop_calls:
        raise AnalysisError("digital_rf_write_samples_to_file call not found")
    if not guards:
        r.violation(LIB, fn.name, "no comparison of global_index_arr[0] with the cursor",
                    "writes at or before an index already written are not rejected at the entry", line=fn.line)
    for n, e in guards:
        a = e.children[0].path()
        before_lab = None
        if (e.opcode == "<" and a == "global_index_arr[0]") or (e.opcode == ">" and a != "global_index_arr[0]"):
            before_lab = "T"
        elif (e.opcode == ">=" and a == "global_index_arr[0]") or (e.opcode == "<=" and a != "global_index_arr[0]"):
            before_lab = "F"
        if before_lab is None:
            r.violation(LIB, fn.name, e.nsrc, "the forward-only guard has an unexpected comparison direction", line=n.line)
            continue
        starts = [b for b, l in g.succ[n.id] if l == before_lab]
        reach = g.reach(starts)
        rets = [x for x in g.nodes if x.kind == "return" and x.id in reach]
        dominated = all(lc.id not in g.reach([g.entry.id], avoid=[n.id]) for lc in loop_calls)
        rejects = rets and all((x.ast.children[0].intval() or 0) != 0 for x in rets) and not any(
            lc.id in reach for lc in loop_calls)
        if dominated and rejects:
            r.ok("%s:%s %s `%s`" % (LIB, n.line, fn.name, e.nsrc), "index before the cursor -> error return, dominates the "
                 "write loop")
        else:
            r.violation(LIB, fn.name, e.nsrc, "the forward-only guard does not reject before the write loop", line=n.line)
    f2 = tu.fn("digital_rf_write_hdf5")
    g2 = _cfg.build_c(f2)
    deleg = [_node_of(g2, c) for c in f2.calls(("digital_rf_write_blocks_hdf5",))]
    if not deleg:
        r.violation(LIB, f2.name, "no delegation to digital_rf_write_blocks_hdf5", "the contiguous write entry bypasses "
                    "the validated block path", line=f2.line)
    else:
        # every success return passes through the delegation
        ok = True
        for x in g2.nodes:
            if x.kind == "return" and x.id in g2.reach([g2.entry.id], avoid=[d.id for d in deleg]):
                v = x.ast.children[0].intval() if x.ast.children else None
                if v is None or v == 0:
                    ok = False
        other = [c for c in f2.calls() if c.callee in tu.functions and c.callee != "digital_rf_write_blocks_hdf5"]
        if ok and not other:
            r.ok("%s:%s %s" % (LIB, f2.line, f2.name), "delegates to digital_rf_write_blocks_hdf5 on every non-error path")
        else:
            r.violation(LIB, f2.name, "partial delegation", "digital_rf_write_hdf5 can succeed without going through the "
                        "validated block path", line=f2.line)
    r.guard(2)
    return r


def r5_existing_target_refused_first(repo=None):
    """'A write call that would place data at or before an index already written ... is rejected with an error and changes
    nothing ... later valid writes behave as if the rejected call had never been made.'  A write whose target file exists already (the
    finished file of an earlier session, or a tmp. file this writer did not create) is such a call.  In digital_rf_create_hdf5_file
    every refusal that follows an existence test (access / stat on a path) must come before any change of the writer: before the
    previous file is closed and published, before the sequence number advances and before the remembered sub-directory / file
    name are switched.  Decided on the CFG: no effect node (a store to a field of the writer object, a call that closes or
    publishes, creates a directory or a file) can reach the existence test."""
    r = Rule("C05.R5", "a write into a file that already exists is refused before the writer is changed in any way")
    tu = cfront.lib(repo)
    fn = tu.fn("digital_rf_create_hdf5_file")
    g = _cfg.build_c(fn)
    EFFECT_CALLS = ("digital_rf_close_hdf5_file", "digital_rf_create_new_directory", "H5Fcreate", "H5Dcreate2", "H5Dclose", "H5Fclose",
                    "H5Sclose", "H5Pclose", "rename", "remove", "unlink", "mkdir")
    effects = []
    for n in g.nodes:
        if n.ast is None or n.kind not in ("stmt", "cond", "return"):
            continue
        st = [path for path, node, rhs, kind in clib.stores(n.ast) if path and path.startswith(OBJ + "->")]
        cl = [c.callee for c in n.ast.calls(EFFECT_CALLS)]
        if st or cl:
            effects.append((n, (st + cl)[0]))
    tests = []
    for n in g.nodes:
        if n.kind == "cond" and n.ast is not None and n.ast.calls(("access", "stat", "lstat")):
            # the side on which a file was found leads to an error return
            for lab in ("T", "F"):
                starts = [b for b, l in g.succ[n.id] if l == lab]
                rets = [x for x in g.nodes if x.kind == "return" and x.id in g.reach(starts, avoid=[e_.id for e_, _ in effects])
                        and x.ast.children and x.ast.children[0].intval() not in (None, 0)]
                if rets:
                    tests.append(n)
                    break
    if not tests:
        raise AnalysisError("%s: no existence test leading to a refusal found (the test of the finished name was confirmed on the "
                            "reference tree)" % fn.name)
    import re as _re

    # which file a test probes: the composition of the path buffer at the test (clib.build_string), with the function's own
    # sub-directory / base name parameters identified with the writer's fields they are copied to when the file is entered
    # (strcpy(obj->basename, basename); sub_directory is `subdir` by the strcmp test or by digital_rf_create_new_directory(obj,
    # subdir)) - so a second test on a buffer of another name, built from the fields, is seen to probe the same file
    params = [p_.name for p_ in fn.children if p_.kind == "ParmVarDecl"]
    same = {}
    if len(params) >= 3:
        same = {"$" + params[1]: "<sub_directory>", "$" + params[2]: "<basename>"}

    def probed(n_):
        out = set()
        for c in n_.ast.calls(("access", "stat", "lstat")):
            if not c.args:
                continue
            text = _re.sub(r"\s", "", c.args[0].nsrc)
            try:
                pieces, _seen = clib.build_string(fn, c.args[0].path(), before=c)
                sh = clib.shape(pieces)
                if not sh or any(x.startswith("?") for x in sh):
                    raise AnalysisError("composition not followed")
                canon = []
                for x in sh:
                    for a_, b_ in same.items():
                        x = _re.sub(_re.escape(a_) + r"\b", b_, x)
                    canon.append(x)
                out.add("".join(canon))
            except AnalysisError:
                out.add(text)
                unfollowed.append(text)
        return out
    unfollowed = []
    for n in tests:
        before = [(e_, what) for e_, what in effects if e_.id != n.id and n.id in g.reach([e_.id], skip_labels=("back",))]
        site = "%s:%s %s `%s`" % (LIB, n.line, fn.name, n.label[:60])
        # the same path tested again later: every path to it has passed the earlier test, which refuses first - the second test can
        # only find a file that appeared in between (a concurrent writer), it is not where an existing target is refused
        earlier = [m_ for m_ in tests if m_ is not n and probed(m_) & probed(n) and n.id not in g.reach([g.entry.id], avoid=[m_.id])
                   and not [1 for e_, w_ in effects if e_.id != m_.id and m_.id in g.reach([e_.id], skip_labels=("back",))]]
        if before and earlier:
            r.ok(site, "repeats the test of line %d, which refuses an existing target before any change (this one can only see a file "
                 "created in between)" % earlier[0].line)
            continue
        if before and unfollowed and len(tests) > 1:
            # which file the tests probe was not established for all of them: "this is the test that refuses, and it comes late" is
            # not shown (it may repeat an earlier one)
            raise AnalysisError("%s: the composition of the probed path `%s` was not followed; whether the test at line %d repeats an earlier "
                                "one is not decided" % (fn.name, unfollowed[0][:40], n.line))
        if before:
            e_, what = sorted(before, key=lambda t: t[0].line)[0]
            r.violation(LIB, fn.name, "`%s` is tested after %s" % (n.label[:50], what),
                        "the refusal of a write whose target file exists comes after the writer was changed (line %d: %s): the file the "
                        "writer had open has been closed and published, the sequence number and the remembered names switched - a "
                        "partly written file is finalized by a rejected call and the next valid write into its period is refused" % (
                            e_.line, e_.label[:50]), line=n.line)
        else:
            r.ok(site, "nothing of the writer object has been changed when this existence test refuses the call")
    r.guard(1)
    return r


def r6_description_always_validated(repo=None):
    """'A write call ... whose block description is malformed ... is rejected with an error': the validation of the block arrays
    lives in the per-file write step, which the loop `while (samples_written < vector_length)` never enters for an empty vector.
    Every path of digital_rf_write_blocks_hdf5 to a success return passes the validating call or a test of the description made
    for the empty vector (a condition over index_len / data_index_arr under vector_length == 0)."""
    r = Rule("C05.R6", "no path of the public block write returns success without having looked at the block description")
    tu = cfront.lib(repo)
    fn = tu.fn("digital_rf_write_blocks_hdf5")
    g = _cfg.build_c(fn)
    val = [_node_of(g, c).id for c in fn.calls(("digital_rf_write_samples_to_file",))]
    if not val:
        raise AnalysisError("%s: call of the per-file write step not found" % fn.name)
    import re as _re
    # the test "is the vector empty": a condition on vector_length alone (== 0, < 1, !vector_length); it counts as a guard only if its
    # empty side goes on to a test of the offsets array that can end in an error return
    guards = []
    for n in g.nodes:
        if n.kind != "cond" or n.ast is None:
            continue
        t = _re.sub(r"\s", "", n.ast.nsrc)
        lab = {"vector_length==0": "T", "0==vector_length": "T", "vector_length<1": "T", "!vector_length": "T",
               "vector_length!=0": "F", "vector_length>0": "F", "vector_length": "F"}.get(t)
        if lab is None:
            continue
        side = g.reach([b_ for b_, l_ in g.succ[n.id] if l_ == lab], skip_labels=("exc",))
        descr = [m_ for m_ in g.nodes if m_.kind == "cond" and m_.ast is not None and m_.id in side and "data_index_arr" in m_.ast.nsrc]
        errs = [x for x in g.nodes if x.kind == "return" and x.ast.children and x.ast.children[0].intval() not in (None, 0)
                and any(x.id in g.reach([b_ for b_, _l in g.succ[m_.id]], skip_labels=("exc",)) for m_ in descr)]
        if descr and errs:
            guards.append(n.id)
    succ = [x for x in g.nodes if x.kind == "return" and x.ast.children and x.ast.children[0].intval() == 0]
    if not succ:
        raise AnalysisError("%s: success return not found" % fn.name)
    reach = g.reach([g.entry.id], avoid=val + guards, skip_labels=("exc",))
    bare = [x for x in succ if x.id in reach]
    if bare:
        r.violation(LIB, fn.name, "return(0) reachable without digital_rf_write_samples_to_file and without a test of the description",
                    "with an empty data vector the write loop does not run and the call returns success for any block description - "
                    "first offset not 0, non-increasing indices, overlapping blocks, offsets past the end - which the Python writer "
                    "rejects with ValueError", line=bare[0].line)
    else:
        r.ok("%s:%s %s" % (LIB, succ[0].line, fn.name), "every path to return(0) passes the per-file validation or the empty-vector "
             "test of the description (%d guard condition(s))" % len(guards))
    r.guard(1)
    return r


CURSOR_OWNERS = ("digital_rf_create_write_hdf5", "digital_rf_write_samples_to_file")


def r7_cursor_has_one_owner(repo=None, rid="C05.R7"):
    """'write-once, forward-only': the library's write cursor (global_index) is what makes a write "at or before an index already
    written" recognisable.  It is set once by the constructor and advanced by the per-file write step after the data and the index
    of that file are written; no other function stores it.  A caller that saves it on entry and puts it back when a later part
    of the call fails makes the part already written writable again: the repeated call appends the same samples a second time,
    and the finalized file's block index is no longer strictly increasing (who-may-write table, owners frozen from the
    reference tree; static helpers are inlined into their callers before the table is read)."""
    r = Rule(rid, "the write cursor is stored only by its owners (constructor, per-file write step)")
    tu = cfront.lib(repo)
    n = 0
    for fname, fn in tu.functions.items():
        for path, node, rhs, kind in clib.stores(fn):
            if path != OBJ + "->global_index":
                continue
            n += 1
            site = "%s:%s %s `%s`" % (LIB, node.line, fname, node.nsrc[:60])
            if fname in CURSOR_OWNERS:
                r.ok(site, "store by an owner of the cursor")
            else:
                r.violation(LIB, fname, node.nsrc[:80], "the write cursor is stored outside its owners: putting it back (or moving it) from a "
                            "caller makes samples that are already in a file writable again - a repeated call appends them a second time and "
                            "the finalized file's block index describes overlapping blocks", line=node.line)
    if n < 2:
        raise AnalysisError("stores of the write cursor not found (%d; 4 confirmed on the reference tree)" % n)
    r.guard(2)
    return r


def r9_cursor_anchored_with_the_offset(repo=None):
    """'write-once, forward-only': the cursor (global_index) must end a call one past the last sample stored.  When the per-file
    step continues in the open, unchunked file it re-positions the data-set offset *by the sample of this write*
    (dataset_index = capacity - samples left: a forward skip inside the file) and later advances the cursor *relative* to its old
    value.  That is right only if the cursor was anchored to the same sample first: otherwise it lags behind after a skip and a
    later write at or before samples already stored is accepted and overwrites them.  On the CFG: no path from an absolute store
    of dataset_index in this function reaches a relative advance of global_index without an absolute store of global_index from
    the sample of this write."""
    r = Rule("C05.R9", "where the per-file step re-positions the data-set offset by the sample, it anchors the cursor to it before advancing it relatively")
    tu = cfront.lib(repo)
    fn = tu.fn("digital_rf_write_samples_to_file")
    F = fn.name
    g = _cfg.build_c(fn)
    nm = fn.calls(("digital_rf_get_subdir_file",))
    if len(nm) != 1 or len(nm[0].args) < 2:
        raise AnalysisError("%s: the call of digital_rf_get_subdir_file was not found exactly once" % F)
    sample = nm[0].args[1].strip(casts=True).path()
    D, G, A = [], [], []
    for path, node, rhs, kind in clib.stores(fn):
        if rhs is None or path not in (OBJ + "->dataset_index", OBJ + "->global_index"):
            continue
        nd = _node_of(g, node)
        if nd is None:
            continue
        reads_self = any(x.kind == "MemberExpr" and x.path() == path for x in rhs.walk())
        if path.endswith("dataset_index"):
            if kind == "=" and not reads_self:
                D.append((nd, node))
        elif kind != "=" or reads_self:
            A.append((nd, node))
        else:
            lf = clib.linform(rhs)
            if lf is not None and sample is not None and lf.get(sample) == 1 and set(lf) <= {sample, 1}:
                G.append((nd, node))
    if not D:
        raise AnalysisError("%s: no absolute store of dataset_index found (the re-positioning inside the open file was confirmed on "
                            "the reference tree)" % F)
    if not A:
        r.ok("%s:%s %s" % (LIB, fn.line, F), "the cursor is never advanced relative to its old value")
        r.guard(1)
        return r
    unanchored = g.reach([g.entry.id], avoid=[x.id for x, _ in G], skip_labels=("back",))
    for nd, node in D:
        # a path entry -> this store -> relative advance that passes no anchoring store, before or after it
        reach = g.reach([b for b, l in g.succ[nd.id]], avoid=[x.id for x, _ in G], skip_labels=("back",)) if nd.id in unanchored else set()
        hit = [(x, n_) for x, n_ in A if x.id in reach]
        site = "%s:%s %s `%s`" % (LIB, node.line, F, node.nsrc[:60])
        if hit:
            x, n_ = hit[0]
            r.violation(LIB, F, "%s ... %s" % (node.nsrc[:50], n_.nsrc[:50]), "the data-set offset is re-positioned by the sample of this write "
                        "(line %d) but the cursor is advanced relative to its old value (line %d) without having been set to `%s`: "
                        "after a write that skips forward inside the open file the cursor stays behind the samples stored, and a "
                        "later write at or before them is accepted and overwrites them" % (node.line, n_.line, sample), line=n_.line)
        else:
            r.ok(site, "every path to a relative advance of the cursor passes `global_index = %s`" % sample)
    r.guard(1)
    return r


def rules(repo=None):
    return [lambda: r9_cursor_anchored_with_the_offset(repo), lambda: r7_cursor_has_one_owner(repo), lambda: r8_checks_read_the_array_that_is_written(repo), lambda: r5_existing_target_refused_first(repo), lambda: r6_description_always_validated(repo), lambda: r1_validate_before_effect_c(repo), lambda: r2_validate_before_effect_py(repo),
            lambda: r3_extension_reports_rejection(repo), lambda: r4_forward_only_guard(repo)]


EXPLANATION = (
    'R9: in the per-file write step no path from an absolute store of dataset_index (re-positioning by the sample inside the open '
    'file) reaches a relative advance of global_index without the absolute store global_index = <sample of this write>. '
    'Ordering check. R1: in the C write path, error returns are classified by def-use as input rejections (their '
    'controlling conditions read only parameters, cursor/config fields and results of effect-free functions) and none is '
    'reachable from a persistent effect (file-system/HDF5 mutators, cursor-field stores, calls of may-effect functions) '
    "without crossing the per-file loop's back edge; the validation loop visits every block; the validating call "
    'dominates every effect. R2: in DigitalRFWriter.rf_write/rf_write_blocks every raise precedes the extension call (or '
    'is its own failure handler) and every self.* store follows its normal exit. R3: the extension maps every non-zero '
    'library result to an exception. R4: the forward-only comparison guards the write loop. R5: in '
    'digital_rf_create_hdf5_file no effect node (store to a field of the writer object, close / publish / create call) '
    "can reach an existence test whose 'found' side refuses the call - a write into a file that already exists is refused"
    ' before anything is changed (a later repetition of the same test is the race window only). R6: every path of '
    'digital_rf_write_blocks_hdf5 to return(0) passes the per-file validation or, for an empty vector, a test of the '
    'offsets array that can end in an error. R7: who-may-store table of the write cursor (global_index): the constructor '
    'and the per-file write step only; a caller that puts the cursor back after a partial write makes written samples '
    'writable again (C06: the repeated call appends them a second time). R8: reaching definitions on rf_write / '
    'rf_write_blocks - every size read (len(X), X.shape, X.size, X.ndim) of an array handed to the extension is reached '
    'by exactly the definitions that reach the hand-over (a length taken before the input cast describes another object).'
    ' Does NOT decide that the predicates are arithmetically right.')
TECHNIQUE = ('clang JSON AST + Python ast; CFG reachability between effects and input-rejection returns; effect summaries over the call tree; dominance')
ASSUMPTIONS = ["the effect table (clib.EFFECT_CALLS, cursor fields) is complete for this library",
               "gmtime/snprintf/strcmp are effect-free", "clang 14 AST and CPython ast are faithful"]
FILES = [C_LIB, C_EXT, "python/digital_rf/digital_rf_hdf5.py"]
