"""C15 -- Live event filter agrees with listing; finalizing rename is a creation.

Decides: the handler registers only list_drf's grammar constants, handler and listing kind tables select the same
language on the property's domain for every flag row, tmp. files and directories never pass, move events are
converted to creation/deletion, the time window is inclusive on the name timestamp.
Not decided: that the listing's window arithmetic (C14, value-level) is the same inclusive window.
"""
from __future__ import annotations

import ast
import itertools

from ..core import Rule, AnalysisError, norm
from .. import pyfront, dtable, cfold, rx, pyutil
from . import c14

WD = "python/digital_rf/watchdog_drf.py"
H = "DigitalRFEventHandler"
RE_NAMES = ("RE_DMD", "RE_DMDPROP", "RE_DRF", "RE_DRFDMD", "RE_DRFDMDPROP", "RE_DRFPROP")


def handler_table(repo=None):
    """{(include_drf, include_dmd, include_drf_properties, include_dmd_properties): (names of the regexes handed to the base
    class, raised?)} by abstract execution of the constructor (private module functions and constant tables followed)"""
    m = pyfront.mod("watchdog_drf", repo)
    f = m.fn(H + ".__init__")
    body = [s for s in f.body if not (isinstance(s, ast.Expr) and isinstance(s.value, ast.Constant))]
    sup = [c for c in ast.walk(f) if isinstance(c, ast.Call) and pyfront.call_name(c) == "super().__init__"]
    if len(sup) != 1 or pyfront.kwarg(sup[0], "regexes") is None:
        raise AnalysisError("%s.__init__: super().__init__(regexes=...) not found" % H)
    rx_arg = pyfront.kwarg(sup[0], "regexes")
    sup_stmt = m.enclosing(sup[0], (ast.stmt,))
    out = {}
    for idrf, idmd in itertools.product((True, False), repeat=2):
        for pdrf, pdmd in itertools.product((True, False, None), repeat=2):
            it = dtable.Interp({"include_drf": idrf, "include_dmd": idmd, "include_drf_properties": pdrf,
                                "include_dmd_properties": pdmd, "starttime": None, "endtime": None, "ignore_regexes": None}, module=m)
            it.run(body, stop_at=lambda s_: s_ is sup_stmt)
            names = ()
            if not it.raised:
                v = it.ev(rx_arg)
                if not isinstance(v, list):
                    raise AnalysisError("%s.__init__: value of the regexes argument not evaluated (%r)" % (H, v))
                names = tuple(x[1] if isinstance(x, tuple) and len(x) == 2 and x[0] == "sym" else str(x) for x in v)
            out[(idrf, idmd, pdrf, pdmd)] = (names, it.raised)
    return m, f, out


def r1_same_constants(repo=None):
    r = Rule("C15.R1", "every regex the event handler registers is one of list_drf's grammar constants")
    m, f, table = handler_table(repo)
    imported = set()
    for s in m.tree.body:
        if isinstance(s, ast.ImportFrom) and s.level == 1 and s.module == "list_drf":
            imported |= {a.asname or a.name for a in s.names}
    # no rebinding of the constants at module level
    rebound = [n for n in RE_NAMES if m.module_assign(n) is not None]
    used = sorted({n for names, raised in table.values() for n in names})
    if not used:
        raise AnalysisError("%s.__init__: no registered regex found in any configuration" % H)
    for name in used:
        base = name.split(".")[-1]
        if base in RE_NAMES and (name in imported or name.startswith("list_drf.")) and base not in rebound:
            r.ok("%s %s.__init__ registers %s" % (m.rel, H, name), "constant imported from list_drf")
        else:
            r.violation(m.rel, H + ".__init__", "registers `%s`" % name, "the event filter uses a regular expression that is not one of "
                        "the listing's grammar constants", line=f.lineno)
    r.ok("%s %s.__init__" % (m.rel, H), "the value of super().__init__(regexes=...) was evaluated for all 36 flag rows")
    r.guard(7)
    return r


def spaces(repo=None):
    f = cfold.Folder(repo)
    pats = {n: f.name("list_drf", n) for n in RE_NAMES}
    for n in ("_RE_FILE", "_RE_DRFFILE", "_RE_DMDFILE", "_RE_PROPFILE", "_RE_DRFPROPFILE", "_RE_DMDPROPFILE", "RE_SUBDIR"):
        pats[n] = f.name("list_drf", n)
    sub = pats["RE_SUBDIR"]
    # listing composition on paths: <anything>/<SUBDIR>/<file regex without its leading ^>
    def strip(p):
        return p[1:] if p.startswith("^") else p
    for k in ("_RE_FILE", "_RE_DRFFILE", "_RE_DMDFILE"):
        pats["LIST" + k] = r"[^\n]*/" + _nogroups(sub) + "/" + _nogroups(strip(pats[k]))
    for k in ("_RE_PROPFILE", "_RE_DRFPROPFILE", "_RE_DMDPROPFILE"):
        pats["LIST" + k] = r"[^\n]*/" + _nogroups(strip(pats[k]))
    pats["D_FILE0"] = r"[^\n]*/" + _nogroups(sub) + r"/[^/\n]+$"
    # ... with no other path component matching the sub-directory grammar (the property's domain)
    pats["D_TWOSUB"] = r"(?:[^\n]*/)?" + _nogroups(sub) + r"/(?:[^\n]*/)?" + _nogroups(sub) + r"/[^/\n]+$"
    pats["D_PROP"] = r"[^\n]*/[^/\n]+$"
    pats["TMPFILE"] = r"[^\n]*/tmp\.[^/\n]*$"
    sp = rx.Space(pats, texts=["tmp.rf@drf_properties.h5metadata_dmd/\n0123456789-T"])
    # the domain is every path whose last two components are <sub-directory>/<file name>; an *ancestor* that also looks like a
    # sub-directory (a top directory named by an experiment start time) is inside the domain: a first version excluded such paths
    # as "not the format's depth" and thereby hid that the `name` group could span separators, so that
    # <SUBDIR>/x/<SUBDIR>/tmp.rf@0.000.h5 passed the filter with name = 'x/<SUBDIR>/tmp.rf'
    sp.langs["D_FILE"] = sp.langs["D_FILE0"]
    # the listing applies the file regex to a name returned by os.listdir, i.e. to ONE path component
    for k in ("_RE_FILE", "_RE_DRFFILE", "_RE_DMDFILE"):
        sp.langs["LIST" + k] = sp.langs["LIST" + k] & sp.langs["D_FILE0"]
    return sp, pats


def _nogroups(p):
    """drop group names so that a pattern can be used twice in one regex"""
    import re
    return re.sub(r"\(\?P<\w+>", "(?:", p)


PAIR = {"RE_DRF": "_RE_DRFFILE", "RE_DMD": "_RE_DMDFILE", "RE_DRFDMD": "_RE_FILE",
        "RE_DRFPROP": "_RE_DRFPROPFILE", "RE_DMDPROP": "_RE_DMDPROPFILE", "RE_DRFDMDPROP": "_RE_PROPFILE"}


def r2_tables_agree(repo=None):
    r = Rule("C15.R2", "for every flag row the handler's language equals the listing's on the property's domain (dtable + rx)")
    m, f, ht = handler_table(repo)
    lm, ym, ft = c14.file_table(repo)
    _, il, pt = c14.prop_table(repo)
    sp, pats = spaces(repo)
    L = sp.langs
    # (A) each path regex of the handler equals, on the property's domain, the listing's composition with the
    #     file-name regex it corresponds to
    for wname, lname in sorted(PAIR.items()):
        dom = L["D_PROP"] if wname.endswith("PROP") else L["D_FILE"]
        ok, a1, b1 = (L[wname] & dom).equals(L["LIST" + lname] & dom)
        if ok:
            r.ok("list_drf.%s vs <dir>/%s%s" % (wname, "" if wname.endswith("PROP") else "<SUBDIR>/", lname),
                 "equal languages on the domain (file %s, no newline)" % (
                     "directly in a directory" if wname.endswith("PROP") else "at the format's depth"))
        else:
            w = a1 if a1 is not None else b1
            side = "accepted by the event filter but never listed" if a1 is not None else "listed but rejected by the event filter"
            r.violation("python/digital_rf/list_drf.py", "-", "%s vs listing with %s" % (wname, lname),
                        "event filter and listing disagree: path %r is %s" % (w, side))
    # (B) name-level tables: for each of the 36 flag rows the handler registers exactly the counterparts of the
    #     regexes the listing selects
    inv = {v: k for k, v in PAIR.items()}
    nrows = 0
    bad = 0
    for key, (regs, raised) in sorted(ht.items(), key=str):
        idrf, idmd, pdrf, pdmd = key
        nrows += 1
        fsel = ft[(idrf, idmd, True, True)]
        psel = pt[key]
        want = tuple(x for x in (inv.get(fsel), inv.get(psel)) if x)
        got = tuple(n.split(".")[-1] for n in regs)
        row = "include_drf=%s include_dmd=%s drf_properties=%s dmd_properties=%s" % key
        if (not want and raised and not got) or (got == want and not raised):
            continue
        bad += 1
        r.violation(WD, H + ".__init__", row + " -> %s, listing selects (%s, %s)" % (list(got), fsel, psel),
                    "the event filter registers %s where a listing with the same flags uses %s: events of an excluded kind are "
                    "delivered or requested ones dropped" % (list(got), list(want)), line=f.lineno)
    if nrows != 36:
        raise AnalysisError("expected 36 flag rows, evaluated %d" % nrows)
    if not bad:
        r.ok("%s:%s %s.__init__ kind table" % (m.rel, f.lineno, H), "all 36 flag rows register exactly the path regexes corresponding to "
             "the file/properties regexes the listing selects (none requested -> ValueError)")
    r.note("outside the domain (file not at the format's depth) RE_DRF-style regexes accept more than the listing; the property "
           "excludes such paths; watchdog compiles with re.IGNORECASE by default, the property restricts fixed parts to lower case")
    r.guard(7)
    return r


def r3_no_tmp_no_dirs(repo=None):
    r = Rule("C15.R3", "tmp. files and directories never pass the event filter")
    sp, pats = spaces(repo)
    L = sp.langs
    for n in RE_NAMES:
        w = (L[n] & L["D_FILE"] & L["TMPFILE"]).witness()
        w2 = (L[n] & L["D_PROP"] & L["TMPFILE"]).witness() if "PROP" in n else None
        if w is None and w2 is None:
            r.ok("list_drf.%s" % n, "no path at format depth whose file name starts with tmp. is accepted")
        else:
            r.violation("python/digital_rf/list_drf.py", "-", "%s = %s" % (n, pats[n][:60]), "an in-progress file passes the event filter "
                        "(witness %r)" % (w or w2))
    m = pyfront.mod("watchdog_drf", repo)
    f = m.fn(H + ".__init__")
    sup = [c for c in ast.walk(f) if isinstance(c, ast.Call) and pyfront.call_name(c) == "super().__init__"]
    if sup and pyfront.const(pyfront.kwarg(sup[0], "ignore_directories")) is True:
        r.ok("%s:%s %s.__init__" % (m.rel, sup[0].lineno, H), "ignore_directories=True")
    else:
        r.violation(m.rel, H + ".__init__", "ignore_directories", "directory events are not ignored", line=f.lineno)
    g = m.cfg(H + ".dispatch")
    # the directory test is reached from the entry before any call, and its true side is a plain return
    def own_calls(n):
        a = n.ast
        if a is None:
            return False
        e = a.test if isinstance(a, (ast.If, ast.While)) else (a.iter if isinstance(a, ast.For) else a)
        return not isinstance(e, (ast.Try, ast.With, ast.FunctionDef)) and any(isinstance(x, ast.Call) for x in ast.walk(e))
    calls_ = [n.id for n in g.nodes if own_calls(n)]
    early = g.reach([g.entry.id], avoid=calls_, skip_labels=("exc",))
    dirt = [n for n in g.nodes if n.kind == "cond" and n.ast is not None and norm(ast.unparse(n.ast)) == "event.is_directory" and n.id in early]
    first = dirt
    byid = {n.id: n for n in g.nodes}

    def first_real(i):
        seen = set()
        while byid[i].kind == "join" and i not in seen:
            seen.add(i)
            nxt = [b for b, lab in g.succ[i] if lab != "exc"]
            if len(nxt) != 1:
                break
            i = nxt[0]
        return byid[i]
    drops = [n for n in dirt if any(first_real(b).kind == "return" for b, lab in g.succ[n.id] if lab == "T")]
    if drops:
        r.ok("%s:%s %s.dispatch" % (m.rel, first[0].line, H), "returns before any matching when the event is for a directory")
    else:
        r.violation(m.rel, H + ".dispatch", "directory test", "dispatch does not drop directory events first", line=m.fn(H + ".dispatch").lineno)
    r.guard(8)
    return r


def _dispatch_flags(m, f):
    """The two locals of dispatch whose truthiness records whether the source / destination path matched: assigned under an
    `if` on event.src_path (resp. dest_path) and tested outside it.  Also returns every local worth tracking."""
    tested = set()
    for n in ast.walk(f):
        if isinstance(n, (ast.If, ast.While, ast.IfExp, ast.BoolOp, ast.UnaryOp, ast.Compare)):
            for x in ast.walk(n.test if hasattr(n, "test") else n):
                if isinstance(x, ast.Name):
                    tested.add(x.id)
    cand = {"src": set(), "dest": set()}
    ctx_of = {}
    # a local assigned exactly once (outside any `if`) stands for its value in a test: `has_dest = bool(getattr(event, 'dest_path', None))`
    once = {}
    for n in ast.walk(f):
        if isinstance(n, ast.Assign) and len(n.targets) == 1 and isinstance(n.targets[0], ast.Name):
            once.setdefault(n.targets[0].id, []).append(n)
    once = {k: v[0].value for k, v in once.items() if len(v) == 1 and not any(isinstance(a, (ast.If, ast.For, ast.While, ast.Try)) for a in _ancestors(m, v[0]))}

    def test_text(t):
        from .. import pysym
        return norm(ast.unparse(pysym.subst(t, once)))
    for n in ast.walk(f):
        if isinstance(n, ast.Assign) and len(n.targets) == 1 and isinstance(n.targets[0], ast.Name):
            ifs = [a for a in _ancestors(m, n) if isinstance(a, ast.If)]
            ctx = " ".join(test_text(a.test) for a in ifs)
            kind = "dest" if "dest_path" in ctx else "src" if "src_path" in ctx else None
            if kind:
                cand[kind].add(n.targets[0].id)
                ctx_of.setdefault(n.targets[0].id, set()).add(kind)

    def tested_outside(name, kind):
        for n in ast.walk(f):
            if isinstance(n, ast.If) and any(isinstance(x, ast.Name) and x.id == name for x in ast.walk(n.test)):
                ctx = " ".join(test_text(a.test) for a in _ancestors(m, n) if isinstance(a, ast.If))
                key = "dest_path" if kind == "dest" else "src_path"
                if key not in ctx or (kind == "src" and "dest_path" in ctx):
                    return True
        return False
    params = {a.arg for a in f.args.args + f.args.kwonlyargs}
    S = sorted(v for v in cand["src"] if ctx_of[v] == {"src"} and v not in params and tested_outside(v, "src"))
    D = sorted(v for v in cand["dest"] if ctx_of[v] == {"dest"} and v not in params and tested_outside(v, "dest"))
    # primary definition, independent of the nesting: the local assigned from a call that is handed the event's source (resp.
    # destination) path - directly, through getattr, or through a local holding it
    def path_of(e, depth=0):
        if isinstance(e, ast.Attribute) and isinstance(e.value, ast.Name) and e.value.id == "event" and e.attr in ("src_path", "dest_path"):
            return e.attr
        if isinstance(e, ast.Call) and pyfront.call_name(e) == "getattr" and len(e.args) >= 2 and isinstance(e.args[0], ast.Name) \
                and e.args[0].id == "event" and pyfront.const(e.args[1]) in ("src_path", "dest_path"):
            return pyfront.const(e.args[1])
        if isinstance(e, ast.Name) and depth < 3:
            defs = [a.value for a in ast.walk(f) if isinstance(a, ast.Assign) and any(isinstance(t, ast.Name) and t.id == e.id for t in a.targets)]
            if len(defs) == 1:
                return path_of(defs[0], depth + 1)
        return None
    by_call = {"src_path": set(), "dest_path": set()}
    for n in ast.walk(f):
        if isinstance(n, ast.Assign) and len(n.targets) == 1 and isinstance(n.targets[0], ast.Name) and isinstance(n.value, ast.Call) \
                and (pyfront.call_name(n.value) or "").startswith("self."):
            for a in n.value.args:
                pth = path_of(a)
                if pth:
                    by_call[pth].add(n.targets[0].id)
    if len(by_call["src_path"]) == 1 and len(by_call["dest_path"]) == 1 and by_call["src_path"] != by_call["dest_path"]:
        S, D = sorted(by_call["src_path"]), sorted(by_call["dest_path"])
    # a match flag holds truth values: a local that is ever assigned the event itself or a newly built event is not one
    def flaglike(v):
        for n in ast.walk(f):
            if isinstance(n, ast.Assign) and any(isinstance(t, ast.Name) and t.id == v for t in n.targets):
                val = n.value
                if (isinstance(val, ast.Name) and val.id == "event") or (isinstance(val, ast.Call) and (pyfront.call_name(val) or "").endswith("Event")):
                    return False
        return True
    S = [v for v in S if flaglike(v)]
    D = [v for v in D if flaglike(v)]
    track = set()
    for n in ast.walk(f):
        if isinstance(n, ast.Assign) and len(n.targets) == 1 and isinstance(n.targets[0], ast.Name):
            track.add(n.targets[0].id)
    return (S[0] if len(S) == 1 else None), (D[0] if len(D) == 1 else None), sorted(track & (tested | set(S) | set(D) | {
        x.id for n in ast.walk(f) if isinstance(n, ast.Assign) and isinstance(n.value, ast.Name) for x in [n.value]}))


def _ancestors(m, n):
    p = m.parents.get(n)
    while p is not None:
        yield p
        p = m.parents.get(p)


def r4_move_conversion(repo=None):
    r = Rule("C15.R4", "a rename into the grammar is delivered as creation, a rename out of it as deletion")
    m = pyfront.mod("watchdog_drf", repo)
    q = H + ".dispatch"
    fvw = m.flat(q)
    f = fvw.fn()
    g = fvw.cfg()
    S, D, track = _dispatch_flags(fvw, f)
    if not S or not D or S == D:
        raise AnalysisError("%s: the source-matched / destination-matched flags were not recognised (%s, %s)" % (q, S, D))
    IN, idx = pyutil.truth_states(g, track)
    IN = {k: {tuple({"T": True, "F": False}.get(x, None if x is None else False) if False else x for x in st) for st in v} for k, v in IN.items()}

    def path_of(e, depth=0):
        """'src_path' / 'dest_path' when e is that attribute of the event, directly, as getattr(event, '<attr>', ...) or through a
        local assigned once from one of these"""
        if isinstance(e, ast.Attribute) and isinstance(e.value, ast.Name) and e.value.id == "event" and e.attr in ("src_path", "dest_path"):
            return e.attr
        if isinstance(e, ast.Call) and pyfront.call_name(e) == "getattr" and len(e.args) >= 2 and isinstance(e.args[0], ast.Name) \
                and e.args[0].id == "event" and pyfront.const(e.args[1]) in ("src_path", "dest_path"):
            return pyfront.const(e.args[1])
        if isinstance(e, ast.Name) and depth < 3:
            defs = [a.value for a in ast.walk(f) if isinstance(a, ast.Assign) and any(isinstance(t, ast.Name) and t.id == e.id for t in a.targets)]
            if len(defs) == 1:
                return path_of(defs[0], depth + 1)
        return None

    def nodes_assigning(call, attr):
        # the converted event: assigned to any local (the event name itself, or the value an inlined helper hands back)
        return [n for n in g.nodes if isinstance(n.ast, ast.Assign) and isinstance(n.ast.value, ast.Call)
                and pyfront.call_name(n.ast.value) == call and n.ast.value.args and path_of(n.ast.value.args[0]) == attr
                and isinstance(n.ast.targets[0], ast.Name)]
    dels = nodes_assigning("FileDeletedEvent", "src_path")
    cres = nodes_assigning("FileCreatedEvent", "dest_path")
    wrong = [n for n in g.nodes if isinstance(n.ast, ast.Assign) and isinstance(n.ast.value, ast.Call)
             and pyfront.call_name(n.ast.value) in ("FileDeletedEvent", "FileCreatedEvent", "FileMovedEvent", "FileModifiedEvent")
             and n not in dels and n not in cres]
    for n in wrong:
        r.violation(m.rel, q, norm(ast.unparse(n.ast)), "an event is rewritten in a way other than tracked->other = deleted(src) / "
                    "other->tracked = created(dest)", line=n.line)
    disp = [n for n in g.nodes if any(isinstance(c.func, ast.Attribute) and c.func.attr == "dispatch" and isinstance(c.func.value, ast.Call)
                                      and pyfront.call_name(c.func.value) == "super" for c in pyfront.node_calls(n))]
    if not disp:
        raise AnalysisError("%s: final super(...).dispatch(event) not found" % q)

    def states(n):
        return IN.get(n.id, set())
    want = {"del": (True, False), "cre": (False, True)}
    for kind, nodes in (("del", dels), ("cre", cres)):
        label = "tracked -> non-matching rename becomes FileDeletedEvent(src)" if kind == "del" else \
            "non-matching -> tracked rename (the writer's finalizing rename of a tmp. file) becomes FileCreatedEvent(dest)"
        if not nodes:
            ctor = "FileDeletedEvent" if kind == "del" else "FileCreatedEvent"
            if any(isinstance(c_, ast.Call) and pyfront.call_name(c_) == ctor for c_ in ast.walk(f)):
                raise AnalysisError("%s: a %s is constructed, but not in a form this rule follows" % (q, ctor))
            r.violation(m.rel, q, "move conversion `%s` missing" % kind, "expected: " + label, line=f.lineno)
            continue
        sts = set()
        for n in nodes:
            sts |= {(s[idx[S]] == "T", s[idx[D]] == "T") for s in states(n) if "U" not in (s[idx[S]], s[idx[D]])}
            sts |= {("U", "U") for s in states(n) if "U" in (s[idx[S]], s[idx[D]])}
        if sts == {want[kind]}:
            r.ok("%s:%s %s" % (m.rel, nodes[0].line, q), label + " (reached exactly when %s=%s, %s=%s)" % (S, want[kind][0], D, want[kind][1]))
        else:
            r.violation(m.rel, q, "%s under %s" % (norm(ast.unparse(nodes[0].ast)), sorted(sts)),
                        "the conversion is applied in the wrong match situation (expected only %s=%s, %s=%s)" % (
                            S, want[kind][0], D, want[kind][1]), line=nodes[0].line)
    # completeness: a moved event with exactly one matching path cannot reach the final dispatch without conversion
    conv = [n.id for n in dels + cres]
    final_states = set()
    for n in disp:
        final_states |= {(s[idx[S]] == "T", s[idx[D]] == "T") for s in states(n) if "U" not in (s[idx[S]], s[idx[D]])}
        final_states |= {("U", "U") for s in states(n) if "U" in (s[idx[S]], s[idx[D]])}
    if (False, False) in final_states:
        r.violation(m.rel, q, "dispatch reachable with neither path matching", "events for unrelated paths are delivered", line=disp[0].line)
    else:
        r.ok("%s:%s %s" % (m.rel, disp[0].line, q), "events matching neither path are dropped before the final dispatch")
    # both paths are matched against the handler's regexes (directly or through a helper)
    text = norm(ast.unparse(f))
    reach_text = text + " " + " ".join(norm(ast.unparse(h_)) for h_, c_, b_ in pyutil.local_helpers(m, m.fn(q), depth=3))
    passed = all(any(isinstance(c_, ast.Call) and any(path_of(a_) == pth for a_ in list(c_.args) + [k_.value for k_ in c_.keywords])
                     for c_ in ast.walk(f)) for pth in ("src_path", "dest_path"))
    mentions = all(any(path_of(x) == pth for x in ast.walk(f) if isinstance(x, (ast.Attribute, ast.Call))) for pth in ("src_path", "dest_path"))
    if ".regexes" in reach_text and ".match(" in reach_text and mentions:
        r.ok("%s:%s %s" % (m.rel, f.lineno, q), "src_path and dest_path are each matched against the registered regexes")
    elif passed or mentions:
        raise AnalysisError("%s: event.src_path / event.dest_path are used, but no loop over the registered regexes was found "
                            "in the functions reached from dispatch (3 levels)" % q)
    else:
        r.violation(m.rel, q, "matching", "source and destination are not matched against the registered regex list", line=f.lineno)
    r.guard(4)
    return r


def _is_window_cmp(n):
    return isinstance(n, ast.Compare) and not isinstance(n.ops[0], (ast.Is, ast.IsNot)) and any(
        b in norm(ast.unparse(n)) for b in ("self.starttime", "self.endtime"))


def _window_subject(m):
    """(qualified name, flat view) of the handler method that compares the name time with the window bounds: dispatch itself
    (private helpers inlined) or, when the comparison lives in a helper that is not inlined, that helper"""
    cands = [H + ".dispatch"] + sorted(H + "." + n for n in m.methods(H) if n.startswith("_") and not n.startswith("__"))
    for q in cands:
        view = m.flat(q)
        if any(_is_window_cmp(n) for n in ast.walk(view.fn())):
            return q, view
    return H + ".dispatch", m.flat(H + ".dispatch")


ROUNDING_CALLS = ("int", "round", "floor", "ceil", "trunc", "total_seconds", "timestamp")


def _bound_attrs(m):
    """{attribute of the handler: ("exact" | "rounded", which bound, assignment)} for the attributes __init__ derives from its
    starttime / endtime parameters.  exact: the parameter as it is after being made timezone-aware and turned into the difference
    to the epoch; rounded: a rounding operation (//, /, %, int(), round(), ...) lies on the way."""
    f = m.flat(H + ".__init__").fn()
    out = {}
    taint = {"starttime": ("start", False), "endtime": ("end", False)}
    assigns = sorted((a for a in pyfront.walk_no_nested(f) if isinstance(a, ast.Assign)), key=lambda a: (a.lineno, a.col_offset))
    for _pass in range(2):
        for a in assigns:
            src = [taint[x.id] for x in ast.walk(a.value) if isinstance(x, ast.Name) and x.id in taint]
            for x in ast.walk(a.value):
                if isinstance(x, ast.Attribute) and isinstance(x.value, ast.Name) and x.value.id == "self" and x.attr in out:
                    src.append((out[x.attr][1], out[x.attr][0] == "rounded"))
            if not src:
                continue
            def tainted(e):
                return any((isinstance(y, ast.Name) and y.id in taint) or (isinstance(y, ast.Attribute) and isinstance(y.value, ast.Name)
                           and y.value.id == "self" and y.attr in out) for y in ast.walk(e))
            rounds = any(tainted(x) and ((isinstance(x, ast.BinOp) and isinstance(x.op, (ast.FloorDiv, ast.Div, ast.Mod)))
                                          or (isinstance(x, ast.Call) and (pyfront.call_name(x) or "").split(".")[-1] in ROUNDING_CALLS))
                         for x in ast.walk(a.value))
            which = src[0][0]
            rounded = rounds or any(s_[1] for s_ in src)
            for t in a.targets:
                if isinstance(t, ast.Name):
                    if t.id in ("starttime", "endtime") and not rounded:
                        continue
                    taint[t.id] = (which, rounded)
                elif isinstance(t, ast.Attribute) and isinstance(t.value, ast.Name) and t.value.id == "self":
                    out[t.attr] = ("rounded" if rounded else "exact", which, a)
    return out


def _formula_subject(m):
    """the handler method (private helpers inlined) on which the window verdict is computed as a formula: the first loop-free
    one that reads a bound attribute; dispatch first, then the private methods"""
    from .. import pyform
    battrs = _bound_attrs(m)
    if not battrs:
        raise AnalysisError("%s.__init__: no attribute is derived from the starttime / endtime parameters" % H)
    cands = [H + ".dispatch"] + sorted(H + "." + n for n in m.methods(H) if n.startswith("_") and not n.startswith("__"))
    first_err = None
    for q in cands:
        view = m.flat(q)
        f = view.fn()
        reads = any(isinstance(x, ast.Attribute) and isinstance(x.value, ast.Name) and x.value.id == "self" and x.attr in battrs
                    and isinstance(x.ctx, ast.Load) for x in ast.walk(f))
        if not reads:
            continue
        if any(isinstance(x, (ast.While, ast.AsyncFor, ast.With)) or (isinstance(x, ast.For) and not pyform.is_once_block(x))
               for x in pyfront.walk_no_nested(f) if x is not f):
            first_err = first_err or q
            continue
        return q, view, battrs
    if first_err:
        raise AnalysisError("%s: the window is applied inside a loop; the verdict formula is computed for loop-free methods only" % first_err)
    raise AnalysisError("%s: no method reads an attribute derived from the window bounds" % H)


def _r5_window(r, m):
    """The verdict of the method that applies the window, as a propositional formula over the outcomes of all its paths
    (pyform): D = 'returns a false value'.  With T the timedelta built from int(group('secs')) / int(group('frac')) [0 when the
    group is absent], W = (start is not None and T < start) or (end is not None and T > end):
    (a) T is built from exactly those groups; (b) the bounds compared are the exact ones (an attribute __init__ rounds is a
    violation); (c) on the paths where group('secs') raised D does not depend on the window (time-less names are exempt);
    (d) D does not depend on whether group('frac') exists; (e) for every valuation of the other atoms D is constant or W, and
    W for at least one: strict comparisons on both sides, each bound guarded by its own None test."""
    from .. import pyform, cbool, pybool
    import itertools
    q, fvw, battrs = _formula_subject(m)
    f = fvw.fn()
    bad_T = []
    good_T = []

    def is_group(e, gname):
        return isinstance(e, ast.Call) and pyfront.call_name(e) == "int" and len(e.args) == 1 and isinstance(e.args[0], ast.Call) \
            and isinstance(e.args[0].func, ast.Attribute) and e.args[0].func.attr == "group" and e.args[0].args \
            and pyfront.const(e.args[0].args[0]) == gname

    class RW(ast.NodeTransformer):
        def visit_Call(self, node):
            self.generic_visit(node)
            if pyfront.call_name(node) == "datetime.timedelta":
                kw = {k.arg: k.value for k in node.keywords}
                if not node.args and set(kw) == {"seconds", "milliseconds"} and is_group(kw["seconds"], "secs") and (
                        is_group(kw["milliseconds"], "frac") or (isinstance(kw["milliseconds"], ast.Constant) and kw["milliseconds"].value == 0)):
                    good_T.append(node)
                    return ast.copy_location(ast.Name("T", ast.Load()), node)
                bad_T.append(node)
                return ast.copy_location(ast.Name("T_other", ast.Load()), node)
            return node
    outs = pyform.outcomes(f, rewrite=lambda e: RW().visit(e))
    D = pyform.false_when(outs)
    ats = sorted(cbool.atoms(D))
    if len(ats) > 14:
        raise AnalysisError("%s: verdict formula has %d atoms" % (q, len(ats)))
    exact = {a_ for a_, v in battrs.items() if v[0] == "exact"}
    rounded = {a_ for a_, v in battrs.items() if v[0] == "rounded"}
    start_attr = [a_ for a_ in sorted(exact) if battrs[a_][1] == "start"]
    end_attr = [a_ for a_ in sorted(exact) if battrs[a_][1] == "end"]

    def mentions(atom, attrs):
        return any(_re_attr(atom, a_) for a_ in attrs)
    import re as _re

    def _re_attr(atom, a_):
        return _re.search(r"\bself\.%s\b" % _re.escape(a_), atom) is not None
    watoms = [a_ for a_ in ats if mentions(a_, exact | rounded)]
    RS = [a_ for a_ in ats if a_.startswith("raises:") and "group('secs')" in a_]
    RF = [a_ for a_ in ats if a_.startswith("raises:") and "group('frac')" in a_]
    line = f.lineno
    # (b) rounded bounds
    for a_ in watoms:
        ra = [x for x in sorted(rounded) if _re_attr(a_, x)]
        if ra:
            asg = battrs[ra[0]][2]
            r.violation(m.rel, q, "no comparison of a name timestamp with self.%stime: `%s` uses self.%s" % (battrs[ra[0]][1], a_[:60], ra[0]),
                        "the %s of the time window is not applied to the exact name timestamp: `%s` (line %d) rounds the bound, so events "
                        "within the rounding error of the bound are accepted or dropped differently from the listing, which compares "
                        "exact timedeltas" % (battrs[ra[0]][1], norm(ast.unparse(asg))[:80], asg.lineno), line=line)
    if r.findings:
        return
    if not watoms:
        raise AnalysisError("%s: the verdict does not depend on the window bounds" % q)
    # (c) exemption of names without a time stamp
    others = [a_ for a_ in ats if a_ not in watoms]

    def cof(val):
        """D as a function of the window atoms under the valuation `val` of the other atoms: tuple of truth values"""
        return tuple(cbool.ev(D, dict(val, **dict(zip(watoms, bits)))) for bits in itertools.product((False, True), repeat=len(watoms)))
    vals = [dict(zip(others, bits)) for bits in itertools.product((False, True), repeat=len(others))]
    feasible = [v for v in vals if any(not pyform._unsat(cbool.conj([o.cond] + [("atom", k) if b else ("not", ("atom", k)) for k, b in v.items()]))
                                       for o in outs)]
    if not RS:
        helper_has = any(any(isinstance(c, ast.Call) and isinstance(c.func, ast.Attribute) and c.func.attr == "group" and c.args
                             and pyfront.const(c.args[0]) == "secs" for c in ast.walk(h)) for h, c_, b_ in pyutil.local_helpers(m, f, depth=2))
        if helper_has:
            raise AnalysisError("%s: the name time stamp is extracted in a helper; exemption of time-less names not analysed" % q)
        # the time reaches the method as a parameter (extracted by its caller): the exemption is decided there - not followed
        fparams = {a_.arg for a_ in f.args.args if a_.arg != "self"}
        if any(isinstance(x, ast.Compare) and _is_window_cmp(x) and any(isinstance(y, ast.Name) and y.id in fparams for y in ast.walk(x)) for x in ast.walk(f)):
            raise AnalysisError("%s: the time compared with the window is a parameter of the method; where it comes from (and whether "
                                "time-less names are exempt) is decided by its callers, which this rule does not follow" % q)
        r.violation(m.rel, q, "window drop not conditional on match.group('secs') succeeding",
                    "an event for a name without a time stamp (a properties file) is compared with the time window through a "
                    "substitute time and dropped, although the listing returns properties files whatever the window", line=line)
    else:
        dep = [v for v in feasible if any(v[a_] for a_ in RS) and len(set(cof(v))) > 1]
        if dep:
            r.violation(m.rel, q, "window drop not conditional on match.group('secs') succeeding",
                        "an event for a name without a time stamp (a properties file) is compared with the time window through a "
                        "substitute time and dropped, although the listing returns properties files whatever the window", line=line)
        else:
            r.ok("%s:%s %s" % (m.rel, line, q), "on every path where match.group('secs') raised the verdict does not depend on the window: "
                 "time-less names (properties files) are never dropped by it")
    # (a) the time compared
    if bad_T and not r.findings:
        n = bad_T[0]
        r.violation(m.rel, q, norm(ast.unparse(n))[:80], "window time is not built from the secs/frac groups of the name", line=line)
    elif good_T:
        r.ok("%s:%s %s" % (m.rel, line, q), "the time compared is datetime.timedelta(seconds=int(group('secs')), milliseconds=int(group('frac')) "
             "or 0 when the group is absent)")
    if r.findings:
        return
    if not good_T:
        raise AnalysisError("%s: construction of the name timestamp (datetime.timedelta(seconds=, milliseconds=)) not found" % q)
    if len(start_attr) != 1 or len(end_attr) != 1:
        raise AnalysisError("%s: exact bound attributes not unique (%s / %s)" % (q, start_attr, end_attr))
    sa, ea = "self." + start_attr[0], "self." + end_attr[0]
    S0, E0, LT, GT = "%s is None" % sa, "%s is None" % ea, "%s>T" % sa, "T>%s" % ea
    nonstrict = {"T>%s" % sa: "start", "%s>T" % ea: "end", "%s==T" % sa: "start", "T==%s" % sa: "start", "%s==T" % ea: "end", "T==%s" % ea: "end"}
    unknown = [a_ for a_ in watoms if a_ not in (S0, E0, LT, GT)]
    for a_ in unknown:
        if a_ in nonstrict:
            r.violation(m.rel, q, a_, "the window must drop only events strictly outside [start, end] measured on the exact name "
                        "timestamp: a file whose name timestamp equals the %s bound belongs to the window (the listing is inclusive)" % nonstrict[a_],
                        line=line)
    if r.findings:
        return
    if unknown:
        raise AnalysisError("%s: comparison with the window bounds not recognised: `%s`" % (q, unknown[0][:80]))
    # (d) the presence of the frac group does not matter
    for v in feasible:
        for a_ in RF:
            v2 = dict(v)
            v2[a_] = not v[a_]
            if v2 in feasible and cof(v) != cof(v2):
                r.violation(m.rel, q, "the window verdict depends on whether group('frac') exists", "names without a fraction "
                            "(metadata files) are judged differently from names with one", line=line)
                break
        if r.findings:
            break
    # (e) constant or W
    def W(val):
        return (not val[S0] and val[LT]) or (not val[E0] and val[GT])
    wref = tuple(W(dict(zip(watoms, bits))) for bits in itertools.product((False, True), repeat=len(watoms))) \
        if all(x in watoms for x in (S0, E0, LT, GT)) else None
    seen_w = False
    for v in feasible:
        c = cof(v)
        if len(set(c)) == 1:
            continue
        if wref is not None and c == wref:
            seen_w = True
            continue
        # which side differs: find a window valuation where verdict != W
        missing = [k for k in (S0, E0, LT, GT) if k not in watoms]
        if missing:
            key = "start" if missing[0] in (S0, LT) else "end"
            r.violation(m.rel, q, "no comparison of the name timestamp `T` with self.%stime" % key, "the %s of the time window is not "
                        "applied to the exact name timestamp (e.g. a rounded or pre-computed bound is used instead, or its None test "
                        "is missing): events are accepted or dropped differently from the listing" % key, line=line)
        else:
            wit = [dict(zip(watoms, bits)) for bits, x, y in zip(itertools.product((False, True), repeat=len(watoms)), c, wref) if x != y][0]
            r.violation(m.rel, q, "window verdict differs from (start is not None and T < start) or (end is not None and T > end)",
                        "for %s the event is %s although the listing would %s the file" % (
                            ", ".join("%s=%s" % kv for kv in sorted(wit.items())), "dropped" if not W(wit) else "accepted",
                            "list" if not W(wit) else "not list"), line=line)
        break
    if not r.findings:
        if seen_w:
            r.ok("%s:%s %s" % (m.rel, line, q), "verdict formula over %d paths: dropped exactly when (start is not None and T < start) or "
                 "(end is not None and T > end) - strict comparisons, events exactly on a bound are delivered" % len(outs))
        else:
            raise AnalysisError("%s: the window formula was not found in the verdict" % q)


def r5_inclusive_window(repo=None):
    r = Rule("C15.R5", "the time window is inclusive on the name timestamp; every regex group used exists or is guarded")
    m = pyfront.mod("watchdog_drf", repo)
    err = None
    try:
        _r5_window(r, m)
    except AnalysisError as e:
        err = e
    # group uses: defined in every regex that can reach the use, or inside a try catching IndexError
    fo = cfold.Folder(repo)
    import re as _re
    groups = {n: set(_re.compile(fo.name("list_drf", n)).groupindex) for n in RE_NAMES + ("_RE_FILE", "_RE_DRFFILE", "_RE_DMDFILE", "_RE_SUBDIR")}
    uses = 0
    scopes = (("watchdog_drf", lambda q: q.startswith(H + ".") or "." not in q, RE_NAMES),
              ("ringbuffer", lambda q: q.startswith("DigitalRFRingbufferHandlerBase."), ("RE_DRF", "RE_DMD", "RE_DRFDMD")),
              ("list_drf", lambda q: "." not in q, ("_RE_FILE", "_RE_DRFFILE", "_RE_DMDFILE")))
    for mod_name, sel, regs in scopes:
        mm = pyfront.mod(mod_name, repo)
        for qq, ff in mm.functions.items():
            if "<locals>" in qq or not sel(qq):
                continue
            for c in pyfront.walk_no_nested(ff):
                if isinstance(c, ast.Call) and isinstance(c.func, ast.Attribute) and c.func.attr == "group" and c.args \
                        and isinstance(pyfront.const(c.args[0]), str):
                    uses += 1
                    gname = pyfront.const(c.args[0])
                    everywhere = all(gname in groups[n] for n in regs)
                    subdir_only = gname in groups["_RE_SUBDIR"] and not any(gname in groups[n] - groups["_RE_SUBDIR"] for n in regs) \
                        and mod_name == "list_drf"
                    tr = mm.enclosing(c, (ast.Try,))
                    guarded = False
                    unknown_handler = False
                    while tr is not None and not guarded:
                        if any(c in list(ast.walk(s)) for s in tr.body):
                            for h in tr.handlers:
                                ht = h.type
                                if isinstance(ht, ast.Name):
                                    # `except _NO_GROUP_ERRORS:` - a module-level tuple of exception classes
                                    mv_ = mm.module_assign(ht.id)
                                    mv_ = mv_.value if isinstance(mv_, ast.Assign) else mv_
                                    if isinstance(mv_, ast.Tuple):
                                        ht = mv_
                                names = [pyfront.dotted(ht)] if ht is not None and not isinstance(ht, ast.Tuple) else (
                                    [pyfront.dotted(e) for e in ht.elts] if ht is not None else ["*"])
                                if "IndexError" in names or "*" in names or "Exception" in names or "LookupError" in names:
                                    guarded = True
                                elif any(n_ is not None and n_ not in ("AttributeError", "TypeError", "ValueError", "KeyError", "OSError", "IOError") for n_ in names):
                                    unknown_handler = True
                        tr = mm.enclosing(tr, (ast.Try,))
                    site = "%s:%s %s group(%r)" % (mm.rel, c.lineno, qq, gname)
                    if everywhere or guarded or subdir_only:
                        r.ok(site, "defined in every regex that can reach it" if everywhere else (
                            "inside try/except IndexError" if guarded else "group of the sub-directory regex"))
                    elif unknown_handler:
                        raise AnalysisError("%s: `m.group(%r)` sits in a try whose handler catches an exception name this rule does not know: "
                                            "not decided" % (qq, gname))
                    else:
                        r.violation(mm.rel, qq, "m.group(%r)" % gname, "group `%s` is not defined in every regex used here and the call is "
                                    "not guarded: an event/path matched by such a regex raises IndexError" % gname, line=c.lineno)
    if uses < 6:
        raise AnalysisError("only %d m.group() uses found" % uses)
    if err is not None and not r.findings:
        raise err
    r.guard(9)
    return r


def r6_window_per_path(repo=None):
    """'accepts an event for a path exactly when a listing ... would list a finalized file at that path': for a move event the
    window belongs to each path separately - a rename from inside the window to outside it is a deletion, the reverse a creation.
    So the window verdict must enter the *per-path* match flags (the two locals the move conversion branches on), not be applied
    once to the event afterwards.  (a) If the window comparisons are in dispatch itself (helpers inlined): no path from the failing
    side of a comparison reaches a `return` of dispatch without first assigning one of the two flags.  (b) If they live in a
    helper: the value assigned to the source flag and the value assigned to the destination flag each contain a call that reaches
    that helper."""
    r = Rule("C15.R6", "the time window is applied to the source and to the destination path of a move separately")
    m = pyfront.mod("watchdog_drf", repo)
    q = H + ".dispatch"
    fvw = m.flat(q)
    f = fvw.fn()
    g = fvw.cfg()
    S, D, track = _dispatch_flags(fvw, f)
    if not S or not D or S == D:
        raise AnalysisError("%s: the source-matched / destination-matched flags were not recognised (%s, %s)" % (q, S, D))
    wq, wview = _window_subject(m)
    if wq == q:
        wcmp = [n for n in g.nodes if n.kind == "cond" and _is_window_cmp(n.ast)]
        if not wcmp:
            raise AnalysisError("%s: no comparison with the window bounds found" % q)
        flag_nodes = [n.id for n in g.nodes if isinstance(n.ast, ast.Assign) and any(
            isinstance(t, ast.Name) and t.id in (S, D) for t in n.ast.targets)]
        rets = [n for n in g.nodes if n.kind == "return"]
        for n in wcmp:
            ts = [b for b, lab in g.succ[n.id] if lab == "T"]
            reach = g.reach(ts, avoid=flag_nodes, skip_labels=("exc",))
            hit = [x for x in rets if x.id in reach]
            if hit:
                r.violation(m.rel, q, "`%s` -> return" % n.label[:60],
                            "the window is applied once per event, to the match of whichever path matched last, and a failing test drops "
                            "the whole event: a move whose two names both fit the grammar but only one of which lies in the window "
                            "(rf@T0 -> rf@T0+10 with endtime T0+5) delivers nothing where a deletion is due, and a `moved` event where "
                            "a creation is due; the same for a properties file renamed to or from an out-of-window data file",
                            line=n.line)
                break
        else:
            r.ok("%s:%s %s" % (m.rel, wcmp[0].line, q), "a failing window test only clears the flag of the path it was made for")
    else:
        # call graph over the handler's methods
        calls = {}
        for name, fn in m.methods(H).items():
            # calls and method values handed on (`accept = self._in_time_window`): any reference to a method of the handler
            calls[name] = {x.attr for x in ast.walk(fn) if isinstance(x, ast.Attribute) and isinstance(x.value, ast.Name) and x.value.id == "self"
                           and x.attr in m.methods(H)}
        target = wq.split(".")[-1]

        def reaches(name, seen=()):
            if name == target:
                return True
            return any(reaches(c, seen + (name,)) for c in calls.get(name, ()) if c not in seen)
        for flag, what in ((S, "source"), (D, "destination")):
            raw = m.fn(q)       # as written: the helper calls are still calls
            asg = [n for n in ast.walk(raw) if isinstance(n, ast.Assign) and any(isinstance(t, ast.Name) and t.id == flag for t in n.targets)
                   and not isinstance(n.value, ast.Constant)]
            ok = asg and all(any(isinstance(c, ast.Call) and (pyfront.call_name(c) or "").startswith("self.") and reaches(pyfront.call_name(c)[5:])
                                 for c in ast.walk(a.value)) for a in asg)
            if ok:
                r.ok("%s:%s %s `%s`" % (m.rel, asg[0].lineno, q, norm(ast.unparse(asg[0]))[:70]),
                     "the %s flag includes the window verdict for that path (through %s)" % (what, wq))
            else:
                r.violation(m.rel, q, "flag `%s`" % flag, "the %s-matched flag is set without the time window of that path (the window test "
                            "lives in %s, which this assignment does not reach)" % (what, wq), line=f.lineno)
    r.guard(1)
    return r


def _r7_rejecting(m, hq):
    """(date ok, time ok): helper hq returns a false value on every path where the datetime / timedelta construction raised"""
    from .. import pyform, cbool
    outs = pyform.outcomes(m.flat(hq).fn())
    res = {}
    for what, call_txt, grp in (("date", "datetime.datetime(", "year"), ("time", "datetime.timedelta(", "secs")):
        ats = {a for o in outs for a in cbool.atoms(o.cond) if a.startswith("raises:") and call_txt in a and (grp in a or what == "date")}
        if not ats:
            res[what] = None
            continue
        ok = True
        for o in outs:
            for a in ats:
                if not pyform._unsat(cbool.conj([o.cond, ("atom", a)])) and pyform._unsat(cbool.conj([o.cond, ("not", ("atom", a))])):
                    if not (o.value is None or (isinstance(o.value, ast.Constant) and not o.value.value)):
                        ok = False
        res[what] = ok
    return res


def _r7_by_outcomes(r, m):
    """The accepting method written as a predicate (`if not match or not self._valid(match): return False; return <window verdict>`):
    every outcome of the (loop-free) method that can return a true value has a path condition that implies the validity helper."""
    from .. import pyform, cbool, pybool
    meths = m.methods(H)
    valid = {}
    for name in meths:
        if not name.startswith("_") or name.startswith("__"):
            continue
        try:
            res = _r7_rejecting(m, "%s.%s" % (H, name))
        except AnalysisError:
            continue
        if res.get("date") or res.get("time"):
            valid[name] = res
    if not valid:
        raise AnalysisError("%s: neither an accepting `if` nor a validity helper (false whenever the date / time construction raises) was found" % H)
    preds = []
    for name, f in meths.items():
        if name in valid or not name.startswith("_") or name.startswith("__"):
            continue
        calls = [c for c in ast.walk(f) if isinstance(c, ast.Call) and isinstance(c.func, ast.Attribute) and isinstance(c.func.value, ast.Name)
                 and c.func.value.id == "self" and c.func.attr in valid]
        if calls:
            preds.append((name, f, calls))
    if len(preds) != 1:
        raise AnalysisError("%s: the predicate that calls the validity helper was not found exactly once (%s)" % (H, [p_[0] for p_ in preds]))
    name, f, calls = preds[0]
    q = "%s.%s" % (H, name)
    # the predicate decides the verdict of the matching method: it is called there with the result of a regex .match(...)
    def is_match_value(mf, a_):
        """a regex match: `<regex>.match(..)` itself, or a local of the method assigned from one"""
        if any(isinstance(x, ast.Call) and isinstance(x.func, ast.Attribute) and x.func.attr == "match" for x in ast.walk(a_)):
            return True
        if isinstance(a_, ast.Name):
            ds = [n_.value for n_ in ast.walk(mf) if isinstance(n_, ast.Assign) and any(isinstance(t_, ast.Name) and t_.id == a_.id for t_ in n_.targets)]
            ds += [n_.value for n_ in ast.walk(mf) if isinstance(n_, ast.NamedExpr) and isinstance(n_.target, ast.Name) and n_.target.id == a_.id]
            return bool(ds) and all(isinstance(d_, ast.Call) and isinstance(d_.func, ast.Attribute) and d_.func.attr == "match" for d_ in ds)
        return False
    users = [mn for mn, mf in meths.items() if any(isinstance(c, ast.Call) and pyfront.call_name(c) == "self." + name and any(
        is_match_value(mf, a_) for a_ in c.args) for c in ast.walk(mf))]
    if not users:
        raise AnalysisError("%s: no method hands a regex match to it" % q)
    outs = pyform.outcomes(f)
    accepting = [o for o in outs if o.value is not None and not (isinstance(o.value, ast.Constant) and not o.value.value)
                 and not (isinstance(o.value, ast.Name) and o.value.id == "<raise>")]
    if not accepting:
        raise AnalysisError("%s: no outcome returns a true value" % q)
    for what, example in (("date", "a file in `ch/2016-13-01T00-00-00/`"), ("time", "`rf@100000000000000.000.h5`")):
        good = None
        for c in calls:
            if not valid[c.func.attr].get(what):
                continue
            if all(pyform._unsat(cbool.conj([o.cond, ("not", pybool.truth(c))])) for o in accepting):
                good = c
        site = "%s:%s %s (%s)" % (m.rel, f.lineno, q, what)
        if good is not None:
            r.ok(site, "every outcome that returns a true value implies `%s`, which is false whenever the %s built from the match raised" % (
                norm(ast.unparse(good)), "datetime" if what == "date" else "timedelta"))
        else:
            raise AnalysisError("%s: a validity helper exists but the outcomes that accept were not shown to imply it for the %s" % (q, what))
    r.guard(2)
    return r


def r7_not_a_time_is_rejected(repo=None):
    """'accepts an event for a path exactly when a listing ... would list a finalized file at that path', for the near-miss names of
    the quantifier too: a sub-directory name that fits the pattern but is not a date (month 13) and a file number that is not a
    time (15 digits) are skipped by the listing (C14.R9: the constructions from the regex groups sit in try / except there).  The
    filter must reject the same paths - and must not let the construction raise out of dispatch(), which ends the observer thread.
    Decided on the method that turns a regex match into acceptance: its acceptance condition (a propositional formula) implies a
    call of a validity helper, and that helper - every path enumerated (pyform) - returns a false value whenever building the
    datetime from the date groups or the timedelta from the `secs` group raised."""
    from .. import pyform, cbool, pybool
    r = Rule("C15.R7", "a path whose numbers are not a date / a time is rejected by the event filter, as by the listing")
    m = pyfront.mod("watchdog_drf", repo)
    # the method that accepts: private method of the handler with a regex .match(...) call whose result guards `= True` / `return True`
    accept = []
    for name, f in m.methods(H).items():
        if not name.startswith("_") or name.startswith("__"):
            continue
        for iff in ast.walk(f):
            if isinstance(iff, ast.If) and any((isinstance(x, ast.Assign) and pyfront.const(x.value) is True) or
                                               (isinstance(x, ast.Return) and pyfront.const(x.value) is True) for x in iff.body) \
                    and any(isinstance(c, ast.Call) and isinstance(c.func, ast.Attribute) and c.func.attr == "match" for c in ast.walk(f)):
                accept.append((name, f, iff))
    # positive evidence first: a matching method that returns the match object itself, where the object of a regex whose path was
    # *rejected* (validity or window test false) can still be the one that is returned - the loop assigns it before the tests
    # and nothing clears it on the rejecting side
    for name, f in m.methods(H).items():
        if not name.startswith("_") or name.startswith("__"):
            continue
        rets = [x for x in ast.walk(f) if isinstance(x, ast.Return) and isinstance(x.value, ast.Name)]
        if not rets:
            continue
        g_ = m.cfg("%s.%s" % (H, name))
        for rt in rets:
            v = rt.value.id
            defs = [n for n in g_.nodes if isinstance(n.ast, ast.Assign) and any(isinstance(t, ast.Name) and t.id == v for t in n.ast.targets)]
            nonconst = [n for n in defs if isinstance(n.ast.value, ast.Call) and isinstance(n.ast.value.func, ast.Attribute) and n.ast.value.func.attr == "match"]
            rnode = [n for n in g_.nodes if n.ast is rt]
            if not nonconst or not rnode:
                continue
            for d in nonconst:
                # tests of the matched object after the assignment, inside the loop: the side on which they fail
                conds = [n for n in g_.nodes if n.kind == "cond" and n.ast is not None and any(isinstance(x, ast.Name) and x.id == v for x in ast.walk(n.ast))
                         and n.id in g_.reach([d.id], avoid=[x.id for x in defs if x is not d], skip_labels=("exc",))]
                for cn in conds:
                    calls_valid = any(isinstance(c, ast.Call) and (pyfront.call_name(c) or "").startswith("self._") for c in ast.walk(cn.ast))
                    if not calls_valid:
                        continue
                    fs = [b for b, l in g_.succ[cn.id] if l == "F"]
                    if rnode[0].id in g_.reach(fs, avoid=[x.id for x in defs], skip_labels=("exc",)):
                        r.violation(m.rel, "%s.%s" % (H, name), "return %s after `%s` failed" % (v, cn.label[:50]), "the method returns the match "
                                    "object of the regex tried last even when its validity / window test rejected the path (the loop assigns "
                                    "`%s` before the tests and the rejecting side does not clear it): with the data regex last in the list - both "
                                    "property kinds excluded, as in every ringbuffer handler - out-of-window files and names that are not "
                                    "dates are accepted" % v, line=rt.lineno)
                        r.guard(1)
                        return r
    if not accept:
        return _r7_by_outcomes(r, m)
    if len(accept) != 1:
        raise AnalysisError("%s: the method that turns a regex match into acceptance was not found exactly once (%s)" % (H, [a[0] for a in accept]))
    name, f, iff = accept[0]
    q = "%s.%s" % (H, name)
    # the acceptance condition: the tests of all enclosing `if`s of the accepting statement (an `if a and b:` may be written nested)
    acc_stmt = [x for x in iff.body if (isinstance(x, ast.Assign) and pyfront.const(x.value) is True) or
                (isinstance(x, ast.Return) and pyfront.const(x.value) is True)][0]
    form = pybool.path_condition(acc_stmt, m.parents, f)
    tests_ = []
    p_ = m.parents.get(acc_stmt)
    while p_ is not None and p_ is not f:
        if isinstance(p_, ast.If):
            tests_.append(p_.test)
        p_ = m.parents.get(p_)
    helpers = [c for t_ in tests_ for c in ast.walk(t_) if isinstance(c, ast.Call) and isinstance(c.func, ast.Attribute)
               and isinstance(c.func.value, ast.Name) and c.func.value.id == "self" and "%s.%s" % (H, c.func.attr) in m.functions]

    def rejecting(hq):
        """(date ok, time ok): the helper returns a false value on every path where the datetime / timedelta construction raised"""
        outs = pyform.outcomes(m.flat(hq).fn())
        res = {}
        for what, call_txt, grp in (("date", "datetime.datetime(", "year"), ("time", "datetime.timedelta(", "secs")):
            ats = {a for o in outs for a in cbool.atoms(o.cond) if a.startswith("raises:") and call_txt in a and grp in a}
            if not ats:
                res[what] = None
                continue
            ok = True
            for o in outs:
                for a in ats:
                    # outcomes on which this construction raised
                    if not pyform._unsat(cbool.conj([o.cond, ("atom", a)])) and pyform._unsat(cbool.conj([o.cond, ("not", ("atom", a))])):
                        if not (o.value is None or (isinstance(o.value, ast.Constant) and not o.value.value)):
                            ok = False
            res[what] = ok
        return res
    verdicts = []
    for c in helpers:
        hq = "%s.%s" % (H, c.func.attr)
        try:
            res = rejecting(hq)
        except AnalysisError:
            continue
        if res.get("date") or res.get("time"):
            implied, _w = cbool.equivalent(cbool.conj([form, ("not", pybool.truth(c))]), ("false",))
            verdicts.append((c, res, implied))
    date_ok = any(v[1].get("date") and v[2] for v in verdicts)
    time_ok = any(v[1].get("time") and v[2] for v in verdicts)
    for what, ok_, example in (("date", date_ok, "a file in `ch/2016-13-01T00-00-00/`"), ("time", time_ok, "`rf@100000000000000.000.h5`")):
        site = "%s:%s %s (%s)" % (m.rel, iff.lineno, q, what)
        if ok_:
            c = [v[0] for v in verdicts if v[1].get(what) and v[2]][0]
            r.ok(site, "acceptance implies `%s`, which is false whenever the %s built from the match raised" % (
                norm(ast.unparse(c)), "datetime" if what == "date" else "timedelta"))
        else:
            # a guarded construction in the accepting method or a helper it (transitively) calls that this rule could not tie to the
            # acceptance: not decided.  A validity helper that exists but is never called from there is no excuse.
            reachable, todo = [], [f]
            while todo:
                f_ = todo.pop()
                if any(f_ is x for x in reachable):
                    continue
                reachable.append(f_)
                for c_ in ast.walk(f_):
                    if isinstance(c_, ast.Call) and isinstance(c_.func, ast.Attribute) and isinstance(c_.func.value, ast.Name) \
                            and c_.func.value.id == "self" and c_.func.attr in m.methods(H):
                        todo.append(m.methods(H)[c_.func.attr])
            exc = "ValueError" if what == "date" else "OverflowError"
            ctor = "datetime.datetime" if what == "date" else "datetime.timedelta"
            guarded_somewhere = any(
                isinstance(t_, ast.Try) and any(h_.type is not None and exc in ast.unparse(h_.type) for h_ in t_.handlers)
                and any(isinstance(c_, ast.Call) and pyfront.call_name(c_) == ctor for st_ in t_.body for c_ in ast.walk(st_))
                for f_ in reachable for t_ in ast.walk(f_))
            if guarded_somewhere:
                raise AnalysisError("%s: a %s construction guarded against %s exists in the handler but the acceptance condition `%s` "
                                    "was not shown to imply it" % (q, ctor, exc, norm(ast.unparse(iff.test))[:60]))
            r.violation(m.rel, q, "acceptance `%s` has no %s validity test" % (norm(ast.unparse(iff.test))[:70], what),
                        "the listing skips a name whose numbers are not a %s (%s) but the event filter decides on the regular "
                        "expression alone: it %s" % (what, example, "accepts events for files the listing never lists (a rename into such "
                        "a directory is delivered as `moved` instead of `deleted`)" if what == "date" else
                        "builds the timedelta unguarded and OverflowError leaves dispatch(), which ends the observer thread of watch, "
                        "mirror and ringbuffer"), line=iff.lineno)
    r.guard(2)
    return r


TZ_LOCAL = ("astimezone", "timestamp", "mktime", "localtime", "fromtimestamp", "utcoffset")


def r8_window_bounds_normalised_like_the_listing(repo=None):
    """'the event filter and the listing agree': both take `starttime` / `endtime` datetimes and turn them into offsets from the
    epoch before comparing them with name times.  The convention for a datetime without a time zone (it means UTC:
    `t.replace(tzinfo=utc)` under `t.tzinfo is None`) must be the same on both sides; `t.astimezone(utc)` reads a naive datetime
    as *local* time, so in a process whose zone is not UTC the filter's window is shifted against the listing's.  Sibling
    agreement on the values derived from the two parameters (def-use closure in the flat views): both sides apply
    `.replace(tzinfo=...)` under a `tzinfo` test, neither calls a method that goes through the local time zone."""
    r = Rule("C15.R8", "the event filter normalises its window bounds like the listing: a datetime without a time zone means UTC, nothing goes through the local zone")
    ml = pyfront.mod("list_drf", repo)
    mw = pyfront.mod("watchdog_drf", repo)

    def side(m, q):
        """(calls that go through the local zone, `.replace(tzinfo=..)` calls under a `tzinfo is None` test) on values derived
        from the two parameters in the flat view of q (private helpers inlined)"""
        f = m.flat(q).fn()
        derived = {"starttime", "endtime"} & {a.arg for a in f.args.args + f.args.kwonlyargs}
        if len(derived) != 2:
            raise AnalysisError("%s: parameters starttime / endtime not found" % q)
        return scan(m, f, derived, 0)

    def scan(m, f, derived, depth):
        derived = set(derived)
        changed = True
        while changed:
            changed = False
            for n in ast.walk(f):
                if isinstance(n, ast.Assign) and len(n.targets) == 1 and isinstance(n.targets[0], ast.Name) and n.targets[0].id not in derived \
                        and any(isinstance(x, ast.Name) and x.id in derived for x in ast.walk(n.value)):
                    derived.add(n.targets[0].id)
                    changed = True
        par = {}
        for n in ast.walk(f):
            for ch in ast.iter_child_nodes(n):
                par[ch] = n
        local, repl = [], []
        for c in ast.walk(f):
            # a module function that was not inlined (called in an argument position) and is handed a derived value
            if isinstance(c, ast.Call) and isinstance(c.func, ast.Name) and c.func.id in m.functions and depth < 2:
                h = m.functions[c.func.id]
                ps = [a.arg for a in h.args.args]
                dn = {ps[i] for i, a in enumerate(c.args) if i < len(ps) and any(isinstance(x, ast.Name) and x.id in derived for x in ast.walk(a))}
                dn |= {k.arg for k in c.keywords if k.arg in ps and any(isinstance(x, ast.Name) and x.id in derived for x in ast.walk(k.value))}
                if dn:
                    l2, r2 = scan(m, h, dn, depth + 1)
                    local += l2
                    repl += r2
                continue
            if not (isinstance(c, ast.Call) and isinstance(c.func, ast.Attribute)):
                continue
            if not any(isinstance(x, ast.Name) and x.id in derived for x in ast.walk(c.func.value)):
                continue
            if c.func.attr in TZ_LOCAL:
                local.append(c)
            elif c.func.attr == "replace" and any(k.arg == "tzinfo" for k in c.keywords):
                guarded = False
                p_ = par.get(c)
                while p_ is not None:
                    if isinstance(p_, (ast.If, ast.IfExp)) and "tzinfo" in ast.unparse(p_.test):
                        guarded = True
                    p_ = par.get(p_)
                if guarded:
                    repl.append(c)
        return local, repl
    la, ra = side(ml, "ilsdrf")
    lb, rb = side(mw, H + ".__init__")
    if la:
        y = la[0]
        r.violation("python/digital_rf/list_drf.py", "ilsdrf", norm(ast.unparse(y))[:80], "the listing converts a window bound with %s(), which reads a "
                    "datetime without a time zone as local time, while the event filter takes it as UTC" % y.func.attr, line=y.lineno)
    elif len(ra) >= 1:
        r.ok("python/digital_rf/list_drf.py:%s ilsdrf" % ra[0].lineno, "a bound without a time zone is taken as UTC (`%s` under a tzinfo test); no call "
             "through the local time zone" % norm(ast.unparse(ra[0]))[:60])
    else:
        raise AnalysisError("ilsdrf: how a window bound without a time zone is normalised was not recognised")
    if lb:
        y = lb[0]
        r.violation(WD, H + ".__init__", norm(ast.unparse(y))[:80], "the event filter converts a window bound with %s(), which reads a datetime "
                    "without a time zone as local time, while the listing takes it as UTC (replace(tzinfo=utc) under `tzinfo is None`): in a "
                    "process whose time zone is not UTC the filter's window is shifted by the UTC offset against the listing's - files the "
                    "listing shows are not dispatched and vice versa" % y.func.attr, line=y.lineno)
    elif len(rb) >= 1:
        r.ok("%s:%s %s.__init__" % (WD, rb[0].lineno, H), "a bound without a time zone is taken as UTC, as in the listing; no call through the local "
             "time zone")
    else:
        raise AnalysisError("%s.__init__: how a window bound without a time zone is normalised was not recognised" % H)
    r.guard(2)
    return r


def rules(repo=None):
    return [lambda: r8_window_bounds_normalised_like_the_listing(repo), lambda: r7_not_a_time_is_rejected(repo), lambda: r1_same_constants(repo), lambda: r2_tables_agree(repo), lambda: r3_no_tmp_no_dirs(repo),
            lambda: r4_move_conversion(repo), lambda: r5_inclusive_window(repo), lambda: r6_window_per_path(repo)]


EXPLANATION = (
    'R8: on the values derived from the starttime / endtime parameters (private helpers inlined) both ilsdrf and the handler '
    'constructor apply replace(tzinfo=...) under a tzinfo test and neither calls a method that goes through the local time zone '
    '(astimezone, timestamp, mktime ...). '
    'R1: the six regexes.append sites of DigitalRFEventHandler use only the RE_* constants imported from list_drf. R2: '
    'for all 36 flag rows the union of registered path regexes (abstract execution of the if/elif chains) is compared as '
    "a regular language with the listing's composition <dir>/<SUBDIR>/<file regex chosen by _yield_matching_files> and "
    "<dir>/<properties regex chosen by ilsdrf>, restricted to the property's domain (last two components <sub-"
    'directory>/<file>, whatever the ancestors are called / directly in a directory, no newline). R3: no regex accepts a '
    'tmp. file name at format depth; directories are ignored. R4: move events are converted (tracked->other = deleted, '
    'other->tracked = created, neither = dropped). R5: the verdict of the (loop-free, helper-inlined) method that applies'
    " the window is enumerated path by path into a propositional formula D = 'returns a false value' (pyform; a statement"
    " of a try body that may raise forks on a ghost atom): the time compared is timedelta(seconds=int(group('secs')), "
    "milliseconds=int(group('frac')) or 0); the bounds compared are the attributes __init__ derives from "
    'starttime/endtime without a rounding operation (a rounded bound attribute is a violation); on the paths where '
    "group('secs') raised D does not depend on the window atoms (properties files are exempt); D does not depend on the "
    "presence of group('frac'); for every valuation of the remaining atoms D is constant or exactly (start is not None "
    'and T < start) or (end is not None and T > end), i.e. strict on both sides (truth tables); every m.group(name) is '
    'defined in all regexes that reach it or guarded. R6: the window verdict enters the per-path match flags of a move '
    '(source and destination separately), it is not applied once per event. R7: the acceptance condition of the method '
    'that turns a regex match into acceptance (path condition of the accepting statement) implies a call of a validity '
    'helper whose every path (pyform) returns a false value when building the datetime from the date groups or the '
    'timedelta from the secs group raised - names that are not a date / a time are rejected as the listing skips them. '
    "Does NOT decide that the listing's window (C14) is the same inclusive window. R7 also: a matching method that "
    'returns the match object itself is a violation when its return is reachable from the rejecting side of the validity '
    '/ window tests without a re-definition of the returned name.')
TECHNIQUE = (
    'Python ast; abstract execution of flag chains -> regular-language equality with the listing grammar for all flag '
    'rows; event conversion by flag states; path-by-path outcome enumeration of the window method into a propositional '
    'formula compared by truth table')
ASSUMPTIONS = ["watchdog delivers events only for watched paths and matches with re.match on the decoded path",
               "fixed parts of names are lower case (watchdog compiles case-insensitively by default)"]
FILES = [WD, "python/digital_rf/list_drf.py", "python/digital_rf/ringbuffer.py"]
