"""C14 -- Listing is sound, complete, ordered and window-exact (partial).

Decides: grammar algebra of the listing regexes, the kind-selection decision tables, sorted-before-sliced /
reversed-only-after-slicing typestate, robustness of directory listing (guards), completeness of the
forward-fill look-back.  Not decided: the window arithmetic (bisect positions).
"""
from __future__ import annotations

import ast
import itertools

from ..core import Rule, AnalysisError, norm
from .. import pyfront, dtable, pyutil, cfold, pybool, rx
from . import c02

LD = "python/digital_rf/list_drf.py"
YM = "_yield_matching_files"


def r1_grammar(repo=None):
    r = Rule("C14.R1", "file / properties / sub-directory grammars partition correctly and exclude tmp. names (rx)")
    sp, pats, globs = c02.grammar_space(repo)
    L = sp.langs
    def eq(a, b, what):
        ok, w1, w2 = a.equals(b)
        if ok:
            r.ok("list_drf " + what, "languages are equal")
        else:
            r.violation(LD, "-", what, "grammar identity fails (witness %r)" % (w1 if w1 is not None else w2))
    eq(L["_RE_FILE"], L["_RE_DRFFILE"] | L["_RE_DMDFILE"], "L(_RE_FILE) = L(_RE_DRFFILE) | L(_RE_DMDFILE)")
    eq(L["_RE_PROPFILE"], L["_RE_DRFPROPFILE"] | L["_RE_DMDPROPFILE"], "L(_RE_PROPFILE) = L(_RE_DRFPROPFILE) | L(_RE_DMDPROPFILE)")
    for a, b in (("_RE_DRFFILE", "_RE_DMDFILE"), ("_RE_FILE", "_RE_PROPFILE")):
        w = (L[a] & L[b]).witness()
        if w is None:
            r.ok("list_drf %s & %s" % (a, b), "disjoint (a file is of exactly one kind)")
        else:
            r.violation(LD, "-", "%s & %s" % (a, b), "the two grammars overlap (witness %r): a file would be listed under the wrong "
                        "kind" % w)
    for a in ("_RE_DRFFILE", "_RE_DMDFILE", "_RE_FILE"):
        w = (L[a] & L["TMPANY"]).witness()
        if w is None:
            r.ok("list_drf %s & tmp\\." % a, "empty (in-progress files are never listed)")
        else:
            r.violation(LD, "-", "%s = %s" % (a, pats[a]), "a tmp. file name is accepted (witness %r)" % w)
    # _RE_SUBDIR is anchored at both ends: nothing longer than 19 characters (+ optional newline)
    exact = sp.regex("SUBDIR19", r"[0-9]{4}-[0-9]{2}-[0-9]{2}T[0-9]{2}-[0-9]{2}-[0-9]{2}$", fullmatch=False)
    eq(L["_RE_SUBDIR"], exact, "L(_RE_SUBDIR) = YYYY-MM-DDTHH-MM-SS anchored at both ends")
    # structure: files are taken only from matched sub-directories of directories holding a properties file
    m = pyfront.mod("list_drf", repo)

    names = matcher_names(repo)
    YMq = kernel_name(repo)
    SL = slice_name(repo)
    DD = decorate_name(repo)

    def match_guarded(view, q, regex_name, sink_attr, what, why):
        g = view.cfg(q)
        f = view.fn(q)
        mv = None
        for n in pyfront.walk_no_nested(f):
            if isinstance(n, ast.Assign) and isinstance(n.value, ast.Call) and isinstance(n.value.func, ast.Attribute) \
                    and n.value.func.attr == "match" and pyfront.dotted(n.value.func.value) == regex_name \
                    and isinstance(n.targets[0], ast.Name):
                mv = n.targets[0].id
        # the list may be built under another name and handed over by (tuple) assignment: follow plain copies
        aliases = {sink_attr}
        changed = True
        while changed:
            changed = False
            for n in pyfront.walk_no_nested(f):
                if isinstance(n, ast.Assign) and len(n.targets) == 1:
                    t, v = n.targets[0], n.value
                    pairs = []
                    if isinstance(t, ast.Name) and isinstance(v, ast.Name):
                        pairs.append((t.id, v.id))
                    if isinstance(t, (ast.Tuple, ast.List)) and isinstance(v, (ast.Tuple, ast.List)) and len(t.elts) == len(v.elts):
                        pairs += [(a_.id, b_.id) for a_, b_ in zip(t.elts, v.elts) if isinstance(a_, ast.Name) and isinstance(b_, ast.Name)]
                    for a_, b_ in pairs:
                        if a_ in aliases and b_ not in aliases:
                            aliases.add(b_)
                            changed = True
        sinks = [x for x in g.nodes if any(isinstance(c.func, ast.Attribute) and c.func.attr == "append"
                                           and pyfront.dotted(c.func.value) in aliases for c in pyfront.node_calls(x))]
        if mv is None or not sinks:
            raise AnalysisError("%s: `%s.match(...)` result or `%s.append` not found" % (q, regex_name, sink_attr))
        if all(pyutil.truth_guarded(g, x.id, mv) for x in sinks):
            r.ok("%s:%s %s" % (m.rel, sinks[0].line, q), what)
            return
        # the match result may reach the sink through other locals (a helper returning None for "no match", inlined): path-sensitive
        # truthiness of all simple locals; a violation needs a state at the sink in which the match is known to have failed
        assigned = {t.id for n in pyfront.walk_no_nested(f) if isinstance(n, ast.Assign) for t in n.targets if isinstance(t, ast.Name)}
        tested = set()
        for cn in g.nodes:
            if cn.kind == "cond" and cn.ast is not None:
                e_ = cn.ast
                if isinstance(e_, ast.Compare) and isinstance(e_.left, ast.Name):
                    e_ = e_.left
                if isinstance(e_, ast.Name):
                    tested.add(e_.id)
        simple = ({mv} | tested) & (assigned | {mv})
        changed = True
        while changed:          # the locals a tested one is a plain copy of
            changed = False
            for n in pyfront.walk_no_nested(f):
                if isinstance(n, ast.Assign) and len(n.targets) == 1 and isinstance(n.targets[0], ast.Name) and n.targets[0].id in simple \
                        and isinstance(n.value, ast.Name) and n.value.id in assigned and n.value.id not in simple:
                    simple.add(n.value.id)
                    changed = True
        simple = sorted(simple)
        if len(simple) > 10:
            raise AnalysisError("%s: too many locals (%d) between the %s match and `%s.append` for the path-sensitive pass" % (q, len(simple), regex_name, sink_attr))
        IN, idx = pyutil.truth_states(g, simple, skip=())
        verdicts = []
        for x in sinks:
            sts = IN.get(x.id, set())
            vals = {st[idx[mv]] for st in sts} if mv in idx else {"U"}
            verdicts.append(vals)
        if all(v and v <= {"T"} for v in verdicts):
            r.ok("%s:%s %s" % (m.rel, sinks[0].line, q), what + " (path-sensitive)")
        elif any("F" in v for v in verdicts):
            r.violation(m.rel, q, "%s.append not guarded by the %s match" % (sink_attr, regex_name), why, line=sinks[0].line)
        else:
            raise AnalysisError("%s: whether `%s.append` is reached only after a successful %s match was not decided" % (q, sink_attr, regex_name))

    dd = m.fn(DD)
    ret = [n for n in pyfront.walk_no_nested(dd) if isinstance(n, ast.Return) and isinstance(n.value, ast.Name)]
    rparam = [a_.arg for a_ in dd.args.args if any(isinstance(x, ast.Call) and isinstance(x.func, ast.Attribute) and x.func.attr == "match"
              and isinstance(x.func.value, ast.Name) and x.func.value.id == a_.arg for x in ast.walk(dd))]
    if not ret or len(rparam) != 1:
        raise AnalysisError("%s: returned list / regex parameter not found" % DD)
    match_guarded(m, DD, rparam[0], ret[0].value.id,
                  "a file name is kept only if %s.match(name) succeeded" % rparam[0],
                  "files that do not match the requested kind could be listed")
    kv = m.flat(YMq, keep=(SL, DD))
    ym = kv.fn()
    subl = None
    for n in pyfront.walk_no_nested(ym):
        if isinstance(n, ast.Call) and pyfront.call_name(n) == SL and n.args and isinstance(n.args[0], ast.Name) \
                and any(k.arg == "ffill" and pyfront.const(k.value) is True for k in n.keywords):
            subl = n.args[0].id
    if subl is None:
        raise AnalysisError("%s: sub-directory list (sliced with ffill=True) not found" % YMq)
    match_guarded(kv, YMq, names["_RE_SUBDIR"], subl, "only directory names matching the sub-directory grammar are searched for files",
                  "files outside the timestamped sub-directory structure could be listed")
    if any(isinstance(n, ast.Assign) and isinstance(n.targets[0], ast.Subscript) and pyfront.dotted(n.targets[0].value) == "dirs"
           and isinstance(n.targets[0].slice, ast.Slice) for n in pyfront.walk_no_nested(ym)):
        r.ok("%s %s dirs[:] = ..." % (m.rel, YMq), "timestamped sub-directories are removed from the recursion list in place")
    else:
        r.violation(m.rel, YMq, "dirs[:] not reassigned", "os.walk would descend into the timestamped sub-directories and list their "
                    "content again as if they were channels", line=ym.lineno)
    # every call site of the per-channel generator is reachable only with a non-empty list of properties files
    params = [a_.arg for a_ in m.fn(YMq).args.args]
    n_sites = 0
    for q2, f2 in m.functions.items():
        if "." in q2:
            continue
        g2 = None
        for c in pyfront.walk_no_nested(f2):
            if isinstance(c, ast.Call) and pyfront.call_name(c) == YMq:
                n_sites += 1
                g2 = g2 or m.cfg(q2)
                node = [x for x in g2.nodes if any(cc is c for cc in pyfront.node_calls(x))]
                pa = c.args[2] if len(c.args) >= 3 else pyfront.kwarg(c, params[2] if len(params) > 2 else "props")
                if not node or not isinstance(pa, ast.Name):
                    raise AnalysisError("%s: properties argument of %s not recognised" % (q2, YMq))
                if pyutil.truth_guarded(g2, node[0].id, pa.id):
                    r.ok("%s:%s %s" % (m.rel, c.lineno, q2), "data files are only listed for directories that hold a properties file (`%s` "
                         "is non-empty here)" % pa.id)
                else:
                    r.violation(m.rel, q2, "%s called without a non-empty properties list" % YMq, "files could be listed from a directory "
                                "that is not a channel", line=c.lineno)
    if n_sites < 2:
        raise AnalysisError("list_drf: expected 2 call sites of %s, found %d" % (YMq, n_sites))
    r.guard(11)
    return r


def _anc(m, n):
    p = m.parents.get(n)
    while p is not None:
        yield p
        p = m.parents.get(p)


def matcher_names(repo=None):
    """{reference name: actual module-level name} of list_drf's private compiled matchers (they may have been renamed)"""
    fo = cfold.Folder(repo)
    out = {}
    for ref in ("_RE_FILE", "_RE_DRFFILE", "_RE_DMDFILE", "_RE_PROPFILE", "_RE_DRFPROPFILE", "_RE_DMDPROPFILE", "_RE_SUBDIR"):
        fo.name("list_drf", ref)
        out[ref] = fo.aliases.get(("list_drf", ref), ref)
    return out


def slice_name(repo=None):
    """the bisecting window function: the module function that calls bisect.*"""
    m = pyfront.mod("list_drf", repo)
    c = [q for q, f in m.functions.items() if "." not in q and any(
        isinstance(x, ast.Call) and (pyfront.call_name(x) or "").startswith("bisect.") for x in ast.walk(f))]
    if len(c) != 1:
        raise AnalysisError("list_drf: the bisecting slice function was not found exactly once (%s)" % c)
    return c[0]


def decorate_name(repo=None):
    """the function that turns file names into (time, path) pairs: takes a regex parameter, calls <param>.match(..) in a loop and
    appends tuples to the list it returns"""
    m = pyfront.mod("list_drf", repo)
    out = []
    for q, f in m.functions.items():
        if "." in q:
            continue
        params = {a.arg for a in f.args.args}
        has_match = any(isinstance(x, ast.Call) and isinstance(x.func, ast.Attribute) and x.func.attr == "match"
                        and isinstance(x.func.value, ast.Name) and x.func.value.id in params for x in ast.walk(f))
        appends_tuple = any(isinstance(x, ast.Call) and isinstance(x.func, ast.Attribute) and x.func.attr == "append" and x.args
                            and isinstance(x.args[0], ast.Tuple) for x in ast.walk(f))
        if has_match and appends_tuple and any(isinstance(x, ast.Return) and isinstance(x.value, ast.Name) for x in ast.walk(f)):
            out.append(q)
    if len(out) != 1:
        raise AnalysisError("list_drf: the function decorating file names with their time was not found exactly once (%s)" % out)
    return out[0]


def kernel_name(repo=None):
    """the per-channel listing generator: the module-level generator (not ilsdrf) that decides the file regex from the
    properties files present (with its private helpers inlined)"""
    m = pyfront.mod("list_drf", repo)
    names = matcher_names(repo)
    cands = []
    for q, f in m.functions.items():
        if "." in q or q == "ilsdrf":
            continue
        if not any(isinstance(n, (ast.Yield, ast.YieldFrom)) for n in pyfront.walk_no_nested(f)):
            continue
        fl = m.flat(q).fn()
        if any(isinstance(n, ast.Name) and n.id == names["_RE_DRFPROPFILE"] for n in ast.walk(fl)):
            cands.append(q)
    if len(cands) != 1:
        raise AnalysisError("list_drf: the per-channel listing generator was not found exactly once (%s)" % cands)
    return cands[0]


def file_table(repo=None):
    """(include_drf, include_dmd, has_drf_props, has_dmd_props) -> chosen file regex (reference name) or None, by abstract
    execution of the per-channel generator with its helpers inlined"""
    m = pyfront.mod("list_drf", repo)
    names = matcher_names(repo)
    back = {v: k for k, v in names.items()}
    kq = kernel_name(repo)
    ym = m.flat(kq).fn()
    body = [s for s in ym.body if not (isinstance(s, ast.Expr) and isinstance(s.value, ast.Constant))]
    file_matchers = {names[k] for k in ("_RE_FILE", "_RE_DRFFILE", "_RE_DMDFILE")}
    out = {}
    for idrf, idmd, hdrf, hdmd in itertools.product((True, False), repeat=4):
        it = dtable.Interp({"include_drf": idrf, "include_dmd": idmd, "has:" + names["_RE_DRFPROPFILE"]: hdrf,
                            "has:" + names["_RE_DMDPROPFILE"]: hdmd}, module=m)
        it.run(body, stop_at=lambda s_: isinstance(s_, (ast.For, ast.While)) and not (
            isinstance(s_, ast.For) and isinstance(s_.target, ast.Name) and s_.target.id.startswith("__once_")))
        chosen = {v[1] for k, v in it.env.items() if isinstance(v, tuple) and len(v) == 2 and v[0] == "sym" and v[1] in file_matchers
                  and not k.startswith("has:")}
        if it.returned and not chosen:
            out[(idrf, idmd, hdrf, hdmd)] = None
        elif len(chosen) == 1:
            out[(idrf, idmd, hdrf, hdmd)] = back[list(chosen)[0]]
        elif not chosen:
            out[(idrf, idmd, hdrf, hdmd)] = None
        else:
            raise AnalysisError("%s: more than one file regex in play for include_drf=%s include_dmd=%s (%s)" % (kq, idrf, idmd, sorted(chosen)))
    return m, ym, out


def prop_table(repo=None):
    """(include_drf, include_dmd, include_drf_properties, include_dmd_properties) -> properties regex (reference name) used by
    ilsdrf, or None: abstract execution of ilsdrf (helpers inlined) up to its directory walk"""
    m = pyfront.mod("list_drf", repo)
    names = matcher_names(repo)
    back = {v: k for k, v in names.items()}
    il = m.flat("ilsdrf").fn()
    body = [s for s in il.body if not (isinstance(s, ast.Expr) and isinstance(s.value, ast.Constant))]
    prop_matchers = {names[k] for k in ("_RE_PROPFILE", "_RE_DRFPROPFILE", "_RE_DMDPROPFILE")}
    out = {}
    for idrf, idmd in itertools.product((True, False), repeat=2):
        for pdrf, pdmd in itertools.product((True, False, None), repeat=2):
            it = dtable.Interp({"include_drf": idrf, "include_dmd": idmd, "include_drf_properties": pdrf,
                                "include_dmd_properties": pdmd, "starttime": None, "endtime": None}, module=m)
            it.run(body, stop_at=lambda s_: (isinstance(s_, (ast.For, ast.While)) and not (
                isinstance(s_, ast.For) and isinstance(s_.target, ast.Name) and s_.target.id.startswith("__once_")))
                or (isinstance(s_, ast.Assign) and norm(ast.unparse(s_)).startswith("path = ")))
            chosen = {v[1] for k, v in it.env.items() if isinstance(v, tuple) and len(v) == 2 and v[0] == "sym" and v[1] in prop_matchers}
            inc = it.env.get("include_properties", True)
            if len(chosen) > 1:
                raise AnalysisError("ilsdrf: more than one properties regex in play (%s)" % sorted(chosen))
            out[(idrf, idmd, pdrf, pdmd)] = back[list(chosen)[0]] if (chosen and inc) else None
    return m, il, out


def r2_kind_tables(repo=None):
    r = Rule("C14.R2", "the regex chosen is the union of the requested kinds present, for every flag combination (dtable)")
    m, ym, ft = file_table(repo)
    bad = 0
    for (idrf, idmd, hdrf, hdmd), got in sorted(ft.items(), key=str):
        yd, ym_ = idrf and hdrf, idmd and hdmd
        want = "_RE_FILE" if (yd and ym_) else "_RE_DRFFILE" if yd else "_RE_DMDFILE" if ym_ else None
        if got != want:
            bad += 1
            r.violation(m.rel, kernel_name(repo), "include_drf=%s include_dmd=%s drf_props=%s dmd_props=%s -> %s" % (idrf, idmd, hdrf, hdmd, got),
                        "expected %s: files of an excluded kind would be listed, or requested files missed" % want, line=ym.lineno)
    if not bad:
        r.ok("%s:%s %s" % (m.rel, ym.lineno, kernel_name(repo)), "all 16 rows (include flags x channel kinds) select the union of requested kinds present")
    m, il, pt = prop_table(repo)
    bad = 0
    for (idrf, idmd, pdrf, pdmd), got in sorted(pt.items(), key=str):
        ed = idrf if pdrf is None else pdrf
        em = idmd if pdmd is None else pdmd
        want = "_RE_PROPFILE" if (ed and em) else "_RE_DRFPROPFILE" if ed else "_RE_DMDPROPFILE" if em else None
        if got != want:
            bad += 1
            r.violation(m.rel, "ilsdrf", "include_drf=%s include_dmd=%s drf_properties=%s dmd_properties=%s -> %s" % (
                idrf, idmd, pdrf, pdmd, got), "expected %s: property files are not listed according to their own flags" % want,
                line=il.lineno)
    if not bad:
        r.ok("%s:%s ilsdrf" % (m.rel, il.lineno), "all 36 rows select the properties regex of the effective property flags "
             "(None defaults to the data flag)")
    r.guard(2)
    return r


def _classify(node, var, sorted_helpers=()):
    """'sort' | 'mut' | None : effect of CFG node on the sortedness of list variable `var`."""
    a = node.ast
    if a is None or isinstance(a, ast.withitem):
        return None
    kind = None
    for c in pyfront.node_calls(node):
        if isinstance(c.func, ast.Attribute) and pyfront.dotted(c.func.value) == var:
            if c.func.attr == "sort":
                kind = "sort" if pyfront.kwarg(c, "reverse") is None else "mut"
            elif c.func.attr in ("append", "extend", "insert", "reverse"):
                kind = "mut"
            # pop / remove / clear take elements away: a sorted list stays sorted
    if isinstance(a, ast.Assign) and any(isinstance(t, ast.Name) and t.id == var for t in a.targets):
        v = a.value
        if isinstance(v, ast.Call) and pyfront.call_name(v) == "sorted" and pyfront.kwarg(v, "reverse") is None:
            kind = "sort"
        elif isinstance(v, ast.Call) and pyfront.call_name(v) in sorted_helpers and any(
                isinstance(x, ast.Name) and x.id == var for x in v.args):
            kind = None  # helper returns its (sorted) argument unchanged or a freshly sorted list: state preserved
        elif isinstance(v, ast.Subscript) and isinstance(v.value, ast.Name) and v.value.id == var and isinstance(v.slice, ast.Slice) \
                and (v.slice.step is None or (isinstance(pyfront.const(v.slice.step), int) and pyfront.const(v.slice.step) > 0)):
            kind = None  # a forward slice of the sorted list is sorted
        elif isinstance(v, ast.Call) and pyfront.call_name(v) in ("list", "tuple") and len(v.args) == 1 \
                and isinstance(v.args[0], ast.Name) and v.args[0].id == var:
            kind = None  # a copy
        else:
            kind = "mut"
    if isinstance(a, ast.Assign) and any(isinstance(t, (ast.Tuple, ast.List)) and any(
            isinstance(e, ast.Name) and e.id == var for e in t.elts) for t in a.targets):
        kind = "mut"       # bound by tuple unpacking: contents unknown
    if isinstance(a, ast.AugAssign) and isinstance(a.target, ast.Name) and a.target.id == var:
        kind = "mut"
    return kind


def sortedness_preserving_helpers(m):
    """Module functions whose every return value is a sorted list provided their list argument was sorted: each `return X` returns
    either a parameter that the function never modifies, or a list that was sort()ed after its last modification on every path
    to that return (so: sorted argument in => sorted result out)."""
    out = set()
    for q, f in m.functions.items():
        if "." in q or "<locals>" in q:
            continue
        allrets = [n for n in pyfront.walk_no_nested(f) if isinstance(n, ast.Return)]
        rets = [n for n in allrets if isinstance(n.value, ast.Name)]
        if not rets or len(rets) != len(allrets):
            continue
        params = [a_.arg for a_ in f.args.args]
        g = m.cfg(q)
        ok = True
        any_param = False
        any_sorted = False
        for rn_ast in rets:
            var = rn_ast.value.id
            rnode = [x for x in g.nodes if x.ast is rn_ast]
            if not rnode:
                ok = False
                break
            sorts = [x.id for x in g.nodes if _classify(x, var) == "sort"]
            muts = [x for x in g.nodes if _classify(x, var) == "mut"]
            if var in params and not muts:
                any_param = True
                continue
            if muts and not any(rnode[0].id in g.reach([mu.id], avoid=sorts, skip_labels=("exc",)) for mu in muts):
                any_sorted = True
                continue
            if var in params and muts and not any(rnode[0].id in g.reach([mu.id], avoid=sorts, skip_labels=("exc",)) for mu in muts):
                any_sorted = True
                continue
            ok = False
            break
        if ok and (any_sorted or any_param) and any_sorted:
            out.add(q)
        elif ok and any_param and not any_sorted:
            pass    # identity function on its argument: nothing to say
    return out


def r3_sorted_before_sliced(repo=None):
    r = Rule("C14.R3", "lists are sorted before they are bisected; reversal is applied only to the sliced result (typestate)")
    m = pyfront.mod("list_drf", repo)
    helpers = sortedness_preserving_helpers(m)
    SL = slice_name(repo)
    n_calls = 0
    for q, f0 in m.functions.items():
        if "<locals>" in q or "." in q or q == SL:
            continue
        view = m.flat(q, keep=(SL,) + tuple(helpers))
        f = view.fn()
        g = None
        for c in pyfront.walk_no_nested(f):
            if not (isinstance(c, ast.Call) and pyfront.call_name(c) == SL and c.args and isinstance(c.args[0], ast.Name)):
                continue
            n_calls += 1
            g = g or view.cfg()
            var = c.args[0].id
            n = [x for x in g.nodes if any(cc is c for cc in pyfront.node_calls(x))][0]
            sorts = [x.id for x in g.nodes if _classify(x, var, helpers) == "sort"]
            muts = [x for x in g.nodes if _classify(x, var, helpers) == "mut"]
            bad = [x for x in muts if n.id in g.reach([x.id], avoid=sorts, skip_labels=("exc",)) and x.id != n.id]
            site = "%s:%s %s %s(%s)" % (m.rel, n.line, q, SL, var)
            if bad:
                r.violation(m.rel, q, "%s(%s) after `%s`" % (SL, var, bad[0].label[:60]),
                            "the list can reach the bisection without a sort() after its last modification: bisect on an unsorted list "
                            "selects the wrong window", line=n.line, path=g.describe(g.path(bad[0].id, n.id, avoid=sorts) or []))
            elif not muts:
                raise AnalysisError("%s: list `%s` has no definition in this function" % (q, var))
            else:
                r.ok(site, "sorted after every modification on every path (%d modification sites, %d sort sites%s)" % (
                    len(muts), len(sorts), (", via sortedness-preserving helper(s) %s" % sorted(helpers)) if helpers else ""))
            # reversal: the list itself is never reversed before being sliced (in place or by sort(reverse=True))
            for x in g.nodes:
                for cc in pyfront.node_calls(x):
                    if isinstance(cc.func, ast.Attribute) and pyfront.dotted(cc.func.value) == var and (
                            cc.func.attr == "reverse" or (cc.func.attr == "sort" and pyfront.kwarg(cc, "reverse") is not None)):
                        if n.id in g.reach([x.id], skip_labels=("exc",)):
                            r.violation(m.rel, q, norm(ast.unparse(cc)), "the list is reversed before it is bisected (the window would be "
                                        "taken from a descending list)", line=cc.lineno)
                    if pyfront.call_name(cc) == "reversed" and cc.args and isinstance(cc.args[0], ast.Name) and cc.args[0].id == var:
                        r.violation(m.rel, q, norm(ast.unparse(cc)), "reversal applied to the whole list instead of the sliced result",
                                    line=cc.lineno)
    if n_calls < 2:
        raise AnalysisError("expected 2 calls of the bisecting slice %s in list_drf, found %d" % (SL, n_calls))
    r.guard(2)
    return r


def _in_oserror_try(m, c):
    tr = m.enclosing(c, (ast.Try,))
    while tr is not None:
        if any(c in list(ast.walk(s)) for s in tr.body):
            for h in tr.handlers:
                names = [pyfront.dotted(h.type)] if h.type is not None and not isinstance(h.type, ast.Tuple) else (
                    [pyfront.dotted(e) for e in h.type.elts] if h.type is not None else ["*"])
                if any(x in ("OSError", "IOError", "EnvironmentError", "Exception", "*") for x in names):
                    return True
        tr = m.enclosing(tr, (ast.Try,))
    return False


def r4_robust_listing(repo=None):
    r = Rule("C14.R4", "listing never fails on empty or vanishing sub-directories (guards)")
    m = pyfront.mod("list_drf", repo)
    n_ld = 0
    for q, f in m.functions.items():
        if "<locals>" in q:
            continue
        params = {a.arg for a in f.args.args}
        for c in pyfront.walk_no_nested(f):
            if isinstance(c, ast.Call) and pyfront.call_name(c) == "os.listdir":
                n_ld += 1
                site = "%s:%s %s `%s`" % (m.rel, c.lineno, q, norm(ast.unparse(c)))
                if _in_oserror_try(m, c):
                    r.ok(site, "inside try/except OSError (a sub-directory that vanished is skipped)")
                else:
                    r.violation(m.rel, q, norm(ast.unparse(c)), "this directory listing is not guarded: a (sub-)directory removed "
                                "meanwhile (ringbuffer, mirror) makes the whole listing fail instead of yielding nothing for it", line=c.lineno)
    if n_ld < 1:
        raise AnalysisError("list_drf: expected os.listdir sites for sub-directories (2 on the reference tree), found %d" % n_ld)
    # constant subscripts of lists produced by _decorate_drf_files are guarded by a non-emptiness test
    n_sub = 0
    for q, f in m.functions.items():
        if "<locals>" in q:
            continue
        DDn = decorate_name(repo)
        lists = {n.targets[0].id for n in pyfront.walk_no_nested(f) if isinstance(n, ast.Assign) and isinstance(n.targets[0], ast.Name)
                 and isinstance(n.value, ast.Call) and pyfront.call_name(n.value) == DDn}
        if not lists:
            continue
        g = m.cfg(q)
        for n in g.nodes:
            if n.ast is None or isinstance(n.ast, (ast.withitem, ast.For)) or n.kind == "join":
                continue
            for s_ in pyfront.walk_no_nested(n.ast):
                if isinstance(s_, ast.Subscript) and isinstance(s_.value, ast.Name) and s_.value.id in lists:
                    idx = s_.slice
                    cidx = pyfront.const(idx)
                    if cidx is None and isinstance(idx, ast.UnaryOp) and isinstance(idx.op, ast.USub):
                        cidx = -pyfront.const(idx.operand) if pyfront.const(idx.operand) is not None else None
                    if not isinstance(cidx, int):
                        continue
                    n_sub += 1
                    var = s_.value.id
                    if pyutil.truth_guarded(g, n.id, var):
                        r.ok("%s:%s %s `%s`" % (m.rel, n.line, q, norm(ast.unparse(s_))), "reached only through the non-empty branch of a "
                             "truth test on `%s`" % var)
                    else:
                        r.violation(m.rel, q, norm(ast.unparse(s_)), "`%s` can be empty here (an empty or fully filtered sub-directory): "
                                    "IndexError makes the listing fail" % var, line=n.line)
    if n_sub < 1:
        r.note("no constant subscript of a list of decorated files remains (nothing to guard)")
    r.guard(1)
    return r


def _lookback_loop(repo=None):
    """(module, qualified name, flat view, loop) of the look-back loop: the backwards loop over the sub-directories before the
    selected ones that lists each of them, decorates its files and leaves when it found some - in whichever function it lives"""
    m = pyfront.mod("list_drf", repo)
    DD = decorate_name(repo)
    SL = slice_name(repo)
    cands = []
    for q, f0 in m.functions.items():
        if "<locals>" in q or "." in q:
            continue
        view = m.flat(q, keep=(DD, SL))
        f = view.fn()
        for lp in [n for n in ast.walk(f) if isinstance(n, ast.For)]:
            names = {pyfront.call_name(c) for c in ast.walk(lp) if isinstance(c, ast.Call)}
            leaves = [x for x in ast.walk(lp) if isinstance(x, (ast.Break, ast.Return))]
            backwards = (isinstance(lp.iter, ast.Call) and pyfront.call_name(lp.iter) == "range" and len(lp.iter.args) == 3
                         and norm(ast.unparse(lp.iter.args[2])) == "-1") or (
                isinstance(lp.iter, ast.Call) and pyfront.call_name(lp.iter) == "reversed")
            if "os.listdir" in names and DD in names and leaves and backwards:
                cands.append((q, view, lp))
    # a helper that is inlined into its caller shows the same loop twice (in the helper and in the caller): keep one per source position
    uniq = {}
    for q, view, lp in cands:
        uniq.setdefault((lp.lineno, lp.col_offset), (q, view, lp))
    cands = list(uniq.values())
    cands = [c for c in cands if not any(o is not c and o[1] is c[1] and any(x is o[2] for x in ast.walk(c[2]) if x is not c[2]) for o in cands)]
    if len(cands) != 1:
        raise AnalysisError("list_drf: the look-back loop (a backwards loop over earlier sub-directories that lists them, decorates their "
                            "files and leaves) was not found exactly once (%d candidates)" % len(cands))
    return m, cands[0][0], cands[0][1], cands[0][2]


def r5_lookback_complete(repo=None):
    """Role-based: the look-back loop is the loop (in any function, private helpers inlined) that walks *backwards* over the
    sub-directories before the selected ones, lists each of them and leaves (break / return) when it found files.  Leaving must be
    possible only with a non-empty list of matching files."""
    r = Rule("C14.R5", "the forward-fill look-back continues until a sub-directory that holds a matching file is found")
    m, q, view, lp = _lookback_loop(repo)
    DD = decorate_name(repo)
    SL = slice_name(repo)
    it = norm(ast.unparse(lp.iter))
    back_ok = False
    if isinstance(lp.iter, ast.Call) and pyfront.call_name(lp.iter) == "range" and len(lp.iter.args) == 3 \
            and norm(ast.unparse(lp.iter.args[1])) == "-1" and norm(ast.unparse(lp.iter.args[2])) == "-1":
        start = lp.iter.args[0]
        # start = <slice start> - 1, possibly through a parameter of a helper that receives <slice>.start
        txt = norm(ast.unparse(start))
        if txt.endswith(".start - 1"):
            back_ok = True
        elif isinstance(start, ast.BinOp) and isinstance(start.op, ast.Sub) and pyfront.const(start.right) == 1 and isinstance(start.left, ast.Name):
            pname = start.left.id
            f0 = m.fn(q)
            params = [a_.arg for a_ in f0.args.args]
            for qq, ff in m.functions.items():
                for c in pyfront.walk_no_nested(ff):
                    if isinstance(c, ast.Call) and pyfront.call_name(c) == q and pname in params and params.index(pname) < len(c.args):
                        if norm(ast.unparse(c.args[params.index(pname)])).endswith(".start"):
                            back_ok = True
    if isinstance(lp.iter, ast.Call) and pyfront.call_name(lp.iter) == "reversed" and isinstance(lp.iter.args[0], ast.Name):
        pname = lp.iter.args[0].id
        f0 = m.fn(q)
        # the parameter must be bound, at the call site, to the part of the sub-directory list before the slice start
        for qq, ff in m.functions.items():
            for c in pyfront.walk_no_nested(ff):
                if isinstance(c, ast.Call) and pyfront.call_name(c) == q:
                    params = [a_.arg for a_ in f0.args.args]
                    if pname in params and params.index(pname) < len(c.args):
                        a_ = c.args[params.index(pname)]
                        if isinstance(a_, ast.Subscript) and isinstance(a_.slice, ast.Slice) and a_.slice.lower is None \
                                and a_.slice.upper is not None and norm(ast.unparse(a_.slice.upper)).endswith(".start"):
                            back_ok = True
    if not back_ok:
        raise AnalysisError("%s: iteration of the look-back loop not recognised: %s" % (q, it))
    r.ok("%s:%s %s look-back loop over `%s`" % (m.rel, lp.lineno, q, it), "scans every earlier sub-directory from the nearest to the oldest")
    g = view.cfg()
    flists = {n.targets[0].id for n in ast.walk(lp) if isinstance(n, ast.Assign) and isinstance(n.targets[0], ast.Name)
              and isinstance(n.value, ast.Call) and pyfront.call_name(n.value) == DD}
    # plain copies of those lists inside the loop (e.g. the result variable of an inlined helper)
    changed = True
    while changed:
        changed = False
        for n in ast.walk(lp):
            if isinstance(n, ast.Assign) and isinstance(n.targets[0], ast.Name) and isinstance(n.value, ast.Name) \
                    and n.value.id in flists and n.targets[0].id not in flists:
                flists.add(n.targets[0].id)
                changed = True
    once_breaks = set()
    for x in ast.walk(lp):
        if isinstance(x, ast.For) and x is not lp and isinstance(x.target, ast.Name) and x.target.id.startswith("__once_"):
            once_breaks |= {id(b_) for b_ in ast.walk(x) if isinstance(b_, ast.Break)}
    for b in [x for x in ast.walk(lp) if isinstance(x, (ast.Break, ast.Return)) and id(x) not in once_breaks]:
        bn = [n for n in g.nodes if n.ast is b]
        if bn and flists and any(pyutil.truth_guarded(g, bn[0].id, v) for v in flists):
            r.ok("%s:%s %s" % (m.rel, b.lineno, q), "the loop is left only when the matching files of that sub-directory (`%s`) are non-empty" % sorted(flists)[0])
        elif not bn:
            raise AnalysisError("%s: exit of the look-back loop not found in the CFG" % q)
        else:
            r.violation(m.rel, q, "%s in the look-back loop not guarded by a non-empty file list" % ("break" if isinstance(b, ast.Break) else "return"),
                        "the search for the latest metadata file before the start time stops at an empty (or tmp-only) sub-directory, so "
                        "the forward-fill file is missing from the listing", line=b.lineno)
    r.guard(2)
    return r


def r6_reverse_changes_only_the_order(repo=None):
    """`reverse` may change the order in which sub-directories and files are visited, never which files are selected.  The
    per-channel generator (private helpers inlined) is interpreted for reverse = False / True over a symbolic list of three
    sub-directories [e0, e1, e2] (ascending): (a) the sub-directory loop visits them in ascending, resp. exactly reversed order;
    (b) every expression that selects files inside that loop - the arguments of the bisecting slice and every condition - has, for
    each sub-directory, the same partially evaluated form in both modes (the loop-bound position counter and the flag become
    constants, comparisons and and/or/not over constants are folded); (c) the loop that yields the files iterates over the sliced
    list, resp. exactly its reverse.  A position counter taken from the *visiting* order (so that `k == 0` names the latest
    sub-directory when reversed) is the defect this finds."""
    from .. import pyorder, pysym
    r = Rule("C14.R6", "reversing the listing changes only the order of the files, not the set")
    m = pyfront.mod("list_drf", repo)
    q = kernel_name(repo)
    DD = decorate_name(repo)
    SL = slice_name(repo)
    view = m.flat(q, keep=(DD, SL), depth=4)
    fn = view.fn()
    params = [a.arg for a in fn.args.args]
    if "reverse" not in params:
        raise AnalysisError("%s: no `reverse` parameter" % q)
    FLAG = "reverse"
    yields = [n for n in pyfront.walk_no_nested(fn) if isinstance(n, (ast.Yield, ast.YieldFrom))]
    parents = {}
    for n in ast.walk(fn):
        for ch in ast.iter_child_nodes(n):
            parents[ch] = n

    def enclosing_loops(n):
        out = []
        p = parents.get(n)
        while p is not None:
            if isinstance(p, ast.For) and not (isinstance(p.target, ast.Name) and p.target.id.startswith("__once_")):
                out.append(p)
            p = parents.get(p)
        return out
    outer = None
    for y in yields:
        ls = enclosing_loops(y)
        if not ls:
            raise AnalysisError("%s: a yield outside the sub-directory loop" % q)
        if outer is None:
            outer = ls[-1]
        elif outer is not ls[-1]:
            raise AnalysisError("%s: files are yielded from more than one outer loop" % q)
    if outer is None:
        raise AnalysisError("%s: no yield found" % q)

    def stmt_of(n):
        while n is not None and not isinstance(n, ast.stmt):
            n = parents.get(n)
        return n

    per_mode = {}
    for mode in (False, True):
        ev = pyorder.SeqEval(fn, FLAG, mode, neutral=(SL,))
        try:
            seq = ev.value(outer.iter, outer)
        except pyorder.Unknown as e:
            raise AnalysisError("%s: order of the sub-directory loop not evaluated for reverse=%s (%s)" % (q, mode, e))
        binds = []
        for v in seq:
            env = {}
            try:
                pyorder.bind(outer.target, v, env)
            except pyorder.Unknown as e:
                raise AnalysisError("%s: %s" % (q, e))
            el = pyorder.elem_of(v)
            if el is None:
                raise AnalysisError("%s: loop value does not carry one sub-directory" % q)
            binds.append((el, env))
        per_mode[mode] = (ev, binds)
    order_f = [el for el, _ in per_mode[False][1]]
    order_r = [el for el, _ in per_mode[True][1]]
    site = "%s:%s %s" % (m.rel, outer.lineno, q)
    if sorted(order_f) != list(range(pyorder.N)) or sorted(order_r) != list(range(pyorder.N)):
        r.violation(m.rel, q, "for %s in %s" % (norm(ast.unparse(outer.target)), norm(ast.unparse(outer.iter))[:80]),
                    "the sub-directory loop does not visit every selected sub-directory once (forward: %s, reversed: %s)" % (order_f, order_r),
                    line=outer.lineno)
        return r
    if order_f != list(range(pyorder.N)) or order_r != list(reversed(range(pyorder.N))):
        r.violation(m.rel, q, "for %s in %s" % (norm(ast.unparse(outer.target)), norm(ast.unparse(outer.iter))[:80]),
                    "sub-directories are visited in the order %s (forward) / %s (reversed) of the ascending list; ascending and "
                    "exactly descending are required" % (order_f, order_r), line=outer.lineno)
        return r
    r.ok(site, "sub-directories visited in ascending order, exactly reversed when `reverse`")

    # (b) selection expressions inside the loop
    exprs = []
    for n in ast.walk(outer):
        if n is outer:
            continue
        if isinstance(n, (ast.If, ast.While, ast.IfExp)):
            exprs.append(("condition", n.test, n))
        elif isinstance(n, ast.Call) and pyfront.call_name(n) == SL:
            for a in n.args[1:]:
                exprs.append(("argument of %s" % SL, a, n))
            for k in n.keywords:
                exprs.append(("argument %s= of %s" % (k.arg, SL), k.value, n))
    n_sel = 0
    tainted_pre = pyorder.flag_tainted(fn, FLAG, outer)
    bound_names = {x.id for x in ast.walk(outer.target) if isinstance(x, ast.Name)}
    for what, e, holder in exprs:
        st = stmt_of(holder)
        # the same expression is evaluated for reverse = False / True and only the two results are compared; dependence on the flag
        # through branches is decided separately (definitions under `if reverse:` by mode, flag-taint of names set before the loop)
        loc = pysym.seq_env(outer.body, stop=st, track=False)
        loc = {k: v for k, v in loc.items() if not k.startswith("__once_")}
        e2 = pysym.subst(e, loc)
        # names set before the loop whose value depends on the flag (e.g. the position of the earliest sub-directory in visiting
        # order): evaluated per mode; not evaluable -> not decided
        pre = {False: {}, True: {}}
        for nm in sorted({x.id for x in ast.walk(e2) if isinstance(x, ast.Name) and isinstance(x.ctx, ast.Load)} & tainted_pre):
            if nm in bound_names:
                continue
            for mode in (False, True):
                try:
                    pre[mode][nm] = per_mode[mode][0].intval(ast.Name(nm, ast.Load()), outer)
                except pyorder.Unknown as ex:
                    raise AnalysisError("%s: `%s` is set before the sub-directory loop depending on `reverse` and is used in %s `%s`; its "
                                        "value was not evaluated (%s)" % (q, nm, what, norm(ast.unparse(e))[:60], ex))
        sym_f = pyorder.residual(e2, pre[False], FLAG, False)
        sym_r = pyorder.residual(e2, pre[True], FLAG, True)
        direct = sym_f != sym_r
        if direct and pyorder.flag_value(e, FLAG, True) is not None:
            continue        # a pure order switch (a function of the flag alone): judged under (a) and (c)
        n_sel += 1
        for el in range(pyorder.N):
            env_f = dict(pre[False], **[env for x, env in per_mode[False][1] if x == el][0])
            env_r = dict(pre[True], **[env for x, env in per_mode[True][1] if x == el][0])
            rf = pyorder.residual(e2, env_f, FLAG, False)
            rr = pyorder.residual(e2, env_r, FLAG, True)
            if rf != rr and direct and what == "condition":
                # mentions the flag itself and does not cancel out: may be an order switch with an extra condition - not decided
                raise AnalysisError("%s: %s `%s` depends on `reverse` directly; not recognised as an order switch"
                                    % (q, what, norm(ast.unparse(e))[:80]))
            if rf != rr:
                pos = {0: "earliest", pyorder.N - 1: "latest"}.get(el, "middle")
                r.violation(m.rel, q, "%s `%s`" % (what, norm(ast.unparse(e))[:100]),
                            "for the %s of %d selected sub-directories this is `%s` in a forward listing and `%s` in a reversed one "
                            "(loop variables forward %s, reversed %s): the set of files listed depends on `reverse`"
                            % (pos, pyorder.N, rf[:80], rr[:80],
                               {k: v for k, v in env_f.items() if isinstance(v, int)}, {k: v for k, v in env_r.items() if isinstance(v, int)}),
                            line=getattr(e, "lineno", None))
                break
    if n_sel == 0:
        raise AnalysisError("%s: no selection expression found in the sub-directory loop" % q)
    if not r.findings:
        r.ok(site, "%d conditions / slice arguments in the loop have the same form for every sub-directory in both orders" % n_sel)

    # (c) the yielded sequence
    for y in yields:
        ls = enclosing_loops(y)
        inner = ls[0] if ls[0] is not outer else None
        if inner is None:
            if isinstance(y, ast.YieldFrom):
                target_expr, at = y.value, stmt_of(y)
            else:
                raise AnalysisError("%s: files are yielded directly from the sub-directory loop" % q)
        else:
            if len(ls) != 2:
                raise AnalysisError("%s: yield nested in %d loops" % (q, len(ls)))
            target_expr, at = inner.iter, inner
        seqs = {}
        bases = {}
        for mode in (False, True):
            ev = pyorder.SeqEval(fn, FLAG, mode, neutral=(SL,))
            try:
                seqs[mode] = [pyorder.elem_of(v) if not isinstance(v, pyorder.Elem) else v.i for v in ev.value(target_expr, at)]
            except pyorder.Unknown as e:
                if r.findings:
                    return r        # the selection already differs: reported above
                raise AnalysisError("%s: order of the yielding loop not evaluated for reverse=%s (%s)" % (q, mode, e))
            bases[mode] = list(ev.bases)
        cons = "yield loop over %s" % norm(ast.unparse(target_expr))[:80]
        if bases[False] != bases[True]:
            r.violation(m.rel, q, cons, "the files yielded come from `%s` in a forward listing and from `%s` in a reversed one"
                        % (bases[False], bases[True]), line=at.lineno)
        elif seqs[False] != list(range(pyorder.N)) or seqs[True] != list(reversed(range(pyorder.N))):
            r.violation(m.rel, q, cons, "the selected files %s are yielded in the order %s (forward) / %s (reversed); ascending and exactly "
                        "descending are required" % (bases[False], seqs[False], seqs[True]), line=at.lineno)
        else:
            r.ok("%s:%s %s" % (m.rel, at.lineno, q), "files of `%s` yielded ascending, exactly reversed when `reverse`" % bases[False][0])

    # uses of the flag in the public generator (and in private generators between it and the per-channel one)
    def uses(fname, seen):
        f = m.fn(fname)
        par = {}
        for x in ast.walk(f):
            for ch in ast.iter_child_nodes(x):
                par[ch] = x
        for n in ast.walk(f):
            if not (isinstance(n, ast.Name) and n.id == FLAG and isinstance(n.ctx, ast.Load)):
                continue
            p = par.get(n)
            if isinstance(p, ast.keyword) and p.arg == "reverse":
                continue
            if isinstance(p, ast.Call) and n in p.args and isinstance(p.func, ast.Name) and p.func.id in m.functions:
                callee = m.functions[p.func.id]
                cp = [a_.arg for a_ in callee.args.args]
                i = p.args.index(n)
                if i < len(cp) and cp[i] == FLAG:
                    if p.func.id != q and p.func.id not in seen:
                        uses(p.func.id, seen + (p.func.id,))
                    continue
            raise AnalysisError("%s: use of `reverse` other than as a `reverse=` keyword or passed on as the `reverse` parameter: `%s`"
                                % (fname, norm(ast.unparse(p))[:80]))
    uses("ilsdrf", ("ilsdrf",))
    r.ok("%s ilsdrf" % m.rel, "`reverse` is only passed on (sort order of directories / properties, the per-channel generator)")
    r.guard(3)
    return r


def _slice_fn(repo):
    m = pyfront.mod("list_drf", repo)
    SL = slice_name(repo)
    fn = m.fn(SL)
    params = [a.arg for a in fn.args.args]
    for need in ("starttime", "endtime", "ffill"):
        if need not in params:
            raise AnalysisError("%s: parameter `%s` not found" % (SL, need))
    parents = {}
    for n in ast.walk(fn):
        for ch in ast.iter_child_nodes(n):
            parents[ch] = n
    return m, SL, fn, params[0], parents


def _bisect_assign(fn, bound):
    """(index variable, call) for `<var> = bisect.bisect_left/right(<list>, (<bound>,), ...)`"""
    out = []
    for n in ast.walk(fn):
        if isinstance(n, ast.Assign) and len(n.targets) == 1 and isinstance(n.targets[0], ast.Name) and isinstance(n.value, ast.Call) \
                and (pyfront.call_name(n.value) or "").startswith("bisect.") and len(n.value.args) >= 2:
            probe = n.value.args[1]
            if isinstance(probe, ast.Tuple) and len(probe.elts) == 1 and isinstance(probe.elts[0], ast.Name) and probe.elts[0].id == bound:
                out.append((n.targets[0].id, n))
            elif any(isinstance(x, ast.Name) and x.id == bound for x in ast.walk(probe)):
                raise AnalysisError("bisect probe `%s` for %s not recognised (a 1-tuple (%s,) expected)" % (norm(ast.unparse(probe)), bound, bound))
    return out


def r7_window_end_inclusive(repo=None):
    """The window is [start, end] on the name timestamp, and several files can carry the same timestamp (two name prefixes, an RF and
    a metadata file of one second in a mixed or legacy channel).  The list holds (time, path) tuples and is probed with the 1-tuple
    (endtime,), which sorts before every (endtime, path): the bisect gives the first entry with time >= end, so every entry with
    time == end still has to be stepped over - by a loop.  An `if` steps over one of them (the defect this rule was written for), no
    step at all makes the end exclusive."""
    r = Rule("C14.R7", "the end of the window is inclusive for every file that carries the end timestamp")
    m, SL, fn, L, parents = _slice_fn(repo)
    bs = _bisect_assign(fn, "endtime")
    if len(bs) != 1:
        raise AnalysisError("%s: expected one bisect for the end of the window, found %d" % (SL, len(bs)))
    ke, asg = bs[0]
    eq_atom = None
    steps = []
    for n in ast.walk(fn):
        if isinstance(n, (ast.If, ast.While)):
            for left, op, right in pybool.compare_nodes(n.test):
                if isinstance(op, ast.Eq) and {norm(ast.unparse(left)), norm(ast.unparse(right))} == {"%s[%s][0]" % (L, ke), "endtime"}:
                    inc = [x for x in n.body if (isinstance(x, ast.Assign) and isinstance(x.targets[0], ast.Name) and x.targets[0].id == ke
                                                 and norm(ast.unparse(x.value)) in ("%s + 1" % ke, "1 + %s" % ke))
                           or (isinstance(x, ast.AugAssign) and isinstance(x.target, ast.Name) and x.target.id == ke
                               and isinstance(x.op, ast.Add) and pyfront.const(x.value) == 1)]
                    if inc:
                        steps.append(n)
    site = "%s:%s %s" % (m.rel, asg.lineno, SL)
    if not steps:
        others = [n for n in ast.walk(fn) if n is not asg and isinstance(n, (ast.Assign, ast.AugAssign)) and any(
            isinstance(x, ast.Name) and x.id == ke and isinstance(x.ctx, ast.Store) for x in ast.walk(n))
            and not (isinstance(n, ast.Assign) and isinstance(n.value, ast.Call) and pyfront.call_name(n.value) == "len")
            and asg.lineno < n.lineno]
        if others:
            raise AnalysisError("%s: adjustment of the end index `%s` not recognised" % (SL, norm(ast.unparse(others[0]))[:80]))
        # where does the bisect result go?  straight into the end of the returned slice (violation: positive evidence), or into a scan
        # `next((k for k in range(<ke>, <n>) if <L>[k][0] != endtime), <n>)` - the first index after all entries at endtime
        uses = [x for x in ast.walk(fn) if isinstance(x, ast.Name) and x.id == ke and isinstance(x.ctx, ast.Load)]
        direct, scans, unknown = [], [], []
        for u in uses:
            par = parents.get(u)
            if isinstance(par, ast.Call) and pyfront.call_name(par) == "slice" and len(par.args) >= 2 and par.args[1] is u:
                direct.append(par)
            elif isinstance(par, ast.Slice) and par.upper is u:
                direct.append(par)
            elif isinstance(par, ast.Tuple) and isinstance(parents.get(par), ast.Return):
                direct.append(par)
            elif isinstance(par, ast.Call) and pyfront.call_name(par) == "range" and par.args and par.args[0] is u:
                gen = parents.get(parents.get(par))          # comprehension -> GeneratorExp
                nx = parents.get(gen)
                ok_scan = False
                if isinstance(gen, ast.GeneratorExp) and isinstance(nx, ast.Call) and pyfront.call_name(nx) == "next" and len(nx.args) == 2 \
                        and len(gen.generators) == 1 and len(gen.generators[0].ifs) == 1 and isinstance(gen.generators[0].target, ast.Name) \
                        and isinstance(gen.elt, ast.Name) and gen.elt.id == gen.generators[0].target.id and len(par.args) == 2:
                    kv = gen.generators[0].target.id
                    cmp_ = list(pybool.compare_nodes(gen.generators[0].ifs[0]))
                    stop_txt = norm(ast.unparse(par.args[1]))
                    dflt_txt = norm(ast.unparse(nx.args[1]))
                    lens = {"len(%s)" % L} | {t.targets[0].id for t in ast.walk(fn) if isinstance(t, ast.Assign) and isinstance(t.targets[0], ast.Name)
                                              and norm(ast.unparse(t.value)) == "len(%s)" % L}
                    if len(cmp_) == 1 and isinstance(cmp_[0][1], ast.NotEq) and {norm(ast.unparse(cmp_[0][0])), norm(ast.unparse(cmp_[0][2]))} == {
                            "%s[%s][0]" % (L, kv), "endtime"} and stop_txt in lens and dflt_txt in lens \
                            and isinstance(gen.generators[0].ifs[0], ast.Compare):
                        ok_scan = True
                (scans if ok_scan else unknown).append(par)
            else:
                unknown.append(par)
        if scans and not direct and not unknown:
            for sc in scans:
                r.ok("%s:%s %s" % (m.rel, sc.lineno, SL), "next(k for k in range(%s, len) if %s[k][0] != endtime, len): the first index after every "
                     "entry carrying the end timestamp" % (ke, L))
            r.guard(1)
            return r
        if unknown or not direct:
            raise AnalysisError("%s: use of the end index `%s` in `%s` not recognised" % (SL, ke, norm(ast.unparse((unknown or [asg])[0]))[:80]))
        r.violation(m.rel, SL, "%s = %s" % (ke, norm(ast.unparse(asg.value))),
                    "the end index is the first entry with time >= endtime and is never advanced over the entries whose time equals "
                    "endtime: the end of the window is exclusive", line=asg.lineno)
    for n in steps:
        if isinstance(n, ast.While):
            r.ok("%s:%s %s" % (m.rel, n.lineno, SL), "`while %s` steps over every entry carrying the end timestamp" % norm(ast.unparse(n.test))[:80])
        else:
            r.violation(m.rel, SL, "if %s: %s += 1" % (norm(ast.unparse(n.test))[:80], ke),
                        "after bisecting with the probe (endtime,) the index stands before *all* entries whose time equals endtime; an "
                        "`if` advances over one of them only, so of several files that carry the end timestamp (two name prefixes, RF "
                        "and metadata file of the same second) only the first is listed", line=n.lineno)
    r.guard(1)
    return r


def r8_forward_fill_file_always_taken(repo=None):
    """'... plus - for metadata channels - the latest file before start': the file is owed whether or not another file is named
    exactly `start` (a file named by `start` need not hold a sample at `start`).  (a) In the bisecting window function the step back
    `ks - 1` under forward fill must happen for every position of the first entry >= start: its path condition, evaluated over the
    truth assignments of its atoms with `ffill` true, a start given and room to step back, must be a tautology - a conjunct such as
    `dec_list[ks][0] > starttime` fails it for an entry exactly at start.  (b) The look-back into earlier sub-directories must be
    taken when the first file of the earliest selected sub-directory is *at* start as well as after it: the condition is evaluated
    for the orderings first-file-time == / > start (atoms comparing the two follow the ordering) and whatever makes it true for `>`
    must make it true for `==`."""
    import itertools
    from .. import cbool
    r = Rule("C14.R8", "the latest metadata file before the start is listed also when a file is named exactly by the start time")
    m, SL, fn, L, parents = _slice_fn(repo)
    bs = _bisect_assign(fn, "starttime")
    if len(bs) != 1:
        raise AnalysisError("%s: expected one bisect for the start of the window, found %d" % (SL, len(bs)))
    ks, asg = bs[0]
    decs = []
    for n in ast.walk(fn):
        if isinstance(n, ast.Assign) and len(n.targets) == 1 and isinstance(n.targets[0], ast.Name) and n.targets[0].id == ks and n is not asg:
            txt = norm(ast.unparse(n.value))
            if txt in ("max(%s - 1, 0)" % ks, "max(0, %s - 1)" % ks, "%s - 1" % ks):
                decs.append(n)
            elif pyfront.const(n.value) != 0:
                raise AnalysisError("%s: adjustment of the start index `%s` not recognised" % (SL, norm(ast.unparse(n))[:80]))
        elif isinstance(n, ast.AugAssign) and isinstance(n.target, ast.Name) and n.target.id == ks:
            if isinstance(n.op, ast.Sub) and pyfront.const(n.value) == 1:
                decs.append(n)
            else:
                raise AnalysisError("%s: adjustment of the start index `%s` not recognised" % (SL, norm(ast.unparse(n))[:80]))
    if not decs:
        r.violation(m.rel, SL, "%s = %s" % (ks, norm(ast.unparse(asg.value))), "the start index is never stepped back under forward fill: "
                    "the latest file before the start is not listed", line=asg.lineno)
    fs = [pybool.path_condition(d, parents, fn) for d in decs]
    if fs:
        f = cbool.disj(fs)
        names = sorted(cbool.atoms(f))
        fixed = {}
        for a in names:
            if a == "ffill":
                fixed[a] = True
            elif a == "starttime is None":
                fixed[a] = False
            elif a in ("%s>0" % ks, "%s>=1" % ks):
                fixed[a] = True
            elif a in ("0==%s" % ks, "1>%s" % ks, "0>%s" % ks):
                fixed[a] = False
        free = [a for a in names if a not in fixed]
        if len(free) > 12:
            raise AnalysisError("%s: step-back condition too large" % SL)
        wit = None
        for bits in itertools.product((False, True), repeat=len(free)):
            val = dict(fixed)
            val.update(zip(free, bits))
            if not cbool.ev(f, val):
                wit = {k: v for k, v in val.items() if k in free}
                break
        site = "%s:%s %s" % (m.rel, decs[0].lineno, SL)
        if wit is None:
            r.ok(site, "under forward fill the start index always steps back to the latest entry before start (condition %s)" % cbool.show(f))
        else:
            r.violation(m.rel, SL, "%s stepped back only if %s" % (ks, cbool.show(f)),
                        "with forward fill requested the step back to the latest entry before start is skipped for %s - after "
                        "bisect_left the entry at the index has time >= start, so this is the case of a file named exactly by the start "
                        "time: the latest file before start is then not listed" % ", ".join("%s=%s" % kv for kv in sorted(wit.items())),
                        line=decs[0].lineno)
    # (b) the look-back condition: the `if` (mentioning starttime) around the look-back loop, or around the call of the helper
    #     that holds the loop
    _m2, lq, lview, lp = _lookback_loop(repo)
    q = kernel_name(repo)
    DD = decorate_name(repo)
    view = m.flat(q, keep=(DD, SL), depth=4)
    kf = view.fn()
    kpar = {}
    for n in ast.walk(kf):
        for ch in ast.iter_child_nodes(n):
            kpar[ch] = n
    # the loop itself when it is (or was inlined) in the kernel - inlined copies keep their source position -, else the calls of
    # the function that holds it
    anchors = [x for x in ast.walk(kf) if isinstance(x, ast.For) and (x is lp or (
        (getattr(x, "lineno", None), getattr(x, "col_offset", None)) == (lp.lineno, lp.col_offset)
        and type(x.iter) is type(lp.iter)))]
    if not anchors:
        anchors = [c for c in ast.walk(kf) if isinstance(c, ast.Call) and pyfront.call_name(c) == lq]
    guards = []
    for a_ in anchors:
        p = kpar.get(a_)
        ch = a_
        while p is not None and not isinstance(p, (ast.FunctionDef,)):
            if isinstance(p, ast.If) and any(any(y is ch for y in ast.walk(x)) for x in p.body) and any(
                    isinstance(x, ast.Name) and x.id == "starttime" for x in ast.walk(p.test)):
                if p not in guards:
                    guards.append(p)
                break
            ch = p
            p = kpar.get(p)
    if len(guards) != 1:
        raise AnalysisError("%s: the condition guarding the look-back into earlier sub-directories was not found exactly once (%d)" % (q, len(guards)))
    g = guards[0]
    test = g.test
    sem = {}
    for left, op, right in pybool.compare_nodes(test):
        a = pybool.atom_of(left, op, right)
        if a is None:
            continue
        lt, rt = norm(ast.unparse(left)), norm(ast.unparse(right))
        if "starttime" not in (lt, rt):
            continue
        atom, meaning = a
        # meaning is relative to (left, right); normalise to (other, starttime)
        if rt == "starttime":
            sem[atom] = meaning
        else:
            sem[atom] = {"gt": "lt", "lt": "gt", "eq": "eq"}[meaning]
    f = pybool.truth(test)
    if not sem:
        raise AnalysisError("%s: the look-back condition does not compare a file time with starttime: `%s`" % (q, norm(ast.unparse(test))[:100]))
    names = sorted(cbool.atoms(f))
    free = [a for a in names if a not in sem]
    if len(free) > 12:
        raise AnalysisError("%s: look-back condition too large" % q)
    wit = None
    for bits in itertools.product((False, True), repeat=len(free)):
        val = dict(zip(free, bits))
        vg = dict(val)
        ve = dict(val)
        for a, meaning in sem.items():
            vg[a] = (meaning == "gt")
            ve[a] = (meaning == "eq")
        if cbool.ev(f, vg) and not cbool.ev(f, ve):
            wit = val
            break
    site = "%s:%s %s" % (m.rel, g.lineno, q)
    if wit is None:
        r.ok(site, "the look-back is taken for a first file at the start time whenever it is taken for one after it (%s)" % cbool.show(f)[:160])
    else:
        r.violation(m.rel, q, "look-back only if %s" % cbool.show(f)[:160],
                    "the earlier sub-directories are searched when the first file of the earliest selected sub-directory is after the "
                    "start, but not when it is named exactly by the start time (%s): the latest file before start lies in an earlier "
                    "sub-directory and is not listed" % ", ".join("%s=%d" % kv for kv in sorted(wit.items())), line=g.lineno)
    r.guard(2)
    return r


def r9_grammar_names_that_are_not_times(repo=None):
    """The sub-directory and file grammars constrain digits, not values: `2017-02-30T00-00-00`, month 13, second 60 or a file whose
    seconds do not fit a timedelta match them.  Such a stray name (an empty directory is enough) must be skipped like any other
    non-matching name, not abort the listing of the whole tree.  Every `datetime.datetime(...)` / `datetime.timedelta(...)` built
    from regex groups in the functions the listing runs (the per-channel generator with its helpers inlined, the decorating function)
    must therefore sit in a `try` whose handlers catch ValueError (calendar fields out of range) resp. OverflowError (number too large)."""
    r = Rule("C14.R9", "a name that fits the grammar but is not a time is skipped, it does not make the listing fail")
    m = pyfront.mod("list_drf", repo)
    q = kernel_name(repo)
    DD = decorate_name(repo)
    SL = slice_name(repo)
    views = [(q, m.flat(q, keep=(DD, SL), depth=4)), (DD, m.flat(DD, depth=4))]
    need = {"datetime.datetime": ("ValueError",), "datetime.timedelta": ("OverflowError", "ArithmeticError")}
    seen = set()
    n = 0
    for name, view in views:
        fn = view.fn()
        par = {}
        for x in ast.walk(fn):
            for ch in ast.iter_child_nodes(x):
                par[ch] = x
        for c in ast.walk(fn):
            if not (isinstance(c, ast.Call) and pyfront.call_name(c) in need):
                continue
            from_groups = any(isinstance(x, ast.Call) and isinstance(x.func, ast.Attribute) and x.func.attr == "group" for x in ast.walk(c))
            if not from_groups:
                # arguments may be locals set from groups just before (frac = int(m.group("frac")))
                names = {x.id for x in ast.walk(c) if isinstance(x, ast.Name)}
                from_groups = any(isinstance(a, ast.Assign) and isinstance(a.targets[0], ast.Name) and a.targets[0].id in names and any(
                    isinstance(x, ast.Call) and isinstance(x.func, ast.Attribute) and x.func.attr == "group" for x in ast.walk(a.value))
                    for a in ast.walk(fn))
            if not from_groups:
                continue
            key = (getattr(c, "lineno", 0), getattr(c, "col_offset", 0), pyfront.call_name(c))
            if key in seen:
                continue
            seen.add(key)
            n += 1
            wanted = need[pyfront.call_name(c)]
            caught = False
            ch = c
            p = par.get(c)
            while p is not None and not isinstance(p, ast.FunctionDef):
                if isinstance(p, ast.Try) and any(ch is x for x in p.body):
                    for h in p.handlers:
                        types = []
                        if h.type is None:
                            types = ["BaseException"]
                        elif isinstance(h.type, ast.Tuple):
                            types = [pyfront.dotted(e) for e in h.type.elts]
                        else:
                            types = [pyfront.dotted(h.type)]
                        if any(t in wanted or t in ("Exception", "BaseException") for t in types) and not any(
                                isinstance(x, ast.Raise) for x in ast.walk(h)):
                            caught = True
                ch = p
                p = par.get(p)
            site = "%s:%s %s `%s`" % (m.rel, c.lineno, name, norm(ast.unparse(c))[:60])
            if caught:
                r.ok(site, "built from regex groups inside try/except %s" % wanted[0])
            else:
                r.violation(m.rel, name, norm(ast.unparse(c))[:80],
                            "built from the digits of a name that matched the grammar, outside any handler for %s: a stray entry such as "
                            "%s raises and aborts the listing of the whole tree (drf ls / cp / mv, mirror and ringbuffer start-up)" % (
                                wanted[0], "`2017-02-30T00-00-00/` or month 13" if wanted[0] == "ValueError" else "`rf@99999999999999999.000.h5`"),
                            line=c.lineno)
    if n < 1:
        raise AnalysisError("list_drf: expected the sub-directory date and the file time to be built from regex groups (2 sites), found %d" % n)
    if n < 2:
        r.note("only %d datetime / timedelta construction from regex groups found (a time kept as plain integer arithmetic cannot overflow)" % n)
    r.guard(1)
    return r


def r10_window_bounds_exact(repo=None):
    """'A time window selects exactly the files whose name timestamp lies in [start, end]': the bounds the caller gives are
    compared as they are.  In the public generator the window parameters may only be made timezone-aware and turned into the
    difference to the epoch; any rounding on the way (floor division to a unit, int(), round(), total_seconds() arithmetic) moves a
    bound: a start with a sub-millisecond part floored to the millisecond lists the file named by that millisecond although it
    lies before the start."""
    r = Rule("C14.R10", "the window bounds are compared exactly (no rounding of start / end before the comparison)")
    m = pyfront.mod("list_drf", repo)
    q = "ilsdrf"
    fn = m.flat(q, keep=(kernel_name(repo),), depth=3).fn()
    n_sites = 0
    ROUND_CALLS = ("int", "round", "floor", "ceil", "trunc", "total_seconds", "timestamp", "time_to_sample_ceil")
    for bound in ("starttime", "endtime"):
        if bound not in [a.arg for a in fn.args.args]:
            raise AnalysisError("%s: parameter `%s` not found" % (q, bound))
        tainted = {bound}
        assigns = sorted((a for a in ast.walk(fn) if isinstance(a, ast.Assign)), key=lambda a: (a.lineno, a.col_offset))
        seen = set()
        for _round in range(3):
            for a in assigns:
                v = a.value
                def mentions(x):
                    return any(isinstance(y, ast.Name) and y.id in tainted for y in ast.walk(x))
                if not mentions(v):
                    continue
                tg = [t.id for t in a.targets if isinstance(t, ast.Name)]
                if not tg:
                    continue
                if id(a) in seen:
                    continue
                seen.add(id(a))
                n_sites += 1
                site = "%s:%s %s `%s`" % (m.rel, a.lineno, q, norm(ast.unparse(a))[:70])
                rounding = [x for x in ast.walk(v) if mentions(x) and (
                    (isinstance(x, ast.BinOp) and isinstance(x.op, (ast.FloorDiv, ast.Div, ast.Mod)))
                    or (isinstance(x, ast.Call) and (pyfront.call_name(x) or "").split(".")[-1] in ROUND_CALLS))]
                if rounding:
                    r.violation(m.rel, q, norm(ast.unparse(a))[:80], "the %s of the window is rounded before it is compared with the name "
                                "timestamps (`%s`): a bound with a part below the rounding unit moves - a start of T + 500 us floored to "
                                "milliseconds lists the file named T, which lies before the start (and the metadata forward-fill then "
                                "adds a second, older file)" % ("start" if bound == "starttime" else "end", norm(ast.unparse(rounding[0]))[:40]),
                                line=a.lineno)
                else:
                    r.ok(site, "no rounding operation on the %s bound" % ("start" if bound == "starttime" else "end"))
                tainted.update(tg)
    if n_sites < 2:
        raise AnalysisError("%s: conversions of the window bounds not found (4 on the reference tree, found %d)" % (q, n_sites))
    r.guard(2)
    return r


def r11_sort_keys_and_vanished_first_subdir(repo=None):
    """Two facts found by the second defect hunt.  (a) 'ordered': the sort key the command line's --sortall uses is defined for every
    name a listing can yield - the union of sortkey_drf's default regular expressions contains the file grammar *and* the
    properties grammar (a key of None next to (time, name) tuples makes the sort raise).  (b) 'complete at the window start': when the
    first selected sub-directory cannot be listed (it vanished), the iteration still reaches the look-back for the metadata
    forward-fill file: no path from the OSError handler of that listing leaves the iteration (continue / back edge) without
    being able to reach the look-back loop."""
    r = Rule("C14.R11", "the sort key covers every listed name; a vanished first sub-directory does not skip the forward-fill look-back")
    m = pyfront.mod("list_drf", repo)
    f = m.fn("sortkey_drf")
    fo = cfold.Folder(repo)
    defaults = []
    for iff in ast.walk(f):
        if isinstance(iff, ast.If) and norm(ast.unparse(iff.test)) in ("regexes is None", "not regexes"):
            for a in iff.body:
                if isinstance(a, ast.Assign) and any(isinstance(t, ast.Name) and t.id == "regexes" for t in a.targets) and isinstance(a.value, (ast.List, ast.Tuple)):
                    defaults = [e.id for e in a.value.elts if isinstance(e, ast.Name)]
    if not defaults:
        d = [dv for a_, dv in zip(f.args.args[-len(f.args.defaults):], f.args.defaults) if a_.arg == "regexes"] if f.args.defaults else []
        if d and isinstance(d[0], (ast.List, ast.Tuple)):
            defaults = [e.id for e in d[0].elts if isinstance(e, ast.Name)]
    if not defaults:
        raise AnalysisError("sortkey_drf: default list of regular expressions not found")
    pats = {n: fo.name("list_drf", n) for n in set(defaults) | {"_RE_FILE", "_RE_PROPFILE"}}
    sp = rx.Space(pats, texts=["rf@.h5tmp.drf_dmd_propertiesmetadata", "0123456789"])
    union = None
    for n in defaults:
        union = sp[n] if union is None else (union | sp[n])
    for need in ("_RE_FILE", "_RE_PROPFILE"):
        ok, w = sp[need].subset_of(union)
        if ok:
            r.ok("%s:%s sortkey_drf %s" % (m.rel, f.lineno, need), "every name of L(%s) has a key with the default expressions %s" % (need, defaults))
        else:
            r.violation(m.rel, "sortkey_drf", "default regexes %s do not cover %s" % (defaults, need), "sortkey_drf returns None for a name "
                        "the listing yields (witness %r): sorting None against the (time, name) tuples of the other files raises "
                        "TypeError - `drf ls --sortall` fails whenever such a file is listed together with a data file" % w, line=f.lineno)
    # (b)
    _m2, lq, lview, lp = _lookback_loop(repo)
    g = lview.cfg()
    fn = lview.fn()
    outer = lview.enclosing(lp, (ast.For,))
    if outer is None:
        # the look-back lives in a helper of its own (it returns from inside its loop, so it is not inlined): judge the caller -
        # the loop over the selected sub-directories that calls that helper; reaching the call is reaching the look-back
        callers = []
        for q2, f2 in m.functions.items():
            if "<locals>" in q2 or "." in q2 or q2 == lq:
                continue
            v2 = m.flat(q2, keep=(lq,))
            for lp2 in [x for x in ast.walk(v2.fn()) if isinstance(x, ast.For)]:
                cs = [c for c in ast.walk(lp2) if isinstance(c, ast.Call) and pyfront.call_name(c) == lq]
                if cs and not any(isinstance(x, ast.For) and x is not lp2 and any(c is y for c in cs for y in ast.walk(x)) for x in ast.walk(lp2)):
                    callers.append((q2, v2, lp2, cs[0]))
        uniq = {}
        for q2, v2, lp2, c2 in callers:
            uniq.setdefault((lp2.lineno, lp2.col_offset), (q2, v2, lp2, c2))
        callers = list(uniq.values())
        if len(callers) != 1:
            raise AnalysisError("%s: the look-back loop is not inside the loop over the selected sub-directories, and the loop that calls "
                                "it was not found exactly once (%d)" % (lq, len(callers)))
        lq, lview, outer, call2 = callers[0]
        g = lview.cfg()
        lp_nodes = [n.id for n in g.nodes if n.ast is not None and any(call2 is y for y in (ast.walk(n.ast) if not isinstance(
            n.ast, (ast.For, ast.While, ast.If, ast.Try, ast.With)) else ast.walk(getattr(n.ast, "test", None) or getattr(n.ast, "iter", None) or ast.Pass())))]
        first_line = call2.lineno
        inside = lambda t: False
    else:
        lp_nodes = [n.id for n in g.nodes if n.ast is lp]
        first_line = lp.lineno
        inside = lambda t: any(t is x for x in ast.walk(lp))
    tries = [t for t in ast.walk(outer) if isinstance(t, ast.Try) and not inside(t)
             and any(isinstance(c, ast.Call) and pyfront.call_name(c) == "os.listdir" for st in t.body for c in ast.walk(st))
             and t.lineno < first_line]
    if not tries:
        raise AnalysisError("%s: the guarded listing of the selected sub-directory (before the look-back) was not found" % lq)
    if not lp_nodes:
        raise AnalysisError("%s: look-back (loop head / call of its helper) not in the CFG" % lq)
    for t in tries:
        for h in t.handlers:
            starts = [n.id for n in g.nodes if n.ast is not None and h.body and n.ast is h.body[0]]
            if not starts:
                starts = [n.id for n in g.nodes if n.ast is not None and any(n.ast is x for x in h.body)]
            if not starts:
                continue
            reach = g.reach(starts, skip_labels=("back", "exc"))
            site = "%s:%s %s except %s" % (m.rel, h.lineno, lq, norm(ast.unparse(h.type)) if h.type is not None else "")
            if any(i in reach for i in lp_nodes) or any(i in starts for i in lp_nodes):
                r.ok(site, "after a failed listing of the selected sub-directory the iteration goes on to the look-back")
            else:
                r.violation(m.rel, lq, "handler of `%s` leaves the iteration before the look-back" % norm(ast.unparse(t.body[0]))[:60],
                            "when the first selected sub-directory has vanished (or cannot be listed) the iteration is abandoned, and "
                            "with it the look-back into earlier sub-directories: the metadata file valid at the start time is missing "
                            "from the listing although it is listed both when the sub-directory stays and when it was gone from the "
                            "start", line=h.lineno)
    r.guard(3)
    return r


def r12_walk_prunes_only_inside_channels(repo=None):
    """'complete: every finalized file under the path is listed' with recursion on: os.walk descends into whatever is left in its
    `dirs` list, so a directory removed from that list hides every channel below it.  The only removals the listing needs are the
    time-stamped sub-directories *of a channel* (made by the per-channel step, which receives `dirs`; R1) and everything when
    recursion is off.  Who-may-modify check on the walk loop of ilsdrf itself: the list is re-ordered (sort / sorted of the whole
    list) or emptied under the recursion flag; a filter over it (comprehension with a condition, filter(), remove / pop) prunes
    directories by name wherever they are - a campaign directory called 2014-03-09T12-00-00 above a channel is never entered."""
    r = Rule("C14.R12", "the directory walk prunes nothing outside a channel directory (re-ordering and the non-recursive cut only)")
    m = pyfront.mod("list_drf", repo)
    n = 0
    for q, f in m.functions.items():
        if "." in q:
            continue
        for lp in ast.walk(f):
            if not (isinstance(lp, ast.For) and isinstance(lp.iter, ast.Call) and pyfront.call_name(lp.iter) == "os.walk"
                    and isinstance(lp.target, ast.Tuple) and len(lp.target.elts) == 3 and isinstance(lp.target.elts[1], ast.Name)):
                continue
            dv = lp.target.elts[1].id
            par = {}
            for x in ast.walk(lp):
                for ch in ast.iter_child_nodes(x):
                    par[ch] = x

            def under_recursive_flag(node):
                p_ = par.get(node)
                while p_ is not None and p_ is not lp:
                    if isinstance(p_, ast.If) and any(isinstance(y, ast.Name) and "recurs" in y.id for y in ast.walk(p_.test)):
                        return True
                    p_ = par.get(p_)
                return False
            for x in ast.walk(lp):
                site = None
                verdict = None
                if isinstance(x, ast.Call) and isinstance(x.func, ast.Attribute) and isinstance(x.func.value, ast.Name) and x.func.value.id == dv:
                    site = norm(ast.unparse(x))[:60]
                    if x.func.attr in ("sort", "reverse"):
                        verdict = ("ok", "re-orders the list")
                    elif x.func.attr == "clear":
                        verdict = ("ok", "recursion is off") if under_recursive_flag(x) else ("unknown", None)
                    elif x.func.attr in ("remove", "pop"):
                        verdict = ("bad", None)
                    elif x.func.attr in ("append", "extend", "insert"):
                        verdict = ("unknown", None)
                elif isinstance(x, ast.Delete) and any(isinstance(t, ast.Subscript) and isinstance(t.value, ast.Name) and t.value.id == dv for t in x.targets):
                    site = norm(ast.unparse(x))[:60]
                    whole = all(isinstance(t.slice, ast.Slice) and t.slice.lower is None and t.slice.upper is None for t in x.targets if isinstance(t, ast.Subscript))
                    verdict = ("ok", "recursion is off") if whole and under_recursive_flag(x) else ("bad", None) if not whole else ("unknown", None)
                elif isinstance(x, ast.Assign) and any(isinstance(t, ast.Subscript) and isinstance(t.value, ast.Name) and t.value.id == dv for t in x.targets):
                    site = norm(ast.unparse(x))[:70]
                    v = x.value
                    if isinstance(v, ast.Call) and pyfront.call_name(v) in ("sorted", "reversed", "list") and v.args and isinstance(v.args[0], ast.Name) and v.args[0].id == dv:
                        verdict = ("ok", "re-orders the list")
                    elif isinstance(v, (ast.List, ast.Tuple)) and not v.elts:
                        verdict = ("ok", "recursion is off") if under_recursive_flag(x) else ("unknown", None)
                    elif any(isinstance(y, ast.comprehension) and y.ifs and any(isinstance(z, ast.Name) and z.id == dv for z in ast.walk(y.iter)) for y in ast.walk(v)) \
                            or any(isinstance(y, ast.Call) and pyfront.call_name(y) == "filter" for y in ast.walk(v)):
                        verdict = ("bad", None)
                    else:
                        verdict = ("unknown", None)
                if verdict is None:
                    continue
                n += 1
                if verdict[0] == "ok":
                    r.ok("%s:%s %s `%s`" % (m.rel, x.lineno, q, site), verdict[1])
                elif verdict[0] == "bad":
                    r.violation(m.rel, q, site, "directories are filtered out of the walk list in the walk loop itself, wherever they are: a "
                                "directory that is not part of a channel (a campaign directory named like a time-stamped sub-directory) is "
                                "never entered and every channel below it is missing from the listing; only the per-channel step may "
                                "remove the sub-directories it has handled", line=x.lineno)
                else:
                    raise AnalysisError("%s: modification `%s` of the walk list not recognised" % (q, site))
            # the per-channel step receives the walk list: it hands back what is *not* a time-stamped sub-directory of the channel
            # (`p[:] = others`, others filled with elements of p).  Emptying the list there hides every directory below the one
            # examined - also when the step only decided that this directory is not a channel to be listed: the `metadata`
            # channel nested in an RF channel is never reached
            for c in ast.walk(lp):
                if not (isinstance(c, ast.Call) and isinstance(c.func, ast.Name) and c.func.id in m.functions):
                    continue
                g_ = m.functions[c.func.id]
                ps = [a.arg for a in g_.args.args]
                pn = None
                for i_, a_ in enumerate(c.args):
                    if isinstance(a_, ast.Name) and a_.id == dv and i_ < len(ps):
                        pn = ps[i_]
                for k_ in c.keywords:
                    if isinstance(k_.value, ast.Name) and k_.value.id == dv and k_.arg:
                        pn = k_.arg
                if pn is None:
                    continue
                for x in pyfront.walk_no_nested(g_):
                    site = None
                    empt = False
                    if isinstance(x, ast.Delete) and any(isinstance(t, ast.Subscript) and isinstance(t.value, ast.Name) and t.value.id == pn for t in x.targets):
                        site = norm(ast.unparse(x))[:60]
                        empt = all(isinstance(t.slice, ast.Slice) and t.slice.lower is None and t.slice.upper is None for t in x.targets if isinstance(t, ast.Subscript))
                        if not empt:
                            raise AnalysisError("%s: `%s` removes part of the walk list: not decided" % (c.func.id, site))
                    elif isinstance(x, ast.Call) and isinstance(x.func, ast.Attribute) and isinstance(x.func.value, ast.Name) and x.func.value.id == pn \
                            and x.func.attr in ("clear", "remove", "pop"):
                        site = norm(ast.unparse(x))[:60]
                        empt = x.func.attr == "clear"
                        if not empt:
                            raise AnalysisError("%s: `%s` removes entries of the walk list one by one: not decided" % (c.func.id, site))
                    elif isinstance(x, ast.Assign) and any(isinstance(t, ast.Subscript) and isinstance(t.value, ast.Name) and t.value.id == pn for t in x.targets):
                        site = norm(ast.unparse(x))[:60]
                        v = x.value
                        empt = isinstance(v, (ast.List, ast.Tuple)) and not v.elts
                        if not empt:
                            keeps = isinstance(v, ast.Name) and any(
                                isinstance(y, ast.Call) and isinstance(y.func, ast.Attribute) and y.func.attr == "append" and isinstance(y.func.value, ast.Name)
                                and y.func.value.id == v.id for y in ast.walk(g_))
                            if keeps:
                                n += 1
                                r.ok("%s:%s %s `%s`" % (m.rel, x.lineno, c.func.id, site), "hands back the entries the step collected as not being its time-stamped sub-directories")
                            continue
                    if site is None:
                        continue
                    n += 1
                    r.violation(m.rel, c.func.id, site, "the per-channel step empties the walk list: nothing below the directory it examined is "
                                "entered any more - a channel nested in it (the `metadata` channel of an RF channel, listed when only "
                                "metadata is asked for) is missing from the listing", line=x.lineno)
    if n < 2:
        raise AnalysisError("list_drf: modifications of the os.walk directory list: %d found, 2 confirmed on the reference tree" % n)
    r.guard(2)
    return r


def r13_list_form_is_the_generator(repo=None):
    """lsdrf is the list form of ilsdrf: 'exactly once ... in ascending file-time order within each channel' is established by the
    generator, so the list form must return its items unchanged - all arguments forwarded, no filter, no set, no re-sorting, no
    slice."""
    r = Rule("C14.R13", "lsdrf returns what ilsdrf yields: all arguments forwarded, nothing filtered, re-ordered or cut")
    m = pyfront.mod("list_drf", repo)
    if "lsdrf" not in m.functions:
        raise AnalysisError("list_drf.lsdrf not found")
    f = m.fn("lsdrf")
    rets = [x for x in ast.walk(f) if isinstance(x, ast.Return)]
    if len(rets) != 1 or rets[0].value is None:
        raise AnalysisError("lsdrf: one return statement expected")
    v = rets[0].value
    env = {a.targets[0].id: a.value for a in ast.walk(f) if isinstance(a, ast.Assign) and len(a.targets) == 1 and isinstance(a.targets[0], ast.Name)}
    hops = 0
    while isinstance(v, ast.Name) and v.id in env and hops < 4:
        v = env[v.id]
        hops += 1
    inner = v.args[0] if isinstance(v, ast.Call) and pyfront.call_name(v) == "list" and len(v.args) == 1 and not v.keywords else v
    if isinstance(inner, (ast.ListComp, ast.GeneratorExp)) and len(inner.generators) == 1 and not inner.generators[0].ifs \
            and isinstance(inner.elt, ast.Name) and isinstance(inner.generators[0].target, ast.Name) and inner.elt.id == inner.generators[0].target.id:
        inner = inner.generators[0].iter
    site = "%s:%s lsdrf `%s`" % (m.rel, rets[0].lineno, norm(ast.unparse(rets[0].value))[:60])
    if isinstance(inner, ast.Call) and pyfront.call_name(inner) == "ilsdrf":
        sig = m.fn("ilsdrf")
        own = [a.arg for a in f.args.args + f.args.kwonlyargs]
        star = any(isinstance(a, ast.Starred) for a in inner.args) and any(k.arg is None for k in inner.keywords)
        named = {k.arg for k in inner.keywords if k.arg} | {a.id for a in inner.args if isinstance(a, ast.Name)}
        if (f.args.vararg is not None and f.args.kwarg is not None and star) or (own and set(own) <= named):
            r.ok(site, "the generator's items, every argument forwarded")
        else:
            r.violation(m.rel, "lsdrf", norm(ast.unparse(inner))[:70], "not every argument of lsdrf reaches ilsdrf: the list form selects another "
                        "set of files than the generator form", line=rets[0].lineno)
    elif any(isinstance(c, ast.Call) and pyfront.call_name(c) in ("sorted", "set", "frozenset", "filter", "reversed", "dict.fromkeys") for c in ast.walk(v)) \
            or any(isinstance(x, ast.comprehension) and x.ifs for x in ast.walk(v)) or any(isinstance(x, ast.Slice) for x in ast.walk(v)):
        r.violation(m.rel, "lsdrf", norm(ast.unparse(rets[0].value))[:70], "the list form filters, re-orders or cuts what the generator yields: "
                    "order within a channel (or the set itself) differs between lsdrf and ilsdrf", line=rets[0].lineno)
    else:
        raise AnalysisError("lsdrf: returned expression `%s` not recognised" % norm(ast.unparse(rets[0].value))[:60])
    r.guard(1)
    return r


def r14_times_do_not_depend_on_the_process_time_zone(repo=None):
    """'A time window selects exactly the files whose name timestamp lies in [start, end]': the times of sub-directory and file
    names are UTC by definition of the format and are compared with a window given in UTC.  Turning a name into a time through the
    local time zone of the process (`.timestamp()` of a naive datetime - what `strptime` without %z or `datetime(...)` without
    tzinfo give -, time.mktime, time.localtime, fromtimestamp without tz) shifts it by the UTC offset: the listing is right under
    TZ=UTC and wrong everywhere else.  Who-may-call rule over the modules that compute name times (zero sites on the reference
    tree; the vocabulary of the rule is exercised by a built-in variant)."""
    r = Rule("C14.R14", "no name time is computed through the local time zone of the process (naive .timestamp(), mktime, localtime)")
    n_fn = 0
    for mod in ("list_drf", "watchdog_drf", "digital_metadata", "digital_rf_hdf5"):
        m = pyfront.mod(mod, repo)
        for q, f in m.functions.items():
            if "<locals>" in q:
                continue
            n_fn += 1
            env = {}
            for a in ast.walk(f):
                if isinstance(a, ast.Assign) and len(a.targets) == 1 and isinstance(a.targets[0], ast.Name):
                    env.setdefault(a.targets[0].id, []).append(a.value)

            def naive(e, depth=0):
                """True: certainly naive; False: certainly aware; None: unknown"""
                if depth > 3:
                    return None
                if isinstance(e, ast.Name):
                    vs = env.get(e.id, [])
                    res = [naive(v, depth + 1) for v in vs]
                    if res and all(x is True for x in res):
                        return True
                    if res and all(x is False for x in res):
                        return False
                    return None
                if isinstance(e, ast.Call):
                    cn = pyfront.call_name(e) or ""
                    if cn.endswith("strptime"):
                        fmt = e.args[1] if len(e.args) > 1 else None
                        if isinstance(fmt, ast.Name):
                            mv = m.module_assign(fmt.id)
                            fmt = mv if mv is not None else fmt
                        if isinstance(fmt, ast.Constant) and isinstance(fmt.value, str):
                            return "%z" not in fmt.value
                        return None
                    if cn.endswith("utcfromtimestamp") or cn.endswith("utcnow"):
                        return True
                    if cn in ("datetime.datetime", "datetime"):
                        if any(k.arg == "tzinfo" for k in e.keywords) or len(e.args) >= 8:
                            return False
                        if any(k.arg is None for k in e.keywords):
                            return None
                        return True
                    if isinstance(e.func, ast.Attribute) and e.func.attr == "replace" and any(k.arg == "tzinfo" for k in e.keywords):
                        return False
                    if cn.endswith("fromtimestamp") or cn.endswith(".now"):
                        return False if (len(e.args) >= 2 or any(k.arg in ("tz", "tzinfo") for k in e.keywords)) else True
                if isinstance(e, ast.BinOp):
                    l_, r_ = naive(e.left, depth + 1), naive(e.right, depth + 1)
                    return l_ if l_ is not None else r_
                return None
            for c in ast.walk(f):
                if not isinstance(c, ast.Call):
                    continue
                cn = pyfront.call_name(c) or ""
                site = "%s:%s %s `%s`" % (m.rel, c.lineno, q, norm(ast.unparse(c))[:60])
                if cn in ("time.mktime", "time.localtime", "time.ctime") or cn.endswith(".astimezone") and not c.args and not c.keywords:
                    r.violation(m.rel, q, norm(ast.unparse(c))[:70], "a time is converted through the local time zone of the process: name times "
                                "and the window are UTC, the result is shifted by the UTC offset wherever TZ is not UTC", line=c.lineno)
                elif isinstance(c.func, ast.Attribute) and c.func.attr == "timestamp" and not c.args:
                    nv = naive(c.func.value)
                    if nv is True:
                        r.violation(m.rel, q, norm(ast.unparse(c))[:70], "`.timestamp()` of a datetime without time zone reads it as *local* time: the "
                                    "time computed from a UTC name is off by the UTC offset of the listing process - files inside the "
                                    "window are dropped and the forward-fill file is hours too old unless TZ is UTC", line=c.lineno)
                    elif nv is None:
                        raise AnalysisError("%s: whether `%s` is time-zone aware was not decided" % (q, norm(ast.unparse(c.func.value))[:50]))
                    else:
                        r.ok(site, "`.timestamp()` of a time-zone aware value")
    if n_fn < 100:
        raise AnalysisError("only %d functions scanned" % n_fn)
    r.ok("python/digital_rf/{list_drf,watchdog_drf,digital_metadata,digital_rf_hdf5}.py", "%d functions scanned: no conversion through the local time zone" % n_fn)
    r.guard(1)
    return r


def r15_the_walk_is_always_reached(repo=None):
    """'complete: every finalized file under the path is listed': the listing's special case for a path that is *named* like a
    time-stamped sub-directory is entered on the name alone; only inside it is the parent examined for a properties file.  A
    directory of that name that is not a sub-directory of a channel (an experiment directory called 2024-05-01T00-00-00) must
    still be walked.  On the CFG of ilsdrf: every `return` (or end) that can be reached without passing the os.walk loop is
    reached only over the true edge of a test of the value obtained from the properties-file match of the parent - leaving early
    is allowed only once the path is known to be a channel's sub-directory."""
    r = Rule("C14.R15", "ilsdrf ends without walking the path only when the path is known to be a sub-directory of a channel")
    m = pyfront.mod("list_drf", repo)
    q = "ilsdrf"
    f = m.fn(q)
    g = m.cfg(q)
    heads = [n for n in g.nodes if n.kind == "cond" and isinstance(n.ast, ast.For) and isinstance(n.ast.iter, ast.Call) and pyfront.call_name(n.ast.iter) == "os.walk"]
    if len(heads) != 1:
        raise AnalysisError("%s: the loop over os.walk(...) was not found exactly once" % q)
    head = heads[0]
    # names that say "the parent holds a properties file": defined from an expression that mentions a *PROP* regex
    prop_names = set()
    for n in ast.walk(f):
        if isinstance(n, ast.Assign) and len(n.targets) == 1 and isinstance(n.targets[0], ast.Name) \
                and any(isinstance(y, ast.Name) and "PROP" in y.id for y in ast.walk(n.value)):
            prop_names.add(n.targets[0].id)

    def knows_channel(a, b, lab):
        na = g.nodes[a]
        if na.kind == "cond" and isinstance(na.ast, ast.Name) and na.ast.id in prop_names and lab == "T":
            return False        # do not follow: beyond this edge the path is known to be a channel's sub-directory
        return True
    reach = g.reach([g.entry.id], avoid=[head.id], edge_filter=knows_channel, skip_labels=("exc",))
    early = [n for n in g.nodes if n.id in reach and (n.kind == "return" or n is g.exit)]
    rets = [n for n in early if n.kind == "return"]
    if not rets and g.exit.id in reach:
        # the end of the function reached without the walk (all walking code under a condition)
        conds = [n for n in g.nodes if n.id in reach and n.kind == "cond" and n.ast is not None and not isinstance(n.ast, (ast.For, ast.While))]
        if conds and not prop_names:
            raise AnalysisError("%s: the function can end without the walk and no properties-file test was recognised: not decided" % q)
    if rets:
        x = rets[0]
        r.violation(m.rel, q, norm(ast.unparse(x.ast))[:40] + " (line %d)" % x.line, "the listing can return without walking the path on a route that "
                    "has not established that the path is a sub-directory of a channel (the special case is entered on the *name* of the "
                    "path alone): a top-level or experiment directory named like YYYY-MM-DDTHH-MM-SS is not listed at all", line=x.line)
    else:
        r.ok("%s:%s %s" % (m.rel, head.line, q), "every return before the os.walk loop lies behind a successful properties-file test of the parent (%s)" % (
            ", ".join(sorted(prop_names)) or "none needed: no early return"))
    r.guard(1)
    return r


def rules(repo=None):
    return [lambda: r15_the_walk_is_always_reached(repo), lambda: r14_times_do_not_depend_on_the_process_time_zone(repo), lambda: r13_list_form_is_the_generator(repo), lambda: r12_walk_prunes_only_inside_channels(repo), lambda: r11_sort_keys_and_vanished_first_subdir(repo), lambda: r1_grammar(repo), lambda: r2_kind_tables(repo), lambda: r3_sorted_before_sliced(repo),
            lambda: r4_robust_listing(repo), lambda: r5_lookback_complete(repo),
            lambda: r6_reverse_changes_only_the_order(repo), lambda: r7_window_end_inclusive(repo),
            lambda: r8_forward_fill_file_always_taken(repo), lambda: r9_grammar_names_that_are_not_times(repo),
            lambda: r10_window_bounds_exact(repo)]


EXPLANATION = (
    'R15: on the CFG of ilsdrf no return is reachable without passing the os.walk loop except behind the true edge of the test of the '
    "parent's properties-file match. "
    'R1: regular-language identities on the folded constants (FILE = DRFFILE | DMDFILE, PROPFILE = DRFPROP | DMDPROP, '
    'kinds disjoint, no tmp. name accepted, _RE_SUBDIR anchored) and the structural facts that files are kept only after '
    'a regex match, only in matched sub-directories of directories holding a properties file. R2: the if/elif chains that'
    ' choose the file and properties regexes are executed abstractly for all 16 and 36 flag rows and compared with the '
    "oracle 'union of requested kinds present'. R3: every list handed to the bisecting slice is sorted after its last "
    'modification on every CFG path; reversed() only wraps the sliced list. R4: every os.listdir in the listing (sub-'
    'directories and the channel directory of a sub-directory path) is inside try/except OSError and every constant '
    'subscript of a listing-derived list is reached only through a non-emptiness test. R5: the look-back loop scans all '
    'earlier sub-directories and stops only on a non-empty match list. R6: the per-channel generator is interpreted for '
    'reverse=False/True over a symbolic ascending list of three sub-directories: the loop visits them ascending resp. '
    'exactly reversed, every selection expression in the loop (slice arguments, conditions) has the same partially '
    'evaluated form for each sub-directory in both modes (position counters and the flag folded), and the yielding loop '
    'runs over the sliced list resp. its exact reverse - reversing changes the order, not the set. R7: the end of the '
    'window steps over *every* entry carrying the end time (a loop after bisecting with the 1-tuple probe). R8: under '
    'forward fill the start index always steps back one entry and the look-back is taken for a first file at or after the'
    ' start (truth tables over the orderings). R9: datetime / timedelta built from regex groups sit in try/except '
    'ValueError / OverflowError. R10: in ilsdrf the window bounds are only made timezone-aware and turned into the '
    "difference to the epoch - no rounding before the comparison. R11: the union of sortkey_drf's default regular "
    'expressions contains the file and the properties grammar (language inclusion); from the OSError handler of the '
    "selected sub-directory's listing the look-back loop is still reachable within the iteration. Does NOT decide the "
    'remaining window arithmetic (bisect positions). R12: who-may-modify the os.walk directory list inside the walk loop '
    'of ilsdrf: sort / sorted of the whole list, and emptying it under the recursion flag; a filter (comprehension with a'
    ' condition, filter(), remove / pop) is a violation, anything else is not decided. R13: lsdrf returns '
    "list(ilsdrf(...)) with every argument forwarded; a filter, set, re-sort or slice of the generator's items is a "
    'violation. R14: who-may-call rule over list_drf, watchdog_drf, digital_metadata and digital_rf_hdf5 - no time is '
    'converted through the local time zone of the process (time.mktime / localtime, `.timestamp()` of a value that is '
    'certainly naive: strptime without %z, datetime(...) without tzinfo, utcnow); an undecided receiver of `.timestamp()`'
    ' is exit 2.')
TECHNIQUE = ('Python ast; regular-language algebra on folded regex constants; abstract execution of flag chains; sortedness typestate over the CFG; guarded-subscript dataflow; order/element interpretation of sequence expressions + partial evaluation of conditions for both values of a flag')
ASSUMPTIONS = ["os.walk swallows listing errors by default", "Python regex semantics as modelled by vp.rx"]
FILES = [LD]
