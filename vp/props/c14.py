"""C14 -- Listing is sound, complete, ordered and window-exact (partial).

Decides: grammar algebra of the listing regexes, the kind-selection decision tables, sorted-before-sliced /
reversed-only-after-slicing typestate, robustness of directory listing (guards), completeness of the
forward-fill look-back.  Not decided: the window arithmetic (bisect positions).
"""
from __future__ import annotations

import ast
import itertools

from ..core import Rule, AnalysisError, norm
from .. import pyfront, dtable
from . import c02

LD = "python/digital_rf/list_drf.py"
YM = "_yield_matching_files"


def r1_grammar(repo=None):
    r = Rule("C14.R1", "file / properties / sub-directory grammars partition correctly and exclude tmp. names (rx)")
    sp, pats, globs = c02.grammar_space(repo)
    L = sp.langs
    def eq(a, b, what):
        ok, w1, w2 = a.equals(b)
        if ok:
            r.ok("list_drf " + what, "languages are equal")
        else:
            r.violation(LD, "-", what, "grammar identity fails (witness %r)" % (w1 if w1 is not None else w2))
    eq(L["_RE_FILE"], L["_RE_DRFFILE"] | L["_RE_DMDFILE"], "L(_RE_FILE) = L(_RE_DRFFILE) | L(_RE_DMDFILE)")
    eq(L["_RE_PROPFILE"], L["_RE_DRFPROPFILE"] | L["_RE_DMDPROPFILE"], "L(_RE_PROPFILE) = L(_RE_DRFPROPFILE) | L(_RE_DMDPROPFILE)")
    for a, b in (("_RE_DRFFILE", "_RE_DMDFILE"), ("_RE_FILE", "_RE_PROPFILE")):
        w = (L[a] & L[b]).witness()
        if w is None:
            r.ok("list_drf %s & %s" % (a, b), "disjoint (a file is of exactly one kind)")
        else:
            r.violation(LD, "-", "%s & %s" % (a, b), "the two grammars overlap (witness %r): a file would be listed under the wrong "
                        "kind" % w)
    for a in ("_RE_DRFFILE", "_RE_DMDFILE", "_RE_FILE"):
        w = (L[a] & L["TMPANY"]).witness()
        if w is None:
            r.ok("list_drf %s & tmp\\." % a, "empty (in-progress files are never listed)")
        else:
            r.violation(LD, "-", "%s = %s" % (a, pats[a]), "a tmp. file name is accepted (witness %r)" % w)
    # _RE_SUBDIR is anchored at both ends: nothing longer than 19 characters (+ optional newline)
    exact = sp.regex("SUBDIR19", r"[0-9]{4}-[0-9]{2}-[0-9]{2}T[0-9]{2}-[0-9]{2}-[0-9]{2}$", fullmatch=False)
    eq(L["_RE_SUBDIR"], exact, "L(_RE_SUBDIR) = YYYY-MM-DDTHH-MM-SS anchored at both ends")
    # structure: files are taken only from matched sub-directories of directories holding a properties file
    m = pyfront.mod("list_drf", repo)
    dd = m.fn("_decorate_drf_files")
    app = [c for c in ast.walk(dd) if isinstance(c, ast.Call) and isinstance(c.func, ast.Attribute) and c.func.attr == "append"]
    ok = len(app) == 1 and isinstance(m.enclosing(app[0], (ast.If,)), ast.If) and norm(ast.unparse(m.enclosing(app[0], (ast.If,)).test)) == "m" \
        and "m = file_regex.match(filename)" in norm(ast.unparse(dd))
    if ok:
        r.ok("%s:%s _decorate_drf_files" % (m.rel, dd.lineno), "a file name is kept only if file_regex.match(name) succeeded")
    else:
        r.violation(m.rel, "_decorate_drf_files", "append not guarded by the regex match", "files that do not match the requested kind "
                    "could be listed", line=dd.lineno)
    ym = m.fn(YM)
    src = norm(ast.unparse(ym))
    if "m = _RE_SUBDIR.match(d) if m:" in src and "dirs[:] = others" in src and src.count("dec_subdirs.append") == 1:
        r.ok("%s:%s %s" % (m.rel, ym.lineno, YM), "only directory names matching _RE_SUBDIR are searched for files; they are removed "
             "from the recursion list")
    else:
        r.violation(m.rel, YM, "sub-directory selection", "files outside the timestamped sub-directory structure could be listed", line=ym.lineno)
    il = m.fn("ilsdrf")
    calls = [c for c in ast.walk(il) if isinstance(c, ast.Call) and pyfront.call_name(c) == YM]
    guarded = all(any(isinstance(a, ast.If) and norm(ast.unparse(a.test)) == "any_props" for a in _anc(m, c)) for c in calls)
    if len(calls) == 2 and guarded:
        r.ok("%s:%s ilsdrf" % (m.rel, il.lineno), "data files are only listed for directories that hold a properties file (both call sites "
             "under `if any_props`)")
    else:
        r.violation(m.rel, "ilsdrf", "%d calls of %s, guarded=%s" % (len(calls), YM, guarded), "files could be listed from a directory "
                    "that is not a channel", line=il.lineno)
    r.guard(11)
    return r


def _anc(m, n):
    p = m.parents.get(n)
    while p is not None:
        yield p
        p = m.parents.get(p)


def file_table(repo=None):
    """(include_drf, include_dmd, has_drf_props, has_dmd_props) -> chosen file regex name or None"""
    m = pyfront.mod("list_drf", repo)
    ym = m.fn(YM)
    body = [s for s in ym.body if not (isinstance(s, ast.Expr) and isinstance(s.value, ast.Constant))]
    out = {}
    for idrf, idmd, hdrf, hdmd in itertools.product((True, False), repeat=4):
        it = dtable.Interp({"include_drf": idrf, "include_dmd": idmd, "has:_RE_DRFPROPFILE": hdrf, "has:_RE_DMDPROPFILE": hdmd})
        it.run(body[:3])
        reg = it.env.get("file_regex")
        out[(idrf, idmd, hdrf, hdmd)] = None if it.returned else (reg[1] if isinstance(reg, tuple) else reg)
    return m, ym, out


def prop_table(repo=None):
    m = pyfront.mod("list_drf", repo)
    il = m.fn("ilsdrf")
    body = [s for s in il.body if not (isinstance(s, ast.Expr) and isinstance(s.value, ast.Constant))]
    # statements up to (excluding) `path = os.path.abspath(path)`
    upto = []
    for s in body:
        if isinstance(s, ast.Assign) and norm(ast.unparse(s)).startswith("path = "):
            break
        upto.append(s)
    out = {}
    for idrf, idmd in itertools.product((True, False), repeat=2):
        for pdrf, pdmd in itertools.product((True, False, None), repeat=2):
            it = dtable.Interp({"include_drf": idrf, "include_dmd": idmd, "include_drf_properties": pdrf,
                                "include_dmd_properties": pdmd, "starttime": None, "endtime": None})
            it.run(upto)
            inc = it.env.get("include_properties")
            reg = it.env.get("prop_regex")
            out[(idrf, idmd, pdrf, pdmd)] = (reg[1] if isinstance(reg, tuple) else reg) if inc else None
    return m, il, out


def r2_kind_tables(repo=None):
    r = Rule("C14.R2", "the regex chosen is the union of the requested kinds present, for every flag combination (dtable)")
    m, ym, ft = file_table(repo)
    bad = 0
    for (idrf, idmd, hdrf, hdmd), got in sorted(ft.items(), key=str):
        yd, ym_ = idrf and hdrf, idmd and hdmd
        want = "_RE_FILE" if (yd and ym_) else "_RE_DRFFILE" if yd else "_RE_DMDFILE" if ym_ else None
        if got != want:
            bad += 1
            r.violation(m.rel, YM, "include_drf=%s include_dmd=%s drf_props=%s dmd_props=%s -> %s" % (idrf, idmd, hdrf, hdmd, got),
                        "expected %s: files of an excluded kind would be listed, or requested files missed" % want, line=ym.lineno)
    if not bad:
        r.ok("%s:%s %s" % (m.rel, ym.lineno, YM), "all 16 rows (include flags x channel kinds) select the union of requested kinds present")
    m, il, pt = prop_table(repo)
    bad = 0
    for (idrf, idmd, pdrf, pdmd), got in sorted(pt.items(), key=str):
        ed = idrf if pdrf is None else pdrf
        em = idmd if pdmd is None else pdmd
        want = "_RE_PROPFILE" if (ed and em) else "_RE_DRFPROPFILE" if ed else "_RE_DMDPROPFILE" if em else None
        if got != want:
            bad += 1
            r.violation(m.rel, "ilsdrf", "include_drf=%s include_dmd=%s drf_properties=%s dmd_properties=%s -> %s" % (
                idrf, idmd, pdrf, pdmd, got), "expected %s: property files are not listed according to their own flags" % want,
                line=il.lineno)
    if not bad:
        r.ok("%s:%s ilsdrf" % (m.rel, il.lineno), "all 36 rows select the properties regex of the effective property flags "
             "(None defaults to the data flag)")
    r.guard(2)
    return r


LISTS = ("dec_files", "dec_subdirs", "dec_prior_files")


def r3_sorted_before_sliced(repo=None):
    r = Rule("C14.R3", "lists are sorted before they are bisected; reversal is applied only to the sliced result (typestate)")
    m = pyfront.mod("list_drf", repo)
    g = m.cfg(YM)
    f = m.fn(YM)
    calls = []
    for n in g.nodes:
        for c in pyfront.node_calls(n):
            if pyfront.call_name(c) == "_decorated_list_slice" and c.args and isinstance(c.args[0], ast.Name):
                calls.append((n, c, c.args[0].id))
    if len(calls) < 2:
        raise AnalysisError("%s: expected 2 _decorated_list_slice calls, found %d" % (YM, len(calls)))

    def classify(node, var):
        """'sort' | 'mut' | None for CFG node wrt list var"""
        a = node.ast
        if a is None or isinstance(a, ast.withitem):
            return None
        kind = None
        for c in pyfront.node_calls(node):
            if isinstance(c.func, ast.Attribute) and pyfront.dotted(c.func.value) == var:
                if c.func.attr == "sort":
                    kind = "sort" if pyfront.kwarg(c, "reverse") is None else "mut"
                elif c.func.attr in ("append", "extend", "insert", "reverse", "pop", "remove"):
                    kind = "mut"
        if isinstance(a, ast.Assign) and any(isinstance(t, ast.Name) and t.id == var for t in a.targets):
            v = a.value
            if isinstance(v, ast.Call) and pyfront.call_name(v) == "sorted" and pyfront.kwarg(v, "reverse") is None:
                kind = "sort"
            else:
                kind = "mut"
        if isinstance(a, ast.AugAssign) and isinstance(a.target, ast.Name) and a.target.id == var:
            kind = "mut"
        return kind

    for n, c, var in calls:
        sorts = [x.id for x in g.nodes if classify(x, var) == "sort"]
        muts = [x for x in g.nodes if classify(x, var) == "mut"]
        # aliasing: `dec_files = dec_prior_files` after extend: the alias's mutations count via the assignment (mut)
        bad = [x for x in muts if n.id in g.reach([x.id], avoid=sorts, skip_labels=("exc",)) and x.id != n.id]
        site = "%s:%s %s _decorated_list_slice(%s)" % (m.rel, n.line, YM, var)
        if bad:
            r.violation(m.rel, YM, "_decorated_list_slice(%s) after `%s`" % (var, bad[0].label[:60]),
                        "the list can reach the bisection without a sort() after its last modification: bisect on an unsorted list "
                        "selects the wrong window", line=n.line, path=g.describe(g.path(bad[0].id, n.id, avoid=sorts) or []))
        elif not muts:
            r.violation(m.rel, YM, "_decorated_list_slice(%s)" % var, "list has no definition in this function", line=n.line)
        else:
            r.ok(site, "sorted after every modification on every path (%d modification sites, %d sort sites)" % (len(muts), len(sorts)))
    # reversal only wraps the sliced list
    for c in pyfront.walk_no_nested(f):
        if isinstance(c, ast.Call) and pyfront.call_name(c) == "reversed":
            a = c.args[0]
            if isinstance(a, ast.Subscript) and isinstance(a.value, ast.Name) and a.value.id in LISTS and isinstance(a.slice, ast.Name):
                r.ok("%s:%s %s `%s`" % (m.rel, c.lineno, YM, norm(ast.unparse(c))), "reverses the already sliced list (changes order, not the set)")
            else:
                r.violation(m.rel, YM, norm(ast.unparse(c)), "reversal is applied to something other than the sliced list", line=c.lineno)
        if isinstance(c, ast.Call) and isinstance(c.func, ast.Attribute) and c.func.attr in ("reverse",) and pyfront.dotted(c.func.value) in LISTS:
            r.violation(m.rel, YM, norm(ast.unparse(c)), "list reversed in place before slicing", line=c.lineno)
    r.guard(4)
    return r


def r4_robust_listing(repo=None):
    r = Rule("C14.R4", "listing never fails on empty or vanishing sub-directories (guards)")
    m = pyfront.mod("list_drf", repo)
    f = m.fn(YM)
    g = m.cfg(YM)
    n_ld = 0
    for c in pyfront.walk_no_nested(f):
        if isinstance(c, ast.Call) and pyfront.call_name(c) == "os.listdir":
            n_ld += 1
            tr = m.enclosing(c, (ast.Try,))
            ok = False
            if tr is not None and any(c in list(ast.walk(s)) for s in tr.body):
                for h in tr.handlers:
                    names = [pyfront.dotted(h.type)] if h.type is not None and not isinstance(h.type, ast.Tuple) else (
                        [pyfront.dotted(e) for e in h.type.elts] if h.type is not None else ["*"])
                    if any(x in ("OSError", "IOError", "EnvironmentError", "Exception", "*", "FileNotFoundError") for x in names):
                        ok = "FileNotFoundError" not in names or "OSError" in names or True
            site = "%s:%s %s `%s`" % (m.rel, c.lineno, YM, norm(ast.unparse(c)))
            if ok:
                r.ok(site, "inside try/except OSError (a sub-directory that vanished is skipped)")
            else:
                r.violation(m.rel, YM, norm(ast.unparse(c)), "listing a timestamped sub-directory is not guarded: a sub-directory removed "
                            "meanwhile (ringbuffer, mirror) makes the whole listing fail", line=c.lineno)
    if n_ld < 2:
        raise AnalysisError("%s: expected 2 os.listdir sites, found %d" % (YM, n_ld))
    # constant subscripts of listing-derived lists are guarded by a non-emptiness test
    n_sub = 0
    for n in g.nodes:
        if n.ast is None or isinstance(n.ast, (ast.withitem,)) or n.kind == "join":
            continue
        tree = n.ast
        for s in pyfront.walk_no_nested(tree) if not isinstance(tree, (ast.For,)) else []:
            if isinstance(s, ast.Subscript) and isinstance(s.value, ast.Name) and s.value.id in LISTS:
                idx = s.slice
                cidx = pyfront.const(idx)
                if cidx is None and isinstance(idx, ast.UnaryOp) and isinstance(idx.op, ast.USub):
                    cidx = -pyfront.const(idx.operand) if pyfront.const(idx.operand) is not None else None
                if not isinstance(cidx, int):
                    continue
                n_sub += 1
                var = s.value.id
                defs = [x.id for x in g.nodes if isinstance(x.ast, ast.Assign) and any(
                    isinstance(t, ast.Name) and t.id == var for t in x.ast.targets)]
                tests = [x.id for x in g.nodes if x.kind == "cond" and isinstance(x.ast, ast.Name) and x.ast.id == var]
                reach = g.reach(defs, skip_labels=("exc",), edge_filter=lambda a, b, lab: not (a in tests and lab == "T"))
                if n.id in reach and n.id not in tests:
                    r.violation(m.rel, YM, norm(ast.unparse(s)), "`%s` can be empty here (an empty or fully filtered sub-directory): "
                                "IndexError makes the listing fail" % var, line=n.line)
                else:
                    r.ok("%s:%s %s `%s`" % (m.rel, n.line, YM, norm(ast.unparse(s))), "reached only through the non-empty branch of a "
                         "truth test on `%s`" % var)
    if n_sub < 1:
        raise AnalysisError("%s: no constant subscript of a listing-derived list found (anchor changed)" % YM)
    r.guard(3)
    return r


def r5_lookback_complete(repo=None):
    r = Rule("C14.R5", "the forward-fill look-back continues until a sub-directory that holds a matching file is found")
    m = pyfront.mod("list_drf", repo)
    f = m.fn(YM)
    loops = [n for n in ast.walk(f) if isinstance(n, ast.For) and isinstance(n.target, ast.Name) and n.target.id == "k_subdir"]
    if len(loops) != 1:
        raise AnalysisError("%s: look-back loop `for k_subdir in ...` not found" % YM)
    lp = loops[0]
    it = norm(ast.unparse(lp.iter))
    if it != "range(subdir_slice.start - 1, -1, -1)":
        r.violation(m.rel, YM, "for k_subdir in %s" % it, "the look-back must scan every earlier sub-directory from the nearest to the "
                    "oldest", line=lp.lineno)
    breaks = [b for b in ast.walk(lp) if isinstance(b, ast.Break)]
    if not breaks:
        r.violation(m.rel, YM, "look-back loop without break", "files of every earlier sub-directory would be merged in", line=lp.lineno)
    for b in breaks:
        guard = None
        for a in _anc(m, b):
            if a is lp:
                break
            if isinstance(a, ast.If) and b in list(ast.walk(ast.Module(body=a.body, type_ignores=[]))):
                t = a.test
                if isinstance(t, ast.Name):
                    guard = t.id
        src = norm(ast.unparse(lp))
        if guard and ("%s = _decorate_drf_files(" % guard) in src:
            r.ok("%s:%s %s" % (m.rel, b.lineno, YM), "the loop stops only when `%s` (matching files of that sub-directory) is non-empty" % guard)
        else:
            r.violation(m.rel, YM, "break in the look-back loop not guarded by a non-empty file list", "the search for the latest "
                        "metadata file before the start time stops at an empty (or tmp-only) sub-directory, so the forward-fill file "
                        "is missing from the listing", line=b.lineno)
    r.guard(1)
    return r


def rules(repo=None):
    return [lambda: r1_grammar(repo), lambda: r2_kind_tables(repo), lambda: r3_sorted_before_sliced(repo),
            lambda: r4_robust_listing(repo), lambda: r5_lookback_complete(repo)]


EXPLANATION = (
    "R1: regular-language identities on the folded constants (FILE = DRFFILE | DMDFILE, PROPFILE = DRFPROP | DMDPROP, kinds "
    "disjoint, no tmp. name accepted, _RE_SUBDIR anchored) and the structural facts that files are kept only after a regex match, "
    "only in matched sub-directories of directories holding a properties file. R2: the if/elif chains that choose the file and "
    "properties regexes are executed abstractly for all 16 and 36 flag rows and compared with the oracle 'union of requested kinds "
    "present'. R3: every list handed to the bisecting slice is sorted after its last modification on every CFG path; reversed() "
    "only wraps the sliced list. R4: every os.listdir of a timestamped sub-directory is inside try/except OSError and every "
    "constant subscript of a listing-derived list is reached only through a non-emptiness test. R5: the look-back loop scans all "
    "earlier sub-directories and stops only on a non-empty match list. Does NOT decide the window arithmetic (bisect positions).")
ASSUMPTIONS = ["os.walk swallows listing errors by default", "Python regex semantics as modelled by vp.rx"]
FILES = [LD]
