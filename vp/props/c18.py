"""C18 -- cp / mv / ln transfer exactly the listed set.

Decides: the three transfer loops are the same code up to the transfer primitive and use the listing directly,
the option table of the commands equals ilsdrf's signature, the commands are wired to the right functions and
primitives.  Not decided: byte identity of copies (library code).
"""
from __future__ import annotations

import ast

from ..core import Rule, AnalysisError, norm
from .. import pyfront, pyutil

LD = "python/digital_rf/list_drf.py"
PRIMS = {"_run_cp": {"shutil.copy2"}, "_run_mv": {"shutil.move"}, "_run_ln": {"link_fun"}}


def transfer_loops(m):
    """Module functions that contain a loop over ilsdrf(<src>, **kwargs) with a call taking (srcpath-like, destpath-like)."""
    out = []
    for q, f in m.functions.items():
        if "<locals>" in q:
            continue
        for lp in [n for n in pyfront.walk_no_nested(f) if isinstance(n, ast.For)]:
            it = lp.iter
            if isinstance(it, ast.Call) and pyfront.call_name(it) == "ilsdrf" and any(k.arg is None for k in it.keywords):
                out.append((q, f, lp))
    return out


def _outer_loop(m, inner):
    p = m.parents.get(inner)
    while p is not None and not isinstance(p, ast.For):
        p = m.parents.get(p)
    return p


RUN_PRIMS = {"_run_cp": {"shutil.copy2"}, "_run_mv": {"shutil.move"}, "_run_ln": {"os.link", "os.symlink"}}


def _values_of(fn, name, depth=0):
    """the set of dotted callables a local name can stand for (through plain copies and `a if c else b`)"""
    if depth > 4:
        return None
    out = set()
    defs = [n.value for n in pyfront.walk_no_nested(fn) if isinstance(n, ast.Assign) and len(n.targets) == 1
            and isinstance(n.targets[0], ast.Name) and n.targets[0].id == name]
    if not defs:
        return {name}
    for v in defs:
        alts = [v.body, v.orelse] if isinstance(v, ast.IfExp) else [v]
        for x in alts:
            d = pyfront.dotted(x)
            if d is None:
                return None
            if isinstance(x, ast.Name):
                sub = _values_of(fn, x.id, depth + 1)
                if sub is None:
                    return None
                out |= sub
            else:
                out.add(d)
    return out


def r1_transfer_loops(repo=None):
    """On the run functions with their private helpers inlined: one loop over ilsdrf(src, **kwargs) nested in the loop over the
    (src, dest) pairs, destination = join(dest, relpath(path, src)), one unconditional call of the command's primitive."""
    r = Rule("C18.R1", "cp, ln and mv run the same loop over the listing, differing only in the transfer primitive (sibling)")
    m = pyfront.mod("list_drf", repo)
    shapes = {}
    for name, prim in RUN_PRIMS.items():
        fv = m.flat(name)
        f = fv.fn()
        env = pyutil.single_alias_env(f)
        inners = [lp for lp in ast.walk(f) if isinstance(lp, ast.For) and isinstance(lp.iter, ast.Call) and pyfront.call_name(lp.iter) == "ilsdrf"
                  and any(k.arg is None for k in lp.iter.keywords)]
        if len(inners) > 1:
            # 'transfer exactly the listed set; mv removes from the source exactly what it transferred': one listing per (source,
            # destination) pair decides what happens to a file.  Two listing loops that both change the file system act on two
            # selections - the second one is made later (a recorder has added files) and on a tree the first loop has changed.
            changers = ("shutil.move", "shutil.copy2", "shutil.copy", "shutil.copyfile", "os.link", "os.symlink", "os.remove", "os.unlink",
                        "os.rename", "os.replace")
            acting = [lp for lp in inners if any(isinstance(c, ast.Call) and pyfront.call_name(c) in changers for c in ast.walk(lp))]
            if len(acting) > 1:
                second = acting[1]
                what = [pyfront.call_name(c) for c in ast.walk(second) if isinstance(c, ast.Call) and pyfront.call_name(c) in changers][0]
                r.violation(m.rel, name, "%s(...) in a second loop over ilsdrf(...)" % what, "the command lists the source twice and acts on "
                            "both listings: what the second pass (`%s`) touches is whatever the listing selects *then* - a file a recorder "
                            "added in between is removed without having been transferred, and with the destination below the source the "
                            "fresh copies are selected too" % what, line=second.lineno)
                continue
        if len(inners) != 1:
            raise AnalysisError("%s: loop over ilsdrf(src, **kwargs) not found exactly once (helpers inlined: %s)" % (name, fv.inlined))
        inner = inners[0]
        outer = _outer_loop(fv, inner)
        q = name
        srcvar = inner.target.id if isinstance(inner.target, ast.Name) else None
        tcalls = [c for c in ast.walk(inner) if isinstance(c, ast.Call) and c.args and isinstance(c.args[0], ast.Name)
                  and getattr(pyutil.dealias(c.args[0], env), "id", None) == srcvar and len(c.args) == 2 and pyfront.call_name(c) not in ("os.path.relpath", "os.path.join")]
        if len(tcalls) != 1:
            r.violation(m.rel, q, "%d transfer calls per listed path" % len(tcalls), "each listed file must be transferred exactly once",
                        line=inner.lineno)
            continue
        tc = tcalls[0]
        callee = pyfront.call_name(tc)
        actual = _values_of(f, callee) if isinstance(tc.func, ast.Name) else {callee}
        if actual is None:
            raise AnalysisError("%s: the transfer callable `%s` could not be resolved" % (name, callee))
        if not actual <= prim:
            r.violation(m.rel, name, "transfer primitive `%s`" % ", ".join(sorted(actual)), "`drf %s` transfers files with %s instead of %s" % (
                name[5:], sorted(actual), sorted(prim)), line=tc.lineno)
            continue
        # no filter / early exit / conditional transfer
        extra = [x for x in ast.walk(inner) if isinstance(x, (ast.Continue, ast.Break, ast.Return))]
        # ... except the skip of a file whose destination path has been transferred already: `if D in seen: continue; seen.add(D)`
        # with `seen` an initially empty collection that only ever receives the destination paths, D the path the transfer uses
        dedupe = _find_dedupe(f, outer, inner, tc, env)
        if dedupe is not None:
            extra = [x for x in extra if x is not dedupe.body[0]]
        cond = [a_ for a_ in _anc(fv, tc) if isinstance(a_, (ast.If, ast.Try, ast.While)) and any(a_ is x for x in ast.walk(inner))]
        if dedupe is not None and getattr(dedupe, "_positive", False):
            cond = [a_ for a_ in cond if a_ is not dedupe]
        src_iter = outer is not None and norm(ast.unparse(pyutil.dealias(outer.iter, env))) == "args.srcdests"
        srcname = norm(ast.unparse(inner.iter.args[0])) if inner.iter.args else None
        pair_ok = outer is not None and isinstance(outer.target, ast.Tuple) and len(outer.target.elts) == 2 \
            and isinstance(outer.target.elts[0], ast.Name) and outer.target.elts[0].id == srcname
        if extra or cond or not src_iter or not pair_ok:
            what = extra[0] if extra else (cond[0] if cond else inner)
            r.violation(m.rel, q, norm(ast.unparse(what))[:80], "the command does not transfer every path of ilsdrf(src, **kwargs) for every "
                        "(src, dest) pair exactly once (filter, early exit or conditional transfer)", line=what.lineno)
            continue
        destname = outer.target.elts[1].id if isinstance(outer.target.elts[1], ast.Name) else None
        dvar = norm(ast.unparse(pyutil.dealias(tc.args[1], env)))
        stale = _stale_memo(f, outer, inner, tc)
        if stale is not None:
            node, why = stale
            r.violation(m.rel, q, norm(ast.unparse(node))[:90], why, line=node.lineno)
            continue
        dp = [n for n in ast.walk(inner) if isinstance(n, ast.Assign) and norm(ast.unparse(n.targets[0])) == dvar]
        dval = pyutil.dealias(dp[0].value, env) if dp else None
        rel_ok = len(dp) == 1 and isinstance(dval, ast.Call) and pyfront.call_name(dval) == "os.path.join" \
            and len(dval.args) == 2 and norm(ast.unparse(dval.args[0])) == destname \
            and norm(ast.unparse(dval.args[1])) == "os.path.relpath(%s, %s)" % (srcvar, srcname)
        if not dp:
            raise AnalysisError("%s: definition of the destination path `%s` not found" % (q, dvar))
        if rel_ok:
            r.ok("%s:%s %s%s" % (m.rel, inner.lineno, name, (" (inlined: %s)" % ", ".join(fv.inlined)) if fv.inlined else ""),
                 "for every path of ilsdrf(src, **kwargs): destination = join(dest, relpath(path, src)); one unconditional %s" % "/".join(sorted(actual)))
        else:
            r.violation(m.rel, q, norm(ast.unparse(dp[0]))[:100], "the destination path is not dest joined with "
                        "os.path.relpath(srcpath, src): files can land at a different relative path (e.g. string slicing is wrong "
                        "when src is not normalised)", line=dp[0].lineno)
        shapes[name] = _loop_shape(outer, env, callee)
    if len(shapes) == 3:
        if len(set(shapes.values())) == 1:
            r.ok("%s _run_cp/_run_ln/_run_mv" % m.rel, "loops are identical after abstracting the transfer primitive and local names")
        else:
            odd = [k for k in shapes if list(shapes.values()).count(shapes[k]) == 1]
            r.violation(m.rel, odd[0] if odd else "_run_cp", "transfer loop differs from its siblings", "cp, ln and mv no longer select / place "
                        "files identically", line=m.fn(odd[0] if odd else "_run_cp").lineno)
    r.guard(4)
    return r


def _find_dedupe(f, outer, inner, tc, env):
    """the statement `if D in seen: continue` (followed by `seen.add(D)`) of the per-file loop, D being the destination path the
    transfer uses and `seen` an initially empty collection created outside the (src, dest) loop that receives nothing else"""
    dpath = norm(ast.unparse(pyutil.dealias(tc.args[1], env)))
    dedupe = None
    for st_i, st_ in enumerate(inner.body):
        if isinstance(st_, ast.If) and not st_.orelse and len(st_.body) == 1 and isinstance(st_.body[0], ast.Continue) \
                and isinstance(st_.test, ast.Compare) and len(st_.test.ops) == 1 and isinstance(st_.test.ops[0], ast.In) \
                and isinstance(st_.test.comparators[0], ast.Name) \
                and norm(ast.unparse(pyutil.dealias(st_.test.left, env))) == dpath:
            S = st_.test.comparators[0].id
            inits = [a_ for a_ in ast.walk(f) if isinstance(a_, ast.Assign) and any(isinstance(t_, ast.Name) and t_.id == S for t_ in a_.targets)]
            empty = len(inits) == 1 and ((isinstance(inits[0].value, ast.Call) and pyfront.call_name(inits[0].value) in ("set", "list") and not inits[0].value.args)
                                         or (isinstance(inits[0].value, (ast.List, ast.Set)) and not inits[0].value.elts)) \
                and not any(inits[0] is y for y in ast.walk(outer))
            nxt = inner.body[st_i + 1] if st_i + 1 < len(inner.body) else None
            adds = isinstance(nxt, ast.Expr) and isinstance(nxt.value, ast.Call) and isinstance(nxt.value.func, ast.Attribute) \
                and nxt.value.func.attr in ("add", "append") and isinstance(nxt.value.func.value, ast.Name) and nxt.value.func.value.id == S \
                and len(nxt.value.args) == 1 and norm(ast.unparse(pyutil.dealias(nxt.value.args[0], env))) == dpath
            other_uses = [y for y in ast.walk(f) if isinstance(y, ast.Name) and y.id == S and isinstance(y.ctx, ast.Load)
                          and not any(y is z for z in ast.walk(st_)) and not (nxt is not None and any(y is z for z in ast.walk(nxt)))]
            if empty and adds and not other_uses:
                dedupe = st_
        # the same skip in its positive form: `if D not in seen: seen.add(D); <transfer>` - everything the loop does for a file is
        # inside the `if`, whose only other content is the transfer
        elif isinstance(st_, ast.If) and not st_.orelse and isinstance(st_.test, ast.Compare) and len(st_.test.ops) == 1 \
                and isinstance(st_.test.ops[0], ast.NotIn) and isinstance(st_.test.comparators[0], ast.Name) \
                and norm(ast.unparse(pyutil.dealias(st_.test.left, env))) == dpath and any(tc is y for y in ast.walk(st_)):
            S = st_.test.comparators[0].id
            inits = [a_ for a_ in ast.walk(f) if isinstance(a_, ast.Assign) and any(isinstance(t_, ast.Name) and t_.id == S for t_ in a_.targets)]
            empty = len(inits) == 1 and ((isinstance(inits[0].value, ast.Call) and pyfront.call_name(inits[0].value) in ("set", "list") and not inits[0].value.args)
                                         or (isinstance(inits[0].value, (ast.List, ast.Set)) and not inits[0].value.elts)) \
                and not any(inits[0] is y for y in ast.walk(outer))
            first = st_.body[0] if st_.body else None
            adds = isinstance(first, ast.Expr) and isinstance(first.value, ast.Call) and isinstance(first.value.func, ast.Attribute) \
                and first.value.func.attr in ("add", "append") and isinstance(first.value.func.value, ast.Name) and first.value.func.value.id == S \
                and len(first.value.args) == 1 and norm(ast.unparse(pyutil.dealias(first.value.args[0], env))) == dpath
            other_uses = [y for y in ast.walk(f) if isinstance(y, ast.Name) and y.id == S and isinstance(y.ctx, ast.Load)
                          and not any(y is z for z in ast.walk(st_.test)) and not (first is not None and any(y is z for z in ast.walk(first)))]
            # nothing of the iteration may lie after the `if` (it would run for a skipped file as well)
            last = st_i == len(inner.body) - 1
            if empty and adds and not other_uses and last:
                dedupe = st_
                dedupe._positive = True
    return dedupe


def files_deduped(m):
    """{run function: bool} - the per-file loop of cp / ln / mv skips a destination path that was transferred already"""
    out = {}
    for name in RUN_PRIMS:
        fv = m.flat(name)
        f = fv.fn()
        env = pyutil.single_alias_env(f)
        inners = [lp for lp in ast.walk(f) if isinstance(lp, ast.For) and isinstance(lp.iter, ast.Call) and pyfront.call_name(lp.iter) == "ilsdrf"]
        ok = False
        if len(inners) != 1:
            raise AnalysisError("%s: loop over ilsdrf(src, **kwargs) not found exactly once (helpers inlined: %s)" % (name, fv.inlined))
        if len(inners) == 1:
            inner = inners[0]
            outer = _outer_loop(fv, inner)
            srcvar = inner.target.id if isinstance(inner.target, ast.Name) else None
            tcalls = [c for c in ast.walk(inner) if isinstance(c, ast.Call) and c.args and isinstance(c.args[0], ast.Name)
                      and getattr(pyutil.dealias(c.args[0], env), "id", None) == srcvar and len(c.args) == 2
                      and pyfront.call_name(c) not in ("os.path.relpath", "os.path.join")]
            if outer is not None and len(tcalls) == 1:
                ok = _find_dedupe(f, outer, inner, tcalls[0], env) is not None
        out[name] = ok
    return out


def _loop_shape(outer, env, callee):
    """the (src, dest) loop as text, with the transfer primitive abstracted, plain copies of names (left behind by inlining)
    substituted and dropped, and the names it binds renamed in order of appearance"""
    import copy
    from .. import pysym
    t = copy.deepcopy(outer)
    for c in ast.walk(t):
        if isinstance(c, ast.Call) and pyfront.call_name(c) == callee:
            c.func = ast.Name(id="TRANSFER", ctx=ast.Load())
    t = pysym.subst(t, env)

    class Drop(ast.NodeTransformer):
        def visit_Assign(self, node):
            if len(node.targets) == 1 and isinstance(node.targets[0], ast.Name) and node.targets[0].id in env:
                return None
            return node
    t = Drop().visit(t)
    order = []

    class Bound(ast.NodeVisitor):
        def visit_Name(self, node):
            if isinstance(node.ctx, ast.Store) and node.id not in order:
                order.append(node.id)
    Bound().visit(t)
    ren = {n: "v%d" % i for i, n in enumerate(order)}
    for n in ast.walk(t):
        if isinstance(n, ast.Name) and n.id in ren:
            n.id = ren[n.id]
    ast.fix_missing_locations(t)
    return norm(ast.unparse(t))


def _stale_memo(f, outer, inner, tc):
    """Loop-carried state in the destination of the transfer.  A name feeding the destination that is not assigned on every
    iteration before the transfer holds a value of an earlier file.  Recognised: the memo idiom `if A != K: K = A; X = g(...)`.
    The memo is sound only if g's inputs are part of the key A or do not change while the memo lives; g reading a variable of
    the (src, dest) loop while K survives from one pair to the next is positive evidence of a stale destination (violation).
    Any other carried state is not decided (AnalysisError).  Returns (node, message) or None when nothing is carried."""
    def names(e):
        return {x.id for x in ast.walk(e) if isinstance(x, ast.Name)}
    params = {a.arg for a in f.args.args}
    assigned_in_outer = set()
    for n in ast.walk(outer):
        if isinstance(n, ast.Assign):
            for t in n.targets:
                assigned_in_outer |= {x.id for x in ast.walk(t) if isinstance(x, ast.Name)}
        elif isinstance(n, (ast.For, ast.comprehension)):
            assigned_in_outer |= names(n.target)
        elif isinstance(n, (ast.AugAssign, ast.AnnAssign)):
            assigned_in_outer |= names(n.target)
    loop_vars = names(outer.target) | names(inner.target)
    # unconditional definitions of this iteration, in order, up to the statement holding the transfer
    top = {}
    tstmt = None
    for st in inner.body:
        if any(x is tc for x in ast.walk(st)):
            tstmt = st
            break
        if isinstance(st, ast.Assign):
            for t in st.targets:
                for x in ast.walk(t):
                    if isinstance(x, ast.Name):
                        top[x.id] = st.value
    if tstmt is None:
        return None
    carried, seen, work = [], set(), sorted(names(tc.args[1]))
    while work:
        nm = work.pop()
        if nm in seen:
            continue
        seen.add(nm)
        if nm in loop_vars or nm not in assigned_in_outer:
            continue
        if nm in top:
            work += sorted(names(top[nm]))
            continue
        carried.append(nm)
    if not carried:
        return None
    for x in sorted(carried):
        blocks = [st for st in inner.body if isinstance(st, ast.If) and any(
            isinstance(a, ast.Assign) and any(isinstance(t, ast.Name) and t.id == x for t in a.targets) for a in ast.walk(st))]
        others = [a for a in ast.walk(outer) if isinstance(a, ast.Assign) and any(isinstance(t, ast.Name) and t.id == x for t in a.targets)
                  and not any(a is y for b in blocks for y in ast.walk(b))]
        if len(blocks) != 1 or others or blocks[0].orelse:
            raise AnalysisError("%s: the destination depends on `%s`, which is carried from one listed file to the next in a form that "
                                "is not the memo idiom `if key != last: last = key; value = ...`" % (f.name, x))
        b = blocks[0]
        t = b.test
        if not (isinstance(t, ast.Compare) and len(t.ops) == 1 and isinstance(t.ops[0], ast.NotEq)):
            raise AnalysisError("%s: guard of the memo for `%s` is not `key != last`: `%s`" % (f.name, x, norm(ast.unparse(t))[:60]))
        sides = [t.left, t.comparators[0]]
        last = [s_ for s_ in sides if isinstance(s_, ast.Name) and s_.id not in top and s_.id not in loop_vars]
        if len(last) != 1:
            raise AnalysisError("%s: the remembered key of the memo for `%s` could not be told from the current key" % (f.name, x))
        last = last[0]
        key = sides[1] if sides[0] is last else sides[0]
        upd = [a for a in b.body if isinstance(a, ast.Assign) and any(isinstance(t_, ast.Name) and t_.id == last.id for t_ in a.targets)]
        if len(upd) != 1 or norm(ast.unparse(upd[0].value)) != norm(ast.unparse(key)):
            raise AnalysisError("%s: the memo for `%s` does not remember its key (`%s = %s` expected in the guarded block)" % (
                f.name, x, last.id, norm(ast.unparse(key))))
        # where does the remembered key start its life?  inside the (src, dest) loop body: one memo per pair
        reset_per_pair = any(isinstance(a, ast.Assign) and any(isinstance(t_, ast.Name) and t_.id == last.id for t_ in a.targets)
                             for st in outer.body if st is not inner and not any(y is inner for y in ast.walk(st)) for a in ast.walk(st))
        key_names = set()
        work2, seen2 = sorted(names(key)), set()
        while work2:
            nm = work2.pop()
            if nm in seen2:
                continue
            seen2.add(nm)
            key_names.add(nm)
            if nm in top:
                work2 += sorted(names(top[nm]))
        blocal = {}
        for a in b.body:
            if isinstance(a, ast.Assign):
                for t_ in a.targets:
                    if isinstance(t_, ast.Name):
                        blocal[t_.id] = a.value
        vx = [a for a in b.body if isinstance(a, ast.Assign) and any(isinstance(t_, ast.Name) and t_.id == x for t_ in a.targets)]
        if len(vx) != 1:
            raise AnalysisError("%s: `%s` is not assigned exactly once at the top of the memo block" % (f.name, x))
        inputs, work3, seen3 = set(), sorted(names(vx[0].value)), set()
        while work3:
            nm = work3.pop()
            if nm in seen3:
                continue
            seen3.add(nm)
            if nm == last.id:
                continue
            if nm in blocal and nm != x:
                work3 += sorted(names(blocal[nm]))
                continue
            inputs.add(nm)
        varying = {nm for nm in inputs if nm in names(outer.target) and nm not in key_names}
        if varying and not reset_per_pair:
            return vx[0], ("the destination directory is remembered from one listed file to the next and renewed only when `%s` "
                           "changes, but it is computed from `%s` of the (src, dest) pair, which is not part of that key, and the "
                           "remembered key survives from one pair to the next: the first files of the next pair whose relative "
                           "directory equals the last one of the previous pair are transferred into the previous pair's "
                           "destination" % (norm(ast.unparse(key)), ", ".join(sorted(varying))))
        raise AnalysisError("%s: the destination is built from the memo `%s` keyed by `%s`; whether it equals "
                            "join(dest, relpath(path, src)) is not decided" % (f.name, x, norm(ast.unparse(key))))
    return None


def _anc(m, n):
    p = m.parents.get(n)
    while p is not None:
        yield p
        p = m.parents.get(p)


def _inside(outer, n):
    return hasattr(n, "lineno") and outer.lineno <= n.lineno <= outer.end_lineno


def _deleted_keys(m, fn):
    """Keys removed from the kwargs dict built from vars(args), in fn with its private helpers inlined: `del kwargs["k"]`
    statements, or `for key in <constant tuple>: del kwargs[key]` (the tuple may be a local or a module-level constant)."""
    from .. import cfold
    keys = set()
    env = pyutil.single_alias_env(fn)
    fold = cfold.Folder(getattr(m, "_repo", None))
    for n in ast.walk(fn):
        if isinstance(n, ast.Delete):
            for t in n.targets:
                if isinstance(t, ast.Subscript) and isinstance(pyfront.const(t.slice), str):
                    keys.add(pyfront.const(t.slice))
        if isinstance(n, ast.For) and isinstance(n.target, ast.Name) and any(
                isinstance(d, ast.Delete) and isinstance(d.targets[0], ast.Subscript) and isinstance(d.targets[0].slice, ast.Name)
                and d.targets[0].slice.id == n.target.id for d in ast.walk(n)):
            it = pyutil.dealias(n.iter, env)
            if isinstance(it, ast.Name):
                ds = [x.value for x in ast.walk(fn) if isinstance(x, ast.Assign) and len(x.targets) == 1 and isinstance(x.targets[0], ast.Name)
                      and x.targets[0].id == it.id]
                if len(ds) == 1:
                    it = pyutil.dealias(ds[0], env)
            vals = None
            if isinstance(it, (ast.Tuple, ast.List)) and all(isinstance(pyfront.const(e), str) for e in it.elts):
                vals = [pyfront.const(e) for e in it.elts]
            elif isinstance(it, ast.Name):
                mv = m.module_assign(it.id) if hasattr(m, "module_assign") else None
                if isinstance(mv, (ast.Tuple, ast.List)) and all(isinstance(pyfront.const(e), str) for e in mv.elts):
                    vals = [pyfront.const(e) for e in mv.elts]
            if vals is None:
                raise AnalysisError("%s: keys excluded from the ilsdrf kwargs are not a constant tuple (`%s`)" % (fn.name, norm(ast.unparse(n.iter))))
            keys |= set(vals)
    return keys


def _table_rows(m, loop):
    """[{target name: ast value}] for `for a, b, c in <module-level constant tuple of tuples>` loops (else None)"""
    it = loop.iter
    val = m.module_assign(it.id) if isinstance(it, ast.Name) else (it if isinstance(it, (ast.Tuple, ast.List)) else None)
    if not isinstance(val, (ast.Tuple, ast.List)):
        return None
    tg = loop.target
    names = [e.id for e in tg.elts] if isinstance(tg, ast.Tuple) and all(isinstance(e, ast.Name) for e in tg.elts) else (
        [tg.id] if isinstance(tg, ast.Name) else None)
    if names is None:
        return None
    rows = []
    for el in val.elts:
        if len(names) == 1:
            rows.append({names[0]: el})
        elif isinstance(el, (ast.Tuple, ast.List)) and len(el.elts) == len(names):
            rows.append(dict(zip(names, el.elts)))
        else:
            return None
    return rows


def _dests(m, fname, _seen=()):
    """dest name -> list of (action, const, default) for add_argument calls in builder fname (following helper calls; calls in a
    loop over a module-level constant table of (.., option, dict(...)) rows are expanded row by row)."""
    out = {}
    f = m.fn(fname)
    parents = {}
    for n in ast.walk(f):
        for ch in ast.iter_child_nodes(n):
            parents[ch] = n
    for c in ast.walk(f):
        if isinstance(c, ast.Call) and isinstance(c.func, ast.Attribute) and c.func.attr == "add_argument" and any(
                k.arg is None for k in c.keywords):
            # add_argument(option, **keywords) driven by a table
            lp = parents.get(c)
            while lp is not None and not isinstance(lp, ast.For):
                lp = parents.get(lp)
            rows = _table_rows(m, lp) if lp is not None else None
            if rows is None:
                raise AnalysisError("%s: option names of an add_argument call are not constants (`%s`)" % (fname, norm(ast.unparse(c))[:80]))
            for row in rows:
                opts = [pyfront.const(row[a.id]) if isinstance(a, ast.Name) and a.id in row else pyfront.const(a) for a in c.args]
                kws = {}
                for k in c.keywords:
                    if k.arg is None and isinstance(k.value, ast.Name) and k.value.id in row:
                        dv = row[k.value.id]
                        if isinstance(dv, ast.Call) and pyfront.call_name(dv) == "dict":
                            kws.update({kk.arg: kk.value for kk in dv.keywords if kk.arg})
                        elif isinstance(dv, ast.Dict):
                            kws.update({pyfront.const(a_): b_ for a_, b_ in zip(dv.keys, dv.values)})
                        else:
                            raise AnalysisError("%s: keyword table entry not a dict" % fname)
                    elif k.arg:
                        kws[k.arg] = k.value
                dest = pyfront.const(kws.get("dest")) if kws.get("dest") is not None else None
                if dest is None:
                    longs = [o for o in opts if o and o.startswith("--")]
                    dest = longs[0][2:].replace("-", "_") if longs else None
                if dest is None:
                    raise AnalysisError("%s: destination of a table-driven add_argument not resolved" % fname)
                out.setdefault(dest, []).append((pyfront.const(kws.get("action")) if kws.get("action") is not None else None, opts, kws.get("default")))
            continue
        if isinstance(c, ast.Call) and isinstance(c.func, ast.Attribute) and c.func.attr == "add_argument":
            opts = [pyfront.const(a) for a in c.args]
            dest = pyfront.const(pyfront.kwarg(c, "dest"))
            if dest is None:
                longs = [o for o in opts if o and o.startswith("--")]
                dest = longs[0][2:].replace("-", "_") if longs else (opts[0].lstrip("-") if opts and opts[0] else None)
                if dest is None:
                    raise AnalysisError("%s: option names of an add_argument call are not constants (`%s`)" % (fname, norm(ast.unparse(c))[:80]))
            out.setdefault(dest, []).append((pyfront.const(pyfront.kwarg(c, "action")), opts, pyfront.kwarg(c, "default")))
        elif isinstance(c, ast.Call) and isinstance(c.func, ast.Name) and c.func.id in m.functions and c.func.id != fname \
                and c.func.id.startswith("_") and c.func.id not in _seen:
            # a private helper (that may add arguments to the parser it is given or builds)
            for k, v in _dests(m, c.func.id, _seen + (fname, c.func.id)).items():
                out.setdefault(k, []).extend(v)
    return out


def prepare_fn(m):
    """the private function shared by cp/mv/ln that turns the parsed arguments into (source, destination) pairs: the one that
    stores args.srcdests"""
    cands = [q for q, f in m.functions.items() if "." not in q and any(
        isinstance(n, ast.Assign) and any(isinstance(t, ast.Attribute) and isinstance(t.value, ast.Name) and t.attr == "srcdests"
                                          for t in n.targets) for n in ast.walk(f))]
    if len(cands) != 1:
        raise AnalysisError("list_drf: the function that stores args.srcdests was not found exactly once (%s)" % cands)
    return cands[0]


def r2_option_table(repo=None):
    r = Rule("C18.R2", "the options of cp/ln/mv (and ls) map exactly onto ilsdrf's parameters (tables)")
    m = pyfront.mod("list_drf", repo)
    il = m.fn("ilsdrf")
    params = [a.arg for a in il.args.args][1:]
    for cmd, builder, runner in (("cp", "_build_cp_parser", "_run_cp"), ("mv", "_build_mv_parser", "_run_mv"), ("ln", "_build_ln_parser", "_run_ln")):
        dests = set(_dests(m, builder)) | {"func"}
        ps = m.flat(runner, depth=4).fn()        # the run function with its private helpers inlined: parsing, pairs, kwargs
        added = {t.attr for n in ast.walk(ps) if isinstance(n, ast.Assign) for t in n.targets if isinstance(t, ast.Attribute)
                 and isinstance(t.value, ast.Name) and t.value.id == "args"}
        deleted = _deleted_keys(m, ps)
        rf = m.fn(runner)
        pre_deleted = {t.attr for n in ast.walk(rf) if isinstance(n, ast.Delete) for t in n.targets if isinstance(t, ast.Attribute)
                       and isinstance(t.value, ast.Name) and t.value.id == "args"}
        final = (dests | added) - deleted - pre_deleted
        site = "%s %s options -> ilsdrf kwargs" % (m.rel, cmd)
        if final == set(params):
            r.ok(site, "kwargs passed to ilsdrf are exactly its parameters %s" % params)
        else:
            r.violation(m.rel, runner, "kwargs %s vs ilsdrf parameters %s" % (sorted(final), params),
                        "missing in kwargs: %s; unexpected (TypeError at run time or option ignored): %s" % (
                            sorted(set(params) - final), sorted(final - set(params))), line=rf.lineno)
    # ls
    dests = set(_dests(m, "_build_ls_parser")) | {"func"}
    rl = m.flat("_run_ls").fn()
    deleted = _deleted_keys(m, rl)
    final = dests - deleted
    if final == set(params):
        r.ok("%s ls options -> ilsdrf kwargs" % m.rel, "kwargs passed to ilsdrf/lsdrf are exactly its parameters")
    else:
        r.violation(m.rel, "_run_ls", "kwargs %s vs ilsdrf parameters %s" % (sorted(final), params), "ls options do not match the listing's "
                    "parameters", line=rl.lineno)
    # paired options store opposite constants into the same dest
    allopts = {k: v for k, v in _dests(m, "_build_cp_parser").items() if k and k.startswith("include_")}
    if len(allopts) < 4:
        raise AnalysisError("cp options: %d include_* destinations found, 4 confirmed" % len(allopts))
    for dest, rows in sorted(allopts.items()):
        acts = sorted(str(a) for a, o, d in rows)
        names = [o[0] for a, o, d in rows]
        if acts == ["store_false", "store_true"]:
            pos = [o[0] for a, o, d in rows if a == "store_true"][0]
            neg = [o[0] for a, o, d in rows if a == "store_false"][0]
            if neg == "--no" + pos[2:]:
                r.ok("%s option pair %s/%s -> %s" % (m.rel, pos, neg, dest), "store_true / store_false into the same destination")
            else:
                r.violation(m.rel, "_build_cp_parser", "%s / %s -> %s" % (pos, neg, dest), "include/exclude options are crossed", line=None)
        else:
            r.violation(m.rel, "_build_cp_parser", "dest %s actions %s (%s)" % (dest, acts, names), "an include flag is not a "
                        "store_true/store_false pair on one destination", line=None)
    rec_rows = _dests(m, "_build_cp_parser").get("recursive")
    if not rec_rows:
        raise AnalysisError("cp options: no option with destination `recursive` (--only)")
    for dest, rows in (("recursive", rec_rows),):
        if dest == "recursive":
            a, o, d = rows[0]
            if a == "store_false" and pyfront.const(d) is True and "--only" in o:
                r.ok("%s option --only -> recursive" % m.rel, "store_false with default True")
            else:
                r.violation(m.rel, "_build_cp_parser", "--only", "--only must switch recursion off", line=None)
    r.guard(9)
    return r


def r3_wiring(repo=None):
    r = Rule("C18.R3", "drf cp/ln/ls/mv are wired to their builders, run functions and transfer primitives")
    dm = pyfront.mod("drf_command", repo)
    m = pyfront.mod("list_drf", repo)
    main = dm.fn("main")
    reg = {}
    for c in ast.walk(main):
        if isinstance(c, ast.Call) and isinstance(c.func, ast.Name) and c.func.id.startswith("_build_") and len(c.args) == 2:
            reg[pyfront.const(c.args[1])] = c.func.id
    want = {"cp": ("_build_cp_parser", "_run_cp"), "ln": ("_build_ln_parser", "_run_ln"), "ls": ("_build_ls_parser", "_run_ls"),
            "mv": ("_build_mv_parser", "_run_mv")}
    for cmd, (b, run) in want.items():
        if reg.get(cmd) != b:
            r.violation(dm.rel, "main", "command %s -> %s" % (cmd, reg.get(cmd)), "command registered with the wrong parser builder", line=main.lineno)
            continue
        bf = m.fn(b)
        try:
            bview = m.flat(b).dealiased().fn()          # a shared builder helper that receives the run function is written out
        except AnalysisError:
            bview = bf
        sd = [c for c in ast.walk(bview) if isinstance(c, ast.Call) and isinstance(c.func, ast.Attribute) and c.func.attr == "set_defaults"
              and pyfront.kwarg(c, "func") is not None]
        if not sd:
            raise AnalysisError("%s: set_defaults(func=...) not found (directly or in an inlined helper)" % b)
        got = norm(ast.unparse(pyfront.kwarg(sd[0], "func"))) if sd else None
        if got == run:
            r.ok("%s %s -> %s -> %s" % (dm.rel, cmd, b, run), "registered and dispatched to the matching run function")
        else:
            r.violation(m.rel, b, "set_defaults(func=%s)" % got, "`drf %s` runs %s instead of %s" % (cmd, got, run), line=bf.lineno)
    f = m.fn("_run_ln")
    # the local that holds the link primitive: any local assigned os.link / os.symlink
    link_vars = {n.targets[0].id for n in ast.walk(f) if isinstance(n, ast.Assign) and isinstance(n.targets[0], ast.Name)
                 and any(pyfront.dotted(x) in ("os.link", "os.symlink") for x in ast.walk(n.value))}
    vals = {}
    for n in ast.walk(f):
        if isinstance(n, ast.Assign) and isinstance(n.targets[0], ast.Name) and n.targets[0].id in link_vars:
            v = n.value
            if isinstance(v, ast.IfExp):
                vals[norm(ast.unparse(v.test))] = (norm(ast.unparse(v.body)), norm(ast.unparse(v.orelse)))
            else:
                par = m.parents.get(n)
                if isinstance(par, ast.If):
                    t = norm(ast.unparse(par.test))
                    cur = vals.get(t, [None, None])
                    cur = list(cur)
                    cur[0 if n in par.body else 1] = norm(ast.unparse(v))
                    vals[t] = tuple(cur)
    if vals.get("args.symbolic") == ("os.symlink", "os.link") or vals.get("not args.symbolic") == ("os.link", "os.symlink"):
        r.ok("%s _run_ln" % m.rel, "os.symlink when --symbolic, os.link otherwise")
    elif not vals:
        raise AnalysisError("_run_ln: selection of the link function not recognised")
    else:
        r.violation(m.rel, "_run_ln", "link function selection %s" % vals, "hard/symbolic selection altered", line=f.lineno)
    # listing source for ls
    rl = m.fn("_run_ls")
    srcs = {pyfront.call_name(c) for c in ast.walk(rl) if isinstance(c, ast.Call) and pyfront.call_name(c) in ("ilsdrf", "lsdrf", "os.walk", "os.listdir", "os.scandir", "glob.glob", "glob.iglob")}
    # the shared listing functions count when they are referenced at all (called in place, or bound with functools.partial)
    srcs |= {x.id for x in ast.walk(rl) if isinstance(x, ast.Name) and isinstance(x.ctx, ast.Load) and x.id in ("ilsdrf", "lsdrf")}
    if srcs <= {"ilsdrf", "lsdrf"} and srcs:
        r.ok("%s _run_ls" % m.rel, "paths come only from ilsdrf/lsdrf (same listing as the transfer commands)")
    elif not srcs:
        raise AnalysisError("_run_ls: no listing source recognised")
    else:
        r.violation(m.rel, "_run_ls", "path sources %s" % sorted(srcs), "ls does not list with the shared listing function", line=rl.lineno)
    r.guard(8)
    return r


def _below_helper_ok(m, name):
    """is module function `name`(path, top) a component-wise 'path lies below directory top' test?  Accepted bodies (single return):
    path.startswith(os.path.join(top, '')) | path.startswith(top + os.sep) | path.startswith(top.rstrip(os.sep) + os.sep) |
    os.path.commonpath([top, path]) == top (with path != top)"""
    f = m.functions.get(name)
    if f is None or len(f.args.args) != 2:
        return None
    a, b = f.args.args[0].arg, f.args.args[1].arg
    body = [x for x in f.body if not (isinstance(x, ast.Expr) and isinstance(x.value, ast.Constant))]
    if len(body) != 1 or not isinstance(body[0], ast.Return):
        return None
    t = norm(ast.unparse(body[0].value))
    for path, top in ((a, b), (b, a)):
        if t in ("%s.startswith(os.path.join(%s, ''))" % (path, top), "%s.startswith(%s + os.sep)" % (path, top),
                 "%s.startswith(%s.rstrip(os.sep) + os.sep)" % (path, top)):
            return (path, top)
    return None


def _as_pair(elt):
    """[first, second] when elt builds a 2-tuple: a tuple display, or tuple(F(t) for t in (A, B)) with t substituted"""
    if isinstance(elt, ast.Tuple) and len(elt.elts) == 2:
        return list(elt.elts)
    if isinstance(elt, ast.Call) and pyfront.call_name(elt) == "tuple" and len(elt.args) == 1 and isinstance(elt.args[0], (ast.GeneratorExp, ast.ListComp)):
        g = elt.args[0]
        if len(g.generators) == 1 and not g.generators[0].ifs and isinstance(g.generators[0].target, ast.Name) \
                and isinstance(g.generators[0].iter, (ast.Tuple, ast.List)) and len(g.generators[0].iter.elts) == 2:
            from .. import pysym
            return [pysym.subst(g.elt, {g.generators[0].target.id: v}) for v in g.generators[0].iter.elts]
    return None


def r4_channel_pairs(repo=None):
    """Every requested channel is transferred, and every file once.  The channel values may be split on commas and stripped and
    each is mapped to one (source, destination) pair.  A pair may be dropped from the list only if nothing is lost by it: (a) it is
    equal to a pair already kept (membership test on the kept list), or (b) recursion is on (`args.recursive` true in the same
    condition) and its source lies *below* the source of another requested pair, decided component-wise (a helper of the accepted
    forms, see _below_helper_ok).  Any other filter (a comprehension `if`, set(), character-wise commonprefix / startswith on the
    raw strings, pruning without the recursion guard) is reported: it drops a channel the equivalent listing selects."""
    r = Rule("C18.R4", "every requested channel is transferred: only a repeated (source, destination) pair is dropped, overlap is resolved per file")
    m = pyfront.mod("list_drf", repo)
    q = prepare_fn(m)
    f = m.fn(q)
    fl = m.flat(q).fn()
    par = {}
    for n in ast.walk(f):
        for ch in ast.iter_child_nodes(n):
            par[ch] = n
    susp = []
    allowed = []
    pruned_below = []
    for n in ast.walk(f):
        if isinstance(n, ast.comprehension) and n.ifs:
            susp.append(n.ifs[0])
        if isinstance(n, ast.Call):
            cn = pyfront.call_name(n) or ""
            if cn in ("set", "frozenset", "dict.fromkeys", "filter", "os.path.commonprefix", "collections.OrderedDict.fromkeys"):
                # removing equal elements from the collection of the pairs themselves drops only a pair that repeats a kept one
                a0 = n.args[0] if len(n.args) == 1 and not n.keywords else None
                once = {}
                for a_ in pyfront.walk_no_nested(f):
                    if isinstance(a_, ast.Assign) and len(a_.targets) == 1 and isinstance(a_.targets[0], ast.Name):
                        once.setdefault(a_.targets[0].id, []).append(a_.value)
                hops = 0
                while isinstance(a0, ast.Name) and len(once.get(a0.id, [])) == 1 and hops < 4:
                    a0 = once[a0.id][0]
                    hops += 1
                if cn in ("dict.fromkeys", "collections.OrderedDict.fromkeys") and isinstance(a0, (ast.GeneratorExp, ast.ListComp)) \
                        and len(a0.generators) == 1 and not a0.generators[0].ifs and _as_pair(a0.elt) is not None:
                    allowed.append((n, "equal pairs are merged, first occurrence and order kept (`%s`)" % cn))
                else:
                    susp.append(n)
            if isinstance(n.func, ast.Attribute) and n.func.attr in ("remove", "pop", "discard", "clear") and not cn.startswith("os."):
                susp.append(n)
    # conditional skips in loops that build the pair list
    for lp in [x for x in ast.walk(f) if isinstance(x, (ast.For, ast.While))]:
        for x in ast.walk(lp):
            if not isinstance(x, ast.If):
                continue
            skips = any(isinstance(y, (ast.Continue, ast.Break)) for y in x.body)
            cond_append = any(isinstance(y, ast.Call) and isinstance(y.func, ast.Attribute) and y.func.attr in ("append", "extend", "add")
                              for st in x.body for y in ast.walk(st))
            if not (skips or cond_append):
                continue
            if cond_append and not skips:
                # `if P not in kept: kept.append(P)`: only a pair equal to one already kept is skipped
                t_ = x.test
                apps_ = [y for st in x.body for y in ast.walk(st) if isinstance(y, ast.Call) and isinstance(y.func, ast.Attribute)
                         and y.func.attr in ("append", "add")]
                if isinstance(t_, ast.Compare) and len(t_.ops) == 1 and isinstance(t_.ops[0], ast.NotIn) and len(apps_) == 1 and not x.orelse \
                        and len(apps_[0].args) == 1 and norm(ast.unparse(apps_[0].args[0])) == norm(ast.unparse(t_.left)) \
                        and norm(ast.unparse(apps_[0].func.value)) == norm(ast.unparse(t_.comparators[0])):
                    allowed.append((x, "a pair equal to one already kept is skipped (`%s`)" % norm(ast.unparse(t_))[:60]))
                    continue
                susp.append(x)
                continue
            # `if <cond>: continue` -- the pair is dropped when cond holds; cond is a disjunction of allowed reasons
            if not isinstance(lp, ast.For):
                susp.append(x)
                continue
            tgt = norm(ast.unparse(lp.target))
            src_name = norm(ast.unparse(lp.target.elts[0])) if isinstance(lp.target, ast.Tuple) else None
            # locals assigned exactly once (any expression) are looked through: `is_repeat = (src, dest) in kept`
            env = {}
            cnt = {}
            for a_ in pyfront.walk_no_nested(f):
                if isinstance(a_, ast.Assign) and len(a_.targets) == 1 and isinstance(a_.targets[0], ast.Name):
                    cnt[a_.targets[0].id] = cnt.get(a_.targets[0].id, 0) + 1
                    env[a_.targets[0].id] = a_.value
                elif isinstance(a_, (ast.AugAssign,)) and isinstance(a_.target, ast.Name):
                    cnt[a_.target.id] = cnt.get(a_.target.id, 0) + 2
            env = {k: v for k, v in env.items() if cnt.get(k) == 1 and k not in {a2.arg for a2 in f.args.args}}

            def look(e, depth=0):
                """a bare local name that is assigned exactly once stands for its value"""
                while isinstance(e, ast.Name) and e.id in env and depth < 4:
                    e = env[e.id]
                    depth += 1
                return e

            def is_membership(t):
                t = look(t)
                if isinstance(t, ast.Compare) and len(t.ops) == 1 and isinstance(t.ops[0], ast.In) and norm(ast.unparse(t.left)) in (tgt, "(%s)" % tgt):
                    kept = norm(ast.unparse(t.comparators[0]))
                    return any(isinstance(y, ast.Call) and isinstance(y.func, ast.Attribute) and y.func.attr == "append"
                               and norm(ast.unparse(y.func.value)) == kept for y in ast.walk(lp))
                # `P = <pair built from the loop variable>; if P in kept: continue; kept.append(P)`: what is tested is what is kept
                if isinstance(t, ast.Compare) and len(t.ops) == 1 and isinstance(t.ops[0], ast.In):
                    kept = norm(ast.unparse(t.comparators[0]))
                    left = norm(ast.unparse(t.left))
                    apps_ = [y for y in ast.walk(lp) if isinstance(y, ast.Call) and isinstance(y.func, ast.Attribute) and y.func.attr == "append"
                             and norm(ast.unparse(y.func.value)) == kept]
                    return bool(apps_) and all(len(y.args) == 1 and norm(ast.unparse(y.args[0])) == left for y in apps_)
                return False

            def is_below_test(c):
                """None, or the description of a component-wise 'source lies below another requested source' test"""
                c = look(c)
                if isinstance(c, ast.Call) and pyfront.call_name(c) == "any" and c.args and isinstance(c.args[0], ast.GeneratorExp):
                    g = c.args[0]
                    if isinstance(g.elt, ast.Call) and isinstance(g.elt.func, ast.Name) and len(g.elt.args) == 2 and not g.generators[0].ifs:
                        roles = _below_helper_ok(m, g.elt.func.id)
                        if roles:
                            params = [a_.arg for a_ in m.functions[g.elt.func.id].args.args]
                            bind = dict(zip(params, [norm(ast.unparse(a_)) for a_ in g.elt.args]))
                            gt = g.generators[0].target
                            other = norm(ast.unparse(gt.elts[0])) if isinstance(gt, ast.Tuple) else norm(ast.unparse(gt))
                            same_list = norm(ast.unparse(g.generators[0].iter)) == norm(ast.unparse(lp.iter))
                            if bind.get(roles[0]) == src_name and bind.get(roles[1]) == other and same_list:
                                return g.elt.func.id
                # <src>.startswith(<tuple of os.path.join(s, "") for the sources of the same list>): str.startswith with a tuple is
                # "starts with any of", and join(s, "") ends with a separator - component-wise, and never true for s itself
                if isinstance(c, ast.Call) and isinstance(c.func, ast.Attribute) and c.func.attr == "startswith" and len(c.args) == 1 \
                        and norm(ast.unparse(c.func.value)) == src_name:
                    pre = look(c.args[0])
                    if isinstance(pre, ast.Call) and pyfront.call_name(pre) == "tuple" and pre.args:
                        pre = pre.args[0]
                    if isinstance(pre, (ast.GeneratorExp, ast.ListComp)) and len(pre.generators) == 1 and not pre.generators[0].ifs:
                        gt = pre.generators[0].target
                        other = norm(ast.unparse(gt.elts[0])) if isinstance(gt, ast.Tuple) else norm(ast.unparse(gt))
                        same_list = norm(ast.unparse(pre.generators[0].iter)) == norm(ast.unparse(lp.iter))
                        if norm(ast.unparse(pre.elt)) in ("os.path.join(%s, '')" % other, "%s + os.sep" % other) and same_list:
                            return "startswith(<source> + separator ...)"
                return None
            t = look(x.test)
            terms = t.values if isinstance(t, ast.BoolOp) and isinstance(t.op, ast.Or) else [t]
            # conditions of the enclosing `if`s inside the loop hold as well when the drop is reached (`if a: if b: continue`)
            outer = []
            ch_, an_ = x, par.get(x)
            while an_ is not None and an_ is not lp:
                if isinstance(an_, ast.If):
                    if any(ch_ is y for y in an_.body):
                        ot = look(an_.test)
                        outer += list(ot.values) if isinstance(ot, ast.BoolOp) and isinstance(ot.op, ast.And) else [ot]
                    elif any(ch_ is y for y in an_.orelse):
                        outer.append(ast.UnaryOp(ast.Not(), an_.test))
                ch_, an_ = an_, par.get(an_)
            ok_terms = []
            bad_term = None
            for term in terms:
                if is_membership(term):
                    ok_terms.append("a pair equal to one already kept is skipped")
                    continue
                term_d = look(term)
                conj = (list(term_d.values) if isinstance(term_d, ast.BoolOp) and isinstance(term_d.op, ast.And) else [term_d]) + outer
                has_rec = any(norm(ast.unparse(c)) == "args.recursive" for c in conj)
                rest = [c for c in conj if norm(ast.unparse(c)) != "args.recursive"]
                below = is_below_test(rest[0]) if len(rest) == 1 else None
                if below:
                    pruned_below.append((x, below, has_rec))
                    continue
                if has_rec and below:
                    ok_terms.append("with recursion on, a channel below another requested channel (component-wise test %s) is "
                                    "transferred along with that one" % below)
                else:
                    bad_term = term
            if bad_term is None:
                for why in ok_terms:
                    allowed.append((x, why))
                continue
            susp.append(x)
    # helpers that look like prefix tests but are not component-wise are suspicious where they are used
    pairs = [n for n in ast.walk(f) if isinstance(n, (ast.ListComp, ast.GeneratorExp)) and _as_pair(n.elt) is not None]
    pair_ok = False
    for pc in pairs:
        v = pc.generators[0].target
        if not isinstance(v, ast.Name) or len(pc.generators) != 1:
            continue
        texts = [norm(ast.unparse(e)) for e in _as_pair(pc.elt)]
        plain = ["os.path.join(args.src, %s)" % v.id, "os.path.join(args.dest, %s)" % v.id]
        if texts == plain or texts == ["os.path.normpath(%s)" % t_ for t_ in plain]:
            pair_ok = True
    # the same pair built statement by statement: `for ch in args.chs: pair = (join(args.src, ch), join(args.dest, ch))`
    for lp_ in [x for x in ast.walk(f) if isinstance(x, ast.For) and isinstance(x.target, ast.Name)]:
        for a_ in ast.walk(lp_):
            if isinstance(a_, ast.Assign) and isinstance(a_.value, ast.Tuple) and len(a_.value.elts) == 2:
                texts = [norm(ast.unparse(e)) for e in a_.value.elts]
                plain = ["os.path.join(args.src, %s)" % lp_.target.id, "os.path.join(args.dest, %s)" % lp_.target.id]
                if texts == plain or texts == ["os.path.normpath(%s)" % t_ for t_ in plain]:
                    pair_ok = True
    fallback = [n for n in ast.walk(f) if isinstance(n, ast.Assign) and (norm(ast.unparse(n.value)) == "[(args.src, args.dest)]" or (
        isinstance(n.value, ast.BoolOp) and isinstance(n.value.op, ast.Or) and norm(ast.unparse(n.value.values[-1])) == "[(args.src, args.dest)]"))]
    if pruned_below:
        x, below, has_rec = pruned_below[0]
        r.violation(m.rel, q, norm(ast.unparse(x))[:100], "a requested channel that lies below another requested channel is dropped from "
                    "the list%s: the listing of the other channel need not cover it - a timestamped sub-directory given on its own gets "
                    "its own forward-fill file, a symlinked directory is not walked into - so fewer files are transferred than the "
                    "equivalent listings select; overlap has to be resolved per file (by destination path), not per channel" % (
                        " when recursing" if has_rec else ""), line=x.lineno)
    elif susp:
        bad = susp[0]
        r.violation(m.rel, q, norm(ast.unparse(bad))[:100], "the list of requested channels is filtered in a way that can lose a channel: "
                    "only a repeated pair, or - with recursion on - a channel lying (component-wise) below another requested channel may "
                    "be skipped; anything else (pruning together with --only, a character-wise prefix test such as `ch1` / `ch10`) "
                    "transfers fewer files than the equivalent listing selects", line=getattr(bad, "lineno", f.lineno))
    elif pair_ok and fallback:
        r.ok("%s:%s %s" % (m.rel, f.lineno, q), "the channel values are only split on commas and stripped; one (src/ch, dest/ch) pair "
             "per channel, or (src, dest) when no channel was given")
        for x, why in allowed:
            r.ok("%s:%s %s `%s`" % (m.rel, x.lineno, q, ("if %s: continue" % norm(ast.unparse(x.test))[:70]) if hasattr(x, "test")
                                     else norm(ast.unparse(x))[:70]), why)
        dd = files_deduped(m)
        if all(dd.values()):
            r.ok("%s %s" % (m.rel, "/".join(sorted(dd))), "overlapping channel entries are resolved per file: a destination path that was "
                 "transferred already is skipped")
        else:
            r.violation(m.rel, q, "args.srcdests built from every channel entry; no per-file skip in %s" % ", ".join(sorted(k for k, v in dd.items() if not v)),
                        "repeated or nested channel entries (`-c ch0,ch0/metadata`, recursion is the default) are transferred entry by "
                        "entry: a file below two requested channels is transferred twice - `ln` fails with FileExistsError on the second "
                        "link and never reaches the remaining channels, `mv` lists a source it has already changed", line=f.lineno)
    else:
        raise AnalysisError("%s: construction of the (source, destination) pairs not recognised" % q)
    r.guard(1)
    return r


NORMALISERS = ("os.path.abspath", "os.path.realpath", "os.path.normpath", "os.path.expanduser", "os.path.normcase")


def r5_listing_root_spelled_like_the_source(repo=None):
    """'at the same relative path': the commands compute a file's relative path as relpath(<listed path>, <source>), which is the
    path below the source only if the listing yields paths that start with the source *as the command spells it*.  Both sides
    normalise: ilsdrf its `path` argument, the commands args.src (and the mirror its src).  They must apply the same function - a
    listing rooted at realpath(path) yields paths outside abspath(src) whenever the source (or a parent) is a symbolic link, the
    relative path starts with `..`, and cp / ln / mv put the files outside the destination (mv also removes them)."""
    r = Rule("C18.R5", "the listing normalises its root with the function the transfer commands apply to the source (relative paths stay below it)")
    m = pyfront.mod("list_drf", repo)
    f = m.fn("ilsdrf")
    p0 = f.args.args[0].arg

    def norm_chain(fn, is_target, param_like):
        """names of the normalising functions applied (innermost first) where `fn` re-binds the path it was given"""
        out = None
        for a in ast.walk(fn):
            if isinstance(a, ast.Assign) and len(a.targets) == 1 and is_target(a.targets[0]):
                v, chain = a.value, []
                while isinstance(v, ast.Call) and pyfront.call_name(v) in NORMALISERS and len(v.args) == 1:
                    chain.append(pyfront.call_name(v))
                    v = v.args[0]
                if param_like(v) and chain:
                    if out is not None:
                        raise AnalysisError("%s: the path is normalised more than once" % fn.name)
                    out = tuple(reversed(chain))
        return out
    lst = norm_chain(f, lambda t: isinstance(t, ast.Name) and t.id == p0, lambda v: isinstance(v, ast.Name) and v.id == p0)
    pq = prepare_fn(m)
    pf = m.flat(pq).fn()
    cmd = norm_chain(pf, lambda t: pyfront.dotted(t) == "args.src", lambda v: pyfront.dotted(v) == "args.src")
    if lst is None or cmd is None:
        raise AnalysisError("list_drf: normalisation of the listing root (%s) / of args.src (%s) not recognised" % (lst, cmd))
    site = "%s:%s ilsdrf / %s" % (m.rel, f.lineno, pq)
    if lst == cmd:
        r.ok(site, "both apply %s" % " . ".join(lst))
    else:
        r.violation(m.rel, "ilsdrf", "%s = %s(%s) vs args.src = %s(args.src)" % (p0, ".".join(lst), p0, ".".join(cmd)), "the listing yields paths below "
                    "%s(path) while the commands take them relative to %s(src): for a source reached through a symbolic link the "
                    "relative path leaves the source (`../..`), the files are transferred outside the destination and mv removes them "
                    "from the source" % (lst[-1], cmd[-1]), line=f.lineno)
    # the mirror maps listed paths the same way
    try:
        mm = pyfront.mod("mirror", repo)
        srcs = set()
        for fn_ in mm.functions.values():
            ch = norm_chain(fn_, lambda t: pyfront.dotted(t) == "self.src", lambda v: isinstance(v, ast.Name) and v.id == "src") if any(
                a_.arg == "src" for a_ in fn_.args.args) else None
            if ch:
                srcs.add(ch)
        for ch in sorted(srcs):
            if ch == lst:
                r.ok("%s self.src" % mm.rel, "the mirror applies %s to its source as well" % " . ".join(ch))
            else:
                r.violation(mm.rel, "DigitalRFMirror", "self.src = %s(src)" % ".".join(ch), "the mirror takes listed paths relative to %s(src), the "
                            "listing yields them below %s(path)" % (ch[-1], lst[-1]), line=None)
    except AnalysisError:
        pass
    r.guard(1)
    return r


def r6_same_window_as_the_listing(repo=None):
    """'transfer exactly the listed set': `drf ls` and `drf cp / ln / mv` given the same -s / -e options must hand the same window
    to ilsdrf.  Both parse the two option values themselves; sibling agreement: the stores to args.starttime / args.endtime in
    _run_ls and in the commands' shared preparation (private helpers inlined) are the same statements in the same order."""
    r = Rule("C18.R6", "ls and cp / ln / mv derive the time window from -s / -e by the same statements (sibling)")
    m = pyfront.mod("list_drf", repo)
    pq = prepare_fn(m)

    def window_stores(q):
        f = m.flat(q).fn()
        out = []
        for n in ast.walk(f):
            if isinstance(n, (ast.Assign, ast.AugAssign)):
                tg = n.targets if isinstance(n, ast.Assign) else [n.target]
                for t in tg:
                    if pyfront.dotted(t) in ("args.starttime", "args.endtime"):
                        out.append((n.lineno, pyfront.dotted(t), norm(ast.unparse(n.value)), n))
        return sorted(out, key=lambda x: x[0])
    a, b = window_stores("_run_ls"), window_stores(pq)
    if not a or not b:
        raise AnalysisError("list_drf: stores of args.starttime / args.endtime not found in _run_ls (%d) / %s (%d)" % (len(a), pq, len(b)))
    ta, tb = [(x[1], x[2]) for x in a], [(x[1], x[2]) for x in b]
    if ta == tb:
        r.ok("%s:%s/%s _run_ls / %s" % (m.rel, a[0][0], b[0][0], pq), "%d stores each, identical: %s" % (len(ta), "; ".join("%s = %s" % (t, v[:40]) for t, v in ta)))
    else:
        extra = [x for x in b if (x[1], x[2]) not in ta] or [x for x in a if (x[1], x[2]) not in tb]
        x = extra[0] if extra else b[0]
        r.violation(m.rel, pq if x in b else "_run_ls", "%s = %s" % (x[1], x[2][:60]), "the transfer commands and the listing command compute the window "
                    "differently from the same options: cp / ln / mv select other files than `drf ls` with the same -s / -e shows "
                    "(and mv removes them from the source)", line=x[0])
    r.guard(1)
    return r


def rules(repo=None):
    return [lambda: r6_same_window_as_the_listing(repo), lambda: r5_listing_root_spelled_like_the_source(repo), lambda: r1_transfer_loops(repo), lambda: r2_option_table(repo), lambda: r3_wiring(repo), lambda: r4_channel_pairs(repo)]


EXPLANATION = (
    'R1: _run_cp, _run_ln and _run_mv (private helpers inlined, a generator helper iterated by a for loop included) are '
    'alpha-equivalent after abstracting the transfer callee; each iterates ilsdrf(src, **kwargs), computes destpath = '
    'join(dest, relpath(srcpath, src)), creates the directory if missing and calls the primitive once, unconditionally; a'
    ' destination component carried from one listed file to the next is accepted only as the memo idiom `if key != last: '
    'last = key; value = ...`, and a memo whose value reads a variable of the (src, dest) pair that is not part of its '
    'key while the key survives from one pair to the next is reported (stale destination); other carried state is not '
    'decided (exit 2). R2: the dest names of all add_argument calls (following the helper builders) plus attributes '
    "added, minus the keys deleted, equal ilsdrf's parameter list for cp/mv/ln/ls; include/exclude options are "
    'store_true/store_false pairs on one destination; --only switches recursion off. R3: drf_command registers the four '
    'commands with the matching builders whose set_defaults(func=...) name the matching run functions; primitives are '
    'shutil.copy2, os.link/os.symlink, shutil.move; ls lists through ilsdrf/lsdrf. R4: the channel list is only split on '
    'commas and mapped to (source, destination) pairs; only a pair that repeats a kept one is dropped; pruning a channel '
    'that lies below another requested one is reported (the other listing need not cover it); overlap is resolved per '
    'file: the per-file loop of every command skips a destination path that was transferred already (`if D in seen: '
    'continue; seen.add(D)`, the only conditional skip R1 accepts). Does NOT decide byte identity (library code). R1 '
    'also: a run function with two loops over ilsdrf that both change the file system acts on two selections (violation).'
    ' R5: ilsdrf normalises its root argument with the same function (os.path.abspath) that the transfer commands apply '
    'to args.src and the mirror to its source: relpath(listed path, source) stays below the source. R6: the stores to '
    'args.starttime / args.endtime in _run_ls and in the shared preparation of cp / ln / mv (helpers inlined) are the '
    'same statements in the same order.')
TECHNIQUE = (
    'Python ast; alpha-equivalence of sibling commands; loop-carried dependence of the destination; option-table vs '
    'signature agreement; registry/table checks')
ASSUMPTIONS = ["argparse derives dest from the first long option string", "shutil/os primitives behave as documented"]
FILES = [LD, "python/digital_rf/drf_command.py"]
