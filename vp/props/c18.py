"""C18 -- cp / mv / ln transfer exactly the listed set.

Decides: the three transfer loops are the same code up to the transfer primitive and use the listing directly,
the option table of the commands equals ilsdrf's signature, the commands are wired to the right functions and
primitives.  Not decided: byte identity of copies (library code).
"""
from __future__ import annotations

import ast

from ..core import Rule, AnalysisError, norm
from .. import pyfront, pyutil

LD = "python/digital_rf/list_drf.py"
PRIMS = {"_run_cp": {"shutil.copy2"}, "_run_mv": {"shutil.move"}, "_run_ln": {"link_fun"}}


def transfer_loops(m):
    """Module functions that contain a loop over ilsdrf(<src>, **kwargs) with a call taking (srcpath-like, destpath-like)."""
    out = []
    for q, f in m.functions.items():
        if "<locals>" in q:
            continue
        for lp in [n for n in pyfront.walk_no_nested(f) if isinstance(n, ast.For)]:
            it = lp.iter
            if isinstance(it, ast.Call) and pyfront.call_name(it) == "ilsdrf" and any(k.arg is None for k in it.keywords):
                out.append((q, f, lp))
    return out


def _outer_loop(m, inner):
    p = m.parents.get(inner)
    while p is not None and not isinstance(p, ast.For):
        p = m.parents.get(p)
    return p


def r1_transfer_loops(repo=None):
    r = Rule("C18.R1", "cp, ln and mv run the same loop over the listing, differing only in the transfer primitive (sibling)")
    m = pyfront.mod("list_drf", repo)
    loops = [(q, f, lp) for q, f, lp in transfer_loops(m) if not q.startswith("_run_ls")]
    if not loops:
        raise AnalysisError("no loop over ilsdrf(src, **kwargs) with a transfer found in list_drf")
    by_fn = {q: (f, lp) for q, f, lp in loops}
    shapes = {}
    for name, prim in PRIMS.items():
        f = m.fn(name)
        # the loop is in the run function itself, or in a helper it calls with the primitive as an argument
        loc = None
        if name in by_fn:
            loc = (name, by_fn[name][0], by_fn[name][1], None)
        else:
            for h, call, binding in pyutil.local_helpers(m, f, depth=1):
                hq = m.qualname_of(h.body[0]) if h.body else None
                for q, (hf, lp) in by_fn.items():
                    if hf is h:
                        loc = (q, hf, lp, binding)
        if loc is None:
            raise AnalysisError("%s: transfer loop not found in the function or in a helper it calls" % name)
        q, hf, inner, binding = loc
        outer = _outer_loop(m, inner)
        # which callee is the transfer: the call taking the loop variable of the listing as first argument
        srcvar = inner.target.id if isinstance(inner.target, ast.Name) else None
        tcalls = [c for c in ast.walk(inner) if isinstance(c, ast.Call) and c.args and isinstance(c.args[0], ast.Name)
                  and c.args[0].id == srcvar and len(c.args) == 2 and pyfront.call_name(c) not in ("os.path.relpath", "os.path.join")]
        if len(tcalls) != 1:
            r.violation(m.rel, q, "%d transfer calls per listed path" % len(tcalls), "each listed file must be transferred exactly once",
                        line=inner.lineno)
            continue
        tc = tcalls[0]
        callee = pyfront.call_name(tc)
        actual = callee
        if binding is not None and callee in binding:
            actual = norm(ast.unparse(binding[callee]))
        if actual not in prim:
            r.violation(m.rel, name, "transfer primitive `%s`" % actual, "`drf %s` transfers files with %s instead of %s" % (
                name[5:], actual, sorted(prim)), line=tc.lineno)
            continue
        # no filter / early exit / conditional transfer
        extra = [x for x in ast.walk(inner) if isinstance(x, (ast.Continue, ast.Break, ast.Return))]
        cond = [a_ for a_ in _anc(m, tc) if isinstance(a_, (ast.If, ast.Try, ast.While)) and _inside(inner, a_)]
        src_iter = outer is not None and norm(ast.unparse(outer.iter)) == "args.srcdests"
        srcname = norm(ast.unparse(inner.iter.args[0])) if inner.iter.args else None
        pair_ok = outer is not None and isinstance(outer.target, ast.Tuple) and len(outer.target.elts) == 2 \
            and isinstance(outer.target.elts[0], ast.Name) and outer.target.elts[0].id == srcname
        if extra or cond or not src_iter or not pair_ok:
            what = extra[0] if extra else (cond[0] if cond else inner)
            r.violation(m.rel, q, norm(ast.unparse(what))[:80], "the command does not transfer every path of ilsdrf(src, **kwargs) for every "
                        "(src, dest) pair exactly once (filter, early exit or conditional transfer)", line=what.lineno)
            continue
        destname = outer.target.elts[1].id if isinstance(outer.target.elts[1], ast.Name) else None
        dvar = norm(ast.unparse(tc.args[1]))
        dp = [n for n in ast.walk(inner) if isinstance(n, ast.Assign) and norm(ast.unparse(n.targets[0])) == dvar]
        rel_ok = len(dp) == 1 and isinstance(dp[0].value, ast.Call) and pyfront.call_name(dp[0].value) == "os.path.join" \
            and len(dp[0].value.args) == 2 and norm(ast.unparse(dp[0].value.args[0])) == destname \
            and norm(ast.unparse(dp[0].value.args[1])) == "os.path.relpath(%s, %s)" % (srcvar, srcname)
        if not dp:
            raise AnalysisError("%s: definition of the destination path `%s` not found" % (q, dvar))
        if rel_ok:
            r.ok("%s:%s %s%s" % (m.rel, inner.lineno, name, "" if q == name else " (via %s)" % q),
                 "for every path of ilsdrf(src, **kwargs): destination = join(dest, relpath(path, src)); one unconditional %s" % actual)
        else:
            r.violation(m.rel, q, norm(ast.unparse(dp[0]))[:100], "the destination path is not dest joined with "
                        "os.path.relpath(srcpath, src): files can land at a different relative path (e.g. string slicing is wrong "
                        "when src is not normalised)", line=dp[0].lineno)
        import copy
        t = copy.deepcopy(outer)
        for c in ast.walk(t):
            if isinstance(c, ast.Call) and pyfront.call_name(c) == callee:
                c.func = ast.Name(id="TRANSFER", ctx=ast.Load())
        shapes[name] = pyutil.alpha(t)
    if len(shapes) == 3:
        if len(set(shapes.values())) == 1:
            r.ok("%s _run_cp/_run_ln/_run_mv" % m.rel, "loops are identical after abstracting the transfer primitive and local names")
        else:
            odd = [k for k in shapes if list(shapes.values()).count(shapes[k]) == 1]
            r.violation(m.rel, odd[0] if odd else "_run_cp", "transfer loop differs from its siblings", "cp, ln and mv no longer select / place "
                        "files identically", line=m.fn(odd[0] if odd else "_run_cp").lineno)
    r.guard(4)
    return r


def _anc(m, n):
    p = m.parents.get(n)
    while p is not None:
        yield p
        p = m.parents.get(p)


def _inside(outer, n):
    return hasattr(n, "lineno") and outer.lineno <= n.lineno <= outer.end_lineno


def _deleted_keys(m, fn):
    """Keys removed from the kwargs dict built from vars(args): `del kwargs["k"]` statements in fn, or a constant tuple
    handed to a helper that deletes `for key in <param>: del kwargs[key]`."""
    keys = set()
    for n in ast.walk(fn):
        if isinstance(n, ast.Delete):
            for t in n.targets:
                if isinstance(t, ast.Subscript) and isinstance(pyfront.const(t.slice), str):
                    keys.add(pyfront.const(t.slice))
    for h, call, binding in pyutil.local_helpers(m, fn, depth=1):
        loops = [lp for lp in ast.walk(h) if isinstance(lp, ast.For) and isinstance(lp.iter, ast.Name) and lp.iter.id in binding
                 and any(isinstance(d, ast.Delete) and isinstance(d.targets[0], ast.Subscript) and isinstance(d.targets[0].slice, ast.Name)
                         and isinstance(lp.target, ast.Name) and d.targets[0].slice.id == lp.target.id for d in ast.walk(lp))]
        for lp in loops:
            arg = binding[lp.iter.id]
            if isinstance(arg, (ast.Tuple, ast.List)) and all(isinstance(pyfront.const(e), str) for e in arg.elts):
                keys |= {pyfront.const(e) for e in arg.elts}
            else:
                raise AnalysisError("%s: keys excluded from the ilsdrf kwargs are not a constant tuple" % m.qualname_of(call))
        keys |= _deleted_keys(m, h) if not loops else set()
    return keys


def _dests(m, fname):
    """dest name -> list of (action, const, default) for add_argument calls in builder fname (following helper calls)."""
    out = {}
    f = m.fn(fname)
    for c in ast.walk(f):
        if isinstance(c, ast.Call) and isinstance(c.func, ast.Attribute) and c.func.attr == "add_argument":
            opts = [pyfront.const(a) for a in c.args]
            dest = pyfront.const(pyfront.kwarg(c, "dest"))
            if dest is None:
                longs = [o for o in opts if o and o.startswith("--")]
                dest = longs[0][2:].replace("-", "_") if longs else (opts[0].lstrip("-") if opts else None)
            out.setdefault(dest, []).append((pyfront.const(pyfront.kwarg(c, "action")), opts, pyfront.kwarg(c, "default")))
        elif isinstance(c, ast.Call) and isinstance(c.func, ast.Name) and c.func.id in m.functions and c.func.id.startswith("_add_"):
            for k, v in _dests(m, c.func.id).items():
                out.setdefault(k, []).extend(v)
    return out


def r2_option_table(repo=None):
    r = Rule("C18.R2", "the options of cp/ln/mv (and ls) map exactly onto ilsdrf's parameters (tables)")
    m = pyfront.mod("list_drf", repo)
    il = m.fn("ilsdrf")
    params = [a.arg for a in il.args.args][1:]
    for cmd, builder, runner in (("cp", "_build_cp_parser", "_run_cp"), ("mv", "_build_mv_parser", "_run_mv"), ("ln", "_build_ln_parser", "_run_ln")):
        dests = set(_dests(m, builder)) | {"func"}
        ps = m.fn("_parse_srcdest_args")
        added = {t.attr for n in ast.walk(ps) if isinstance(n, ast.Assign) for t in n.targets if isinstance(t, ast.Attribute)
                 and isinstance(t.value, ast.Name) and t.value.id == "args"}
        deleted = _deleted_keys(m, ps)
        rf = m.fn(runner)
        pre_deleted = {t.attr for n in ast.walk(rf) if isinstance(n, ast.Delete) for t in n.targets if isinstance(t, ast.Attribute)
                       and isinstance(t.value, ast.Name) and t.value.id == "args"}
        final = (dests | added) - deleted - pre_deleted
        site = "%s %s options -> ilsdrf kwargs" % (m.rel, cmd)
        if final == set(params):
            r.ok(site, "kwargs passed to ilsdrf are exactly its parameters %s" % params)
        else:
            r.violation(m.rel, runner, "kwargs %s vs ilsdrf parameters %s" % (sorted(final), params),
                        "missing in kwargs: %s; unexpected (TypeError at run time or option ignored): %s" % (
                            sorted(set(params) - final), sorted(final - set(params))), line=rf.lineno)
    # ls
    dests = set(_dests(m, "_build_ls_parser")) | {"func"}
    rl = m.fn("_run_ls")
    deleted = _deleted_keys(m, rl)
    final = dests - deleted
    if final == set(params):
        r.ok("%s ls options -> ilsdrf kwargs" % m.rel, "kwargs passed to ilsdrf/lsdrf are exactly its parameters")
    else:
        r.violation(m.rel, "_run_ls", "kwargs %s vs ilsdrf parameters %s" % (sorted(final), params), "ls options do not match the listing's "
                    "parameters", line=rl.lineno)
    # paired options store opposite constants into the same dest
    allopts = _dests(m, "_add_include_group")
    for dest, rows in sorted(allopts.items()):
        acts = sorted(str(a) for a, o, d in rows)
        names = [o[0] for a, o, d in rows]
        if acts == ["store_false", "store_true"]:
            pos = [o[0] for a, o, d in rows if a == "store_true"][0]
            neg = [o[0] for a, o, d in rows if a == "store_false"][0]
            if neg == "--no" + pos[2:]:
                r.ok("%s option pair %s/%s -> %s" % (m.rel, pos, neg, dest), "store_true / store_false into the same destination")
            else:
                r.violation(m.rel, "_add_include_group", "%s / %s -> %s" % (pos, neg, dest), "include/exclude options are crossed", line=None)
        else:
            r.violation(m.rel, "_add_include_group", "dest %s actions %s (%s)" % (dest, acts, names), "an include flag is not a "
                        "store_true/store_false pair on one destination", line=None)
    for dest, rows in _dests(m, "_add_srcdest_arguments").items():
        if dest == "recursive":
            a, o, d = rows[0]
            if a == "store_false" and pyfront.const(d) is True and "--only" in o:
                r.ok("%s option --only -> recursive" % m.rel, "store_false with default True")
            else:
                r.violation(m.rel, "_add_srcdest_arguments", "--only", "--only must switch recursion off", line=None)
    r.guard(9)
    return r


def r3_wiring(repo=None):
    r = Rule("C18.R3", "drf cp/ln/ls/mv are wired to their builders, run functions and transfer primitives")
    dm = pyfront.mod("drf_command", repo)
    m = pyfront.mod("list_drf", repo)
    main = dm.fn("main")
    reg = {}
    for c in ast.walk(main):
        if isinstance(c, ast.Call) and isinstance(c.func, ast.Name) and c.func.id.startswith("_build_") and len(c.args) == 2:
            reg[pyfront.const(c.args[1])] = c.func.id
    want = {"cp": ("_build_cp_parser", "_run_cp"), "ln": ("_build_ln_parser", "_run_ln"), "ls": ("_build_ls_parser", "_run_ls"),
            "mv": ("_build_mv_parser", "_run_mv")}
    for cmd, (b, run) in want.items():
        if reg.get(cmd) != b:
            r.violation(dm.rel, "main", "command %s -> %s" % (cmd, reg.get(cmd)), "command registered with the wrong parser builder", line=main.lineno)
            continue
        bf = m.fn(b)
        sd = [c for c in ast.walk(bf) if isinstance(c, ast.Call) and isinstance(c.func, ast.Attribute) and c.func.attr == "set_defaults"]
        got = norm(ast.unparse(pyfront.kwarg(sd[0], "func"))) if sd else None
        if got == run:
            r.ok("%s %s -> %s -> %s" % (dm.rel, cmd, b, run), "registered and dispatched to the matching run function")
        else:
            r.violation(m.rel, b, "set_defaults(func=%s)" % got, "`drf %s` runs %s instead of %s" % (cmd, got, run), line=bf.lineno)
    f = m.fn("_run_ln")
    vals = {}
    for n in ast.walk(f):
        if isinstance(n, ast.Assign) and isinstance(n.targets[0], ast.Name) and n.targets[0].id == "link_fun":
            v = n.value
            if isinstance(v, ast.IfExp):
                vals[norm(ast.unparse(v.test))] = (norm(ast.unparse(v.body)), norm(ast.unparse(v.orelse)))
            else:
                par = m.parents.get(n)
                if isinstance(par, ast.If):
                    t = norm(ast.unparse(par.test))
                    cur = vals.get(t, [None, None])
                    cur = list(cur)
                    cur[0 if n in par.body else 1] = norm(ast.unparse(v))
                    vals[t] = tuple(cur)
    if vals.get("args.symbolic") == ("os.symlink", "os.link") or vals.get("not args.symbolic") == ("os.link", "os.symlink"):
        r.ok("%s _run_ln" % m.rel, "os.symlink when --symbolic, os.link otherwise")
    elif not vals:
        raise AnalysisError("_run_ln: selection of the link function not recognised")
    else:
        r.violation(m.rel, "_run_ln", "link function selection %s" % vals, "hard/symbolic selection altered", line=f.lineno)
    # listing source for ls
    rl = m.fn("_run_ls")
    srcs = {pyfront.call_name(c) for c in ast.walk(rl) if isinstance(c, ast.Call) and pyfront.call_name(c) in ("ilsdrf", "lsdrf", "os.walk", "os.listdir", "glob.glob")}
    if srcs <= {"ilsdrf", "lsdrf"} and srcs:
        r.ok("%s _run_ls" % m.rel, "paths come only from ilsdrf/lsdrf (same listing as the transfer commands)")
    else:
        r.violation(m.rel, "_run_ls", "path sources %s" % sorted(srcs), "ls does not list with the shared listing function", line=rl.lineno)
    r.guard(8)
    return r


def r4_channel_pairs(repo=None):
    r = Rule("C18.R4", "every requested channel becomes exactly one (source, destination) pair")
    m = pyfront.mod("list_drf", repo)
    q = "_parse_srcdest_args"
    f = m.fn(q)
    def stores(attr):
        return [n for n in ast.walk(f) if isinstance(n, (ast.Assign, ast.AugAssign)) and any(
            isinstance(t, ast.Attribute) and isinstance(t.value, ast.Name) and t.value.id == "args" and t.attr == attr
            for t in (n.targets if isinstance(n, ast.Assign) else [n.target]))]
    chs = stores("chs")
    sd = stores("srcdests")
    muts = [c for c in ast.walk(f) if isinstance(c, ast.Call) and isinstance(c.func, ast.Attribute)
            and norm(ast.unparse(c.func.value)) in ("args.chs", "args.srcdests")
            and c.func.attr in ("remove", "pop", "append", "extend", "insert", "clear", "sort", "reverse")]
    ok_chs = len(chs) == 1 and pyutil.alpha(chs[0].value) == "[v1.strip() for v0 in args.chs for v1 in v0.strip().split(',')]"
    comp = [n for n in sd if isinstance(n.value, ast.ListComp)]
    ok_sd = len(sd) == 2 and len(comp) == 1 and not comp[0].value.generators[0].ifs and norm(ast.unparse(comp[0].value.generators[0].iter)) == "args.chs" \
        and pyutil.alpha(comp[0].value) == "[(os.path.join(args.src, v0), os.path.join(args.dest, v0)) for v0 in args.chs]"
    fallback = [n for n in sd if norm(ast.unparse(n.value)) == "[(args.src, args.dest)]"]
    guarded = fallback and isinstance(m.parents.get(fallback[0]), ast.If) and norm(ast.unparse(m.parents.get(fallback[0]).test)) == "not args.srcdests"
    if ok_chs and ok_sd and guarded and not muts:
        r.ok("%s:%s %s" % (m.rel, f.lineno, q), "args.chs is only split on commas; srcdests has one unfiltered (src/ch, dest/ch) pair per channel, "
             "or (src, dest) when no channel was given")
    else:
        bad = (muts or [x for x in chs[1:]] or sd or [f])[0]
        r.violation(m.rel, q, norm(ast.unparse(bad))[:100] if bad is not f else "channel list handling",
                    "the list of requested channels is filtered, de-duplicated or otherwise modified before the transfer loops: a "
                    "requested channel can be skipped (e.g. a nested channel together with --only), so fewer files are transferred "
                    "than the equivalent listing selects", line=getattr(bad, "lineno", f.lineno))
    r.guard(1)
    return r


def rules(repo=None):
    return [lambda: r1_transfer_loops(repo), lambda: r2_option_table(repo), lambda: r3_wiring(repo), lambda: r4_channel_pairs(repo)]


EXPLANATION = (
    "R1: _run_cp, _run_ln and _run_mv are alpha-equivalent after abstracting the transfer callee; each iterates "
    "ilsdrf(src, **kwargs) directly, computes destpath = join(dest, relpath(srcpath, src)), creates the directory if missing and "
    "calls the primitive once, unconditionally. R2: the dest names of all add_argument calls (following the helper builders) plus "
    "attributes added, minus the keys deleted, equal ilsdrf's parameter list for cp/mv/ln/ls; include/exclude options are "
    "store_true/store_false pairs on one destination; --only switches recursion off. R3: drf_command registers the four commands "
    "with the matching builders whose set_defaults(func=...) name the matching run functions; primitives are shutil.copy2, "
    "os.link/os.symlink, shutil.move; ls lists through ilsdrf/lsdrf. R4: the channel list is only split on commas and mapped, unfiltered, "
    "to (source, destination) pairs. Does NOT decide byte identity (library code).")
TECHNIQUE = ('Python ast; alpha-equivalence of sibling commands; option-table vs signature agreement; registry/table checks')
ASSUMPTIONS = ["argparse derives dest from the first long option string", "shutil/os primitives behave as documented"]
FILES = [LD, "python/digital_rf/drf_command.py"]
