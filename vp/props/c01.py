"""C01 -- RF write/read round-trip fidelity (partial).

Decides six structural clauses, not the round trip itself: dtype table agreement, writer/reader/listing
name-format agreement, exact (integer-only) file lookup, extension pass-through, Python<->extension<->library
interface agreement, exact use of the block index in the reader.
"""
from __future__ import annotations

import ast
import re

from ..core import Rule, AnalysisError, C_LIB, C_EXT, norm
from .. import cfront, clib, cfg as _cfg, pyfront, pytaint, rx, cfold
from . import c02

PYRF = "python/digital_rf/digital_rf_hdf5.py"


# ---------------------------------------------------------------------------
# R1 dtype table
# ---------------------------------------------------------------------------

def dtype_rows(tu):
    fn = tu.fn("get_hdf5_data_type")
    rows = []
    for ret in fn.find("ReturnStmt"):
        val = ret.children[0].strip(casts=True) if ret.children else None
        txt = ret.nsrc
        m = re.search(r"H5T_[A-Z0-9_]+", txt)
        if not m:
            continue
        cond = {}
        child = ret
        for a in ret.ancestors():
            if a.kind == "IfStmt" and a.children[1] is child or (a.kind == "IfStmt" and _in(a.children[1], ret)):
                for x in a.children[0].walk():
                    if x.kind == "BinaryOperator" and x.opcode == "==":
                        k = x.children[0].path()
                        v = x.children[1].strip(casts=True)
                        if v.kind == "CharacterLiteral":
                            cond[k] = chr(int(v.value))
                        elif v.intval() is not None:
                            cond[k] = v.intval()
            child = a
        rows.append((cond, m.group(0), ret))
    return rows


def _in(sub, node):
    return sub.begin <= node.begin and node.end <= sub.end


def r1_dtype_table(repo=None):
    r = Rule("C01.R1", "numpy (byteorder, kind, itemsize) -> HDF5 type table is consistent and exhaustive (table by evaluation)")
    from .. import ceval
    tu = cfront.ext(repo)
    fn = tu.fn("get_hdf5_data_type")
    params = [p.name for p in fn.children if p.kind == "ParmVarDecl"]
    if len(params) != 3:
        raise AnalysisError("get_hdf5_data_type: expected 3 parameters, found %s" % params)
    pb, pk, ps = params
    table = {}
    nrows = 0
    # the function is evaluated on the whole finite domain the Python writer can present (and some it cannot)
    for bo in "<>|=":
        for kind in "iufdcbSV":
            for size in (1, 2, 4, 8, 16):
                value, ret = ceval.returned(fn, {pb: ord(bo), pk: ord(kind), ps: size}, tu)
                name = value if isinstance(value, str) else None
                table[(bo, kind, size)] = (name, ret)
    seen_rows = set()
    for (bo, kind, size), (name, ret) in sorted(table.items()):
        if name is None:
            continue
        m = re.match(r"H5T_(IEEE_F|STD_I|STD_U)(\d+)(LE|BE)$", name)
        if not m:
            if re.match(r"H5T_", name):
                # a name this rule has no row for (built by a macro, a native type ...): says nothing about what is returned
                raise AnalysisError("get_hdf5_data_type: (%r, %r, %d) returns `%s`, which is not one of the H5T_{IEEE_F,STD_I,STD_U}<bits>{LE,BE} "
                                    "constants this rule reads: not decided" % (bo, kind, size, name))
            continue
        cls = {"IEEE_F": "f", "STD_I": "i", "STD_U": "u"}[m.group(1)]
        bits = int(m.group(2))
        order = {"LE": "<", "BE": ">"}[m.group(3)]
        probs = []
        if kind == "d":
            if cls != "f" or bits != 64:
                probs.append("legacy 'd' must map to a 64-bit float")
        else:
            if kind != cls:
                probs.append("kind %r mapped to class %r" % (kind, cls))
            if bo in "<>" and size * 8 != bits:
                probs.append("itemsize %d mapped to %d bits" % (size, bits))
            if bo not in "<>" and size == 1 and bits != 8:
                probs.append("1-byte type mapped to %d bits" % bits)
        if bo in "<>" and bo != order:
            probs.append("byte order %r mapped to %s" % (bo, m.group(3)))
        if bo not in "<>" and size != 1:
            continue  # numpy reports '|' only for 1-byte types and '=' is normalised by the writer
        key = (ret.begin, name)
        if probs:
            r.violation(C_EXT, "get_hdf5_data_type", "(%r, %r, %d) -> %s" % (bo, kind, size, name),
                        "dtype table cell is inconsistent: %s (data would be stored with the wrong width/order/class and not read "
                        "back bit-for-bit)" % "; ".join(probs), line=ret.line)
        elif key not in seen_rows:
            seen_rows.add(key)
            nrows += 1
            r.ok("%s:%s get_hdf5_data_type (%r, %r, %d) -> %s" % (C_EXT, ret.line, bo, kind, size, name),
                 "class, width and byte order of the constant agree with the inputs that select it")
    missing = []
    for bo in ("<", ">"):
        for kind, sizes in (("i", (1, 2, 4, 8)), ("u", (1, 2, 4, 8)), ("f", (4, 8))):
            for sz in sizes:
                if table[(bo, kind, sz)][0] is None:
                    missing.append((bo, kind, sz))
    for kind in ("i", "u"):
        if table[("|", kind, 1)][0] is None:
            missing.append(("|", kind, 1))
    if missing:
        for mrow in missing:
            r.violation(C_EXT, "get_hdf5_data_type", "no row for %r" % (mrow,),
                        "a dtype the Python writer accepts has no HDF5 type (writer creation fails for it)", line=fn.line)
    else:
        r.ok("%s get_hdf5_data_type exhaustiveness" % C_EXT, "all 22 (byteorder, kind, itemsize) cells the writer can pass select a type "
             "(function evaluated on %d input cells)" % len(table))
    # the Python side passes byteorder normalised to '<'/'>' (or '|'), realdtype.kind, realdtype.itemsize
    m = pyfront.mod("digital_rf_hdf5", repo)
    init = m.fn("DigitalRFWriter.__init__")
    calls = [c for c in pyfront.calls_in(init, ("_py_rf_write_hdf5.init",))]
    if len(calls) != 1:
        raise AnalysisError("expected one _py_rf_write_hdf5.init call")
    a = [ast.unparse(x) for x in calls[0].args[1:4]]
    if a == ["self.byteorder", "self.realdtype.kind", "self.realdtype.itemsize"]:
        r.ok("%s:%s DigitalRFWriter.__init__" % (m.rel, calls[0].lineno), "passes (byteorder, realdtype.kind, "
             "realdtype.itemsize) of one dtype")
    else:
        r.violation(m.rel, "DigitalRFWriter.__init__", "init(%s)" % ", ".join(a), "dtype description passed to the "
                    "extension is not (byteorder, kind, itemsize) of realdtype", line=calls[0].lineno)
    r.guard(20)
    return r


# ---------------------------------------------------------------------------
# R2 name-format agreement
# ---------------------------------------------------------------------------

def c_name_formats(tu):
    fn = tu.fn("digital_rf_get_subdir_file")
    out = {}
    for c in fn.calls(("snprintf",)):
        dest = c.args[0].path()
        if dest in ("subdir", "basename"):
            out[dest] = (c.args[2].strval(), c)
    if set(out) != {"subdir", "basename"}:
        raise AnalysisError("digital_rf_get_subdir_file: snprintf into subdir/basename not found")
    return fn, out


def r2_name_format_agreement(repo=None, rid="C01.R2"):
    r = Rule(rid, "writer, reader and listing agree on file and sub-directory name formats (strprov + rx)")
    tu = cfront.lib(repo)
    fn, fm = c_name_formats(tu)
    bfmt, bcall = fm["basename"]
    sfmt, scall = fm["subdir"]
    # final name = strstr(basename, "rf") suffix of the format
    needles = set()
    for f2 in tu.functions.values():
        for c in f2.calls(("strstr",)):
            if (c.args[0].path() or "").endswith("basename"):
                needles.add(c.args[1].strval())
    if len(needles) != 1:
        raise AnalysisError("expected one strstr needle on basename, found %r" % needles)
    needle = needles.pop()
    pos = bfmt.find(needle)
    if pos < 0:
        r.violation(C_LIB, fn.name, "snprintf(basename, %r) / strstr %r" % (bfmt, needle), "final name cannot be derived",
                    line=bcall.line)
        return r
    final_fmt = bfmt[pos:]
    # bounded millisecond directive: argument is `x % 1000`
    bounded = {}
    def _mod_digits(e, depth=0):
        """number of decimal digits that bound `x % 10**k` (the argument itself, or the single definition of the variable)"""
        e = e.strip(casts=True)
        if e.kind == "BinaryOperator" and e.opcode == "%" and e.children[1].intval() in (10, 100, 1000, 10000):
            return len(str(e.children[1].intval() - 1))
        v = e.path()
        if v and depth < 2:
            defs = [rhs for p, n, rhs, k in clib.stores(fn) if p == v and rhs is not None]
            for d in fn.find("VarDecl"):
                if d.name == v and d.children:
                    defs.append(d.children[-1])
            if len(defs) == 1:
                return _mod_digits(defs[0], depth + 1)
        return None
    for i, a in enumerate(bcall.args[3:]):
        k = _mod_digits(a)
        if k:
            bounded[i] = k
    w_re, _ = rx.printf_to_regex(final_fmt, bounded)
    # sub-directory: struct tm field ranges bound every directive (year 4 digits under the property's date bound)
    sub_bounded = {i: w for i, w in enumerate([4, 2, 2, 2, 2, 2])}
    ws_re, dirs = rx.printf_to_regex(sfmt, sub_bounded)
    m, (rfmt, rnode), (rsfmt, rsnode) = c02.reader_rf_format(repo)
    args = rnode.right.elts if isinstance(rnode.right, ast.Tuple) else [rnode.right]
    rb = {}
    for i, a in enumerate(args):
        if isinstance(a, ast.BinOp) and isinstance(a.op, ast.Mod) and pyfront.int_const(a.right, m) == 1000:
            rb[i] = 3
    r_re, _ = rx.printf_to_regex(rfmt, rb)
    rs_re = rx.strftime_to_regex(rsfmt)
    sp, pats, globs = c02.grammar_space(repo, {"W_FILE": w_re, "R_FILE": r_re, "W_SUB": ws_re, "R_SUB": rs_re})
    L = sp.langs
    eq, w1, w2 = L["W_FILE"].equals(L["R_FILE"])
    if eq:
        r.ok("%s:%s / %s:%s" % (C_LIB, bcall.line, m.rel, rnode.lineno), "L(writer final name %r) = L(reader name %r)" % (
            final_fmt, rfmt))
    else:
        r.violation(C_LIB, fn.name, "writer %r vs reader %r" % (final_fmt, rfmt), "the reader generates file names the writer "
                    "never produces or vice versa (witness %r)" % (w1 if w1 is not None else w2), line=bcall.line)
    ok, w = L["W_FILE"].subset_of(L["_RE_DRFFILE"])
    if ok:
        r.ok("%s:%s vs list_drf.RE_DRFFILE" % (C_LIB, bcall.line), "L(writer final name) is included in L(RE_DRFFILE)")
    else:
        r.violation(C_LIB, fn.name, "writer %r vs RE_DRFFILE" % final_fmt, "a file name the writer publishes is not accepted "
                    "by the listing grammar (witness %r)" % w, line=bcall.line)
    eq, w1, w2 = L["W_SUB"].equals(L["R_SUB"])
    if eq:
        r.ok("%s:%s / %s:%s" % (C_LIB, scall.line, m.rel, rsnode.lineno), "L(writer sub-directory %r) = L(reader strftime %r)"
             % (sfmt, rsfmt))
    else:
        r.violation(C_LIB, fn.name, "writer %r vs reader %r" % (sfmt, rsfmt), "sub-directory names disagree (witness %r)" % (
            w1 if w1 is not None else w2), line=scall.line)
    ok, w = L["W_SUB"].subset_of(L["_RE_SUBDIR"])
    if ok:
        r.ok("%s:%s vs list_drf._RE_SUBDIR" % (C_LIB, scall.line), "L(writer sub-directory) is included in L(_RE_SUBDIR)")
    else:
        r.violation(C_LIB, fn.name, "writer %r vs RE_SUBDIR" % sfmt, "writer sub-directory not accepted by the listing grammar "
                    "(witness %r)" % w, line=scall.line)
    eq, w1, w2 = L["GLOB_SUBDIR"].equals(L["_RE_SUBDIR"])
    if eq:
        r.ok("list_drf GLOB_SUBDIR vs _RE_SUBDIR", "the glob and the regular expression for sub-directories are the same language")
    else:
        r.violation("python/digital_rf/list_drf.py", "-", "GLOB_SUBDIR vs RE_SUBDIR", "glob and regex for sub-directories "
                    "differ (witness %r)" % (w1 if w1 is not None else w2))
    r.guard(5)
    return r


# ---------------------------------------------------------------------------
# R3 exact file lookup
# ---------------------------------------------------------------------------

RF_FLOAT_KEYS = ("samples_per_second",)


def r3_exact_lookup(repo=None, rid="C01.R3"):
    r = Rule(rid, "the reader derives candidate file names from sample indices by exact integer arithmetic (float taint)")
    m = pyfront.mod("digital_rf_hdf5", repo)
    q = "DigitalRFReader._get_file_list"
    fn = m.fn(q)
    t = pytaint.Taint(fn, float_names=("samples_per_second", "sample_rate"), float_keys=RF_FLOAT_KEYS)
    fv = t.root_float_vars()
    derived = [v for v in t.float_vars() if v not in fv]
    sinks = 0
    for n in pyfront.walk_no_nested(fn):
        if isinstance(n, ast.Assign):
            for tg in n.targets:
                for name in t._targets(tg):
                    sinks += 1
    if fv:
        for v in fv:
            why = t.why.get(v)
            r.violation(m.rel, q, "%s = %s" % (v, norm(ast.unparse(why)) if why is not None else "<float parameter>"),
                        "`%s` is computed through floating point; the writer places files with exact integer arithmetic, so "
                        "a sample whose time is on (or within rounding error of) a file boundary is looked for in the wrong "
                        "file%s" % (v, (" (also tainted: %s)" % ", ".join(derived)) if derived and v == fv[0] else ""),
                        line=getattr(why, "lineno", fn.lineno))
    else:
        r.ok("%s:%s %s" % (m.rel, fn.lineno, q), "all %d assigned values are free of floating-point taint "
             "(no true division, float literal, longdouble or float-valued property in their slice)" % sinks)
    # callers pass exact quantities
    ncall = 0
    # private helpers that forward their own parameters to _get_file_list are lookup entry points as well
    base_names = ("self._get_file_list", "cls._get_file_list", "DigitalRFReader._get_file_list")     # method, classmethod, static spelling
    targets = list(base_names)
    for q2, f2 in m.functions.items():
        if q2.startswith("DigitalRFReader._") and q2 != q:
            params = {a.arg for a in f2.args.args}
            for c in pyfront.calls_in(f2, base_names):
                if any(isinstance(a, ast.Name) and a.id in params for a in c.args):
                    nm = q2.split(".", 1)[1]
                    targets += ["self." + nm, "cls." + nm, "DigitalRFReader." + nm]
    for q2, f2 in m.functions.items():
        for c in pyfront.calls_in(f2, tuple(targets)):
            if not q2.startswith("DigitalRFReader."):
                continue
            ncall += 1
            t2 = pytaint.Taint(f2, float_keys=RF_FLOAT_KEYS)
            bad = [ast.unparse(a) for a in c.args if t2.expr(a) == "F"]
            if bad:
                r.violation(m.rel, q2, "_get_file_list(... %s ...)" % ", ".join(bad), "a floating-point quantity is passed to "
                            "the file lookup", line=c.lineno)
            else:
                r.ok("%s:%s %s" % (m.rel, c.lineno, q2), "passes only exact quantities to _get_file_list")
    if ncall < 4:
        raise AnalysisError("expected 4 callers of DigitalRFReader._get_file_list, found %d" % ncall)
    r.guard(5)
    return r


# ---------------------------------------------------------------------------
# R4 extension passes data through unchanged
# ---------------------------------------------------------------------------

def _parse_targets(fn):
    pc = fn.calls(("PyArg_ParseTuple",))
    if not pc:
        raise AnalysisError("%s: PyArg_ParseTuple not found" % fn.name)
    out = []
    for a in pc[0].args[2:]:
        s = a.strip(casts=True)
        out.append(s.children[0].path() if s.kind == "UnaryOperator" and s.opcode == "&" else s.path())
    return out


def _strip_parens(t):
    while t.startswith("(") and t.endswith(")"):
        depth = 0
        ok = True
        for i, ch in enumerate(t):
            if ch == "(":
                depth += 1
            elif ch == ")":
                depth -= 1
                if depth == 0 and i != len(t) - 1:
                    ok = False
                    break
        if not ok:
            break
        t = t[1:-1]
    return t


def _drop_redundant_parens(t):
    """remove parenthesis pairs that enclose a whole call argument, a whole operand of unary `*`, or another parenthesis pair"""
    changed = True
    while changed:
        changed = False
        stack = []
        pairs = {}
        for i, ch in enumerate(t):
            if ch == "(":
                stack.append(i)
            elif ch == ")" and stack:
                pairs[stack.pop()] = i
        for a, b in sorted(pairs.items()):
            before = t[a - 1] if a > 0 else ""
            after = t[b + 1] if b + 1 < len(t) else ""
            if before and (before.isalnum() or before in "_]"):
                continue                      # call or index parentheses
            inner = t[a + 1:b]
            whole_arg = (before in "(," or a == 0) and (after in ",)" or b == len(t) - 1)
            simple = re.fullmatch(r"\*?[A-Za-z_][A-Za-z_0-9]*(\([^()]*\))?(\[[^\[\]]*\])?", inner) is not None or re.fullmatch(r"[A-Za-z_0-9]+", inner) is not None
            nested_call = re.fullmatch(r"\*?[A-Za-z_][A-Za-z_0-9]*\(.*\)(\[[^\[\]]*\])?", inner) is not None and _balanced_call(inner)
            if whole_arg or simple or (before == "*" and nested_call) or (nested_call and (after in ",)-+" or after == "")):
                t = t[:a] + inner + t[b + 1:]
                changed = True
                break
    return t


def _balanced_call(inner):
    """inner is `name( ... )[idx]?` with the first parenthesis closing at the end (one call, not `f(a)+g(b)`)"""
    i = inner.find("(")
    depth = 0
    for j in range(i, len(inner)):
        if inner[j] == "(":
            depth += 1
        elif inner[j] == ")":
            depth -= 1
            if depth == 0:
                rest = inner[j + 1:]
                return rest == "" or re.fullmatch(r"\[[^\[\]]*\]", rest) is not None
    return False


def _canon(t):
    t = re.sub(r"\(uint64_t\*?\)|\(void\*\)|\(char\*\)", "", t)
    t = _drop_redundant_parens(t)
    prev = None
    while prev != t:
        prev = t
        t = re.sub(r"(?<![A-Za-z0-9_\]])\(\(([^()]*)\)\)", r"(\1)", t)
        t = re.sub(r"(?<![A-Za-z0-9_\]])\(([A-Za-z_][A-Za-z_0-9]*)\)", r"\1", t)
        t = re.sub(r"(?<![A-Za-z0-9_\]])\((\*?[A-Za-z_][A-Za-z_0-9]*\([^()]*\)(?:\[0\])?)\)", r"\1", t)
    return _strip_parens(t)


def r4_extension_passthrough(repo=None):
    r = Rule("C01.R4", "the extension hands the array's own data pointer and length to the library")
    tu = cfront.ext(repo)

    def classify(texts, want_fn, arr, extra=None):
        """'ok' if every expansion is want_fn applied to arr, 'wrong:<arr>' if applied to another array, else 'unknown'"""
        verdict = "ok"
        for t in texts:
            t = _canon(t)
            m = re.match(want_fn, t)
            if not m:
                return "unknown:" + t
            if m.group("arr") != arr:
                return "wrong:" + m.group("arr")
        return verdict

    DATA = r"^\*?PyArray_DATA\((?P<arr>\w+)\)$"
    DIM0 = r"^PyArray_DIMS\((?P<arr>\w+)\)\[0\]$"
    # ---- contiguous write
    fn = tu.fn(cfront.ext_fn(tu, "rf_write"))
    g = _cfg.build_c(fn)
    T = _parse_targets(fn)
    if len(T) != 3:
        raise AnalysisError("_py_rf_write_hdf5_rf_write: expected 3 parsed arguments")
    calls = fn.calls(("digital_rf_write_hdf5",))
    if len(calls) != 1:
        raise AnalysisError("expected one digital_rf_write_hdf5 call in _py_rf_write_hdf5_rf_write")
    c = calls[0]
    n = clib.node_of(g, c)
    v_data = classify(clib.expand(fn, g, n.id, c.args[2]), DATA, T[1])
    v_len = classify(clib.expand(fn, g, n.id, c.args[3]), DIM0, T[1])
    v_idx = "ok" if c.args[1].path() == T[2] else "unknown:" + str(c.args[1].path())
    site = "%s:%s _py_rf_write_hdf5_rf_write" % (C_EXT, c.line)
    for what, v in (("data pointer", v_data), ("length", v_len), ("start index", v_idx)):
        if v.startswith("wrong"):
            r.violation(C_EXT, fn.name, "%s taken from `%s`" % (what, v[6:]), "the %s handed to digital_rf_write_hdf5 is that of "
                        "another argument than the data array `%s`" % (what, T[1]), line=c.line)
        elif v.startswith("unknown"):
            raise AnalysisError("%s: provenance of the %s not recognised: %s" % (fn.name, what, v[8:]))
    if (v_data, v_len, v_idx) == ("ok", "ok", "ok"):
        r.ok(site, "data = PyArray_DATA(%s), length = PyArray_DIMS(%s)[0], index = the parsed `%s`" % (T[1], T[1], T[2]))
    # ---- block write
    fn = tu.fn(cfront.ext_fn(tu, "rf_block_write"))
    g = _cfg.build_c(fn)
    T = _parse_targets(fn)
    if len(T) != 4:
        raise AnalysisError("_py_rf_write_hdf5_rf_block_write: expected 4 parsed arguments")
    cb = fn.calls(("digital_rf_write_blocks_hdf5",))
    cw = fn.calls(("digital_rf_write_hdf5",))
    if len(cb) != 1 or len(cw) != 1:
        raise AnalysisError("expected one blocks call and one per-block call in _py_rf_write_hdf5_rf_block_write")
    cb, cw = cb[0], cw[0]
    nb = clib.node_of(g, cb)
    want = [("global index array", 1, DATA, T[2]), ("block offset array", 2, DATA, T[3]), ("number of blocks", 3, DIM0, T[2]),
            ("data pointer", 4, DATA, T[1]), ("length", 5, DIM0, T[1])]
    allok = True
    for what, i, pat, arr in want:
        v = classify(clib.expand(fn, g, nb.id, cb.args[i]), pat, arr)
        if v.startswith("wrong"):
            allok = False
            r.violation(C_EXT, fn.name, "%s taken from `%s`" % (what, v[6:]), "the %s handed to digital_rf_write_blocks_hdf5 comes "
                        "from `%s` instead of `%s`" % (what, v[6:], arr), line=cb.line)
        elif v.startswith("unknown"):
            raise AnalysisError("%s: provenance of the %s not recognised: %s" % (fn.name, what, v[8:]))
    if allok:
        r.ok("%s:%s _py_rf_write_hdf5_rf_block_write (blocks)" % (C_EXT, cb.line), "global/block/data pointers and both lengths come "
             "from the three array arguments in the library's order")
    nw = clib.node_of(g, cw)
    PTR1 = r"^\*PyArray_GETPTR1\((?P<arr>\w+),(?P<i>\w+)\)$"
    PTR1N = r"^\*PyArray_GETPTR1\((?P<arr>\w+),(?P<i>\w+)\+1\)$"
    PTR2 = r"^PyArray_GETPTR2\((?P<arr>\w+),(?P<row>.+),0\)$"
    probs = []
    unknown = []
    for t in clib.expand(fn, g, nw.id, cw.args[1]):
        m = re.match(PTR1, _canon(t))
        if not m:
            unknown.append("index " + _canon(t))
        elif m.group("arr") != T[2]:
            probs.append("the block's global index is read from `%s` instead of `%s`" % (m.group("arr"), T[2]))
    rows = set()
    for t in clib.expand(fn, g, nw.id, cw.args[2]):
        m = re.match(PTR2, _canon(t))
        if not m:
            # the same address written as base + row * stride: right only with the stride of a *row* (the array is 2-D:
            # samples x subchannels), not with the size of one item
            mb_ = re.match(r"^(?:\(char\*\))?PyArray_(?:BYTES|DATA)\((?P<arr>\w+)\)\+(?P<row>.+)\*(?P<step>PyArray_\w+\([^()]*\)(?:\[0\])?)$", _canon(t))
            if mb_ and re.match(r"^PyArray_ITEMSIZE\(\w+\)$", mb_.group("step")):
                probs.append("the block's data pointer is computed as base + row * PyArray_ITEMSIZE: one item is one value of one subchannel, "
                             "a row of the (samples x subchannels) array is num_subchannels items long - every block after the first is "
                             "taken from the wrong offset when there is more than one subchannel")
            elif mb_ and re.match(r"^PyArray_(?:STRIDE\(\w+,0\)|STRIDES\(\w+\)\[0\])$", mb_.group("step")):
                rows.add(mb_.group("row"))
            else:
                unknown.append("data " + _canon(t))
        else:
            if m.group("arr") != T[1]:
                probs.append("the block's data pointer is taken from `%s` instead of `%s`" % (m.group("arr"), T[1]))
            mm = re.match(PTR1, _canon(m.group("row")))
            if not mm:
                unknown.append("row " + m.group("row"))
            elif mm.group("arr") != T[3]:
                probs.append("the block's first row is read from `%s` instead of `%s`" % (mm.group("arr"), T[3]))
    for t in clib.expand(fn, g, nw.id, cw.args[3]):
        t = _canon(t)
        # end - start, where start = *GETPTR1(T3,i) and end in {*GETPTR1(T3,i+1), DIMS(T1)[0]}
        depth = 0
        cut = None
        for i, ch in enumerate(t):
            if ch in "([":
                depth += 1
            elif ch in ")]":
                depth -= 1
            elif ch == "-" and depth == 0:
                cut = i
        if cut is None:
            unknown.append("length " + t)
            continue
        e, b0 = _canon(t[:cut]), _canon(t[cut + 1:])
        mb = re.match(PTR1, b0)
        me = re.match(PTR1N, e) or re.match(DIM0, e)
        if not mb or not me:
            unknown.append("length %s - %s" % (e, b0))
            continue
        if mb.group("arr") != T[3]:
            probs.append("block length start read from `%s`" % mb.group("arr"))
        if me.re.pattern == PTR1N and me.group("arr") != T[3]:
            probs.append("block length end read from `%s`" % me.group("arr"))
        if me.re.pattern == DIM0 and me.group("arr") != T[1]:
            probs.append("last block's end is the length of `%s`" % me.group("arr"))
    site = "%s:%s _py_rf_write_hdf5_rf_block_write (per-block loop)" % (C_EXT, cw.line)
    if probs:
        for pmsg in sorted(set(probs)):
            r.violation(C_EXT, fn.name, pmsg, "per-block write in continuous mode does not take block i's data / index / length from the "
                        "corresponding arrays", line=cw.line)
    elif unknown:
        raise AnalysisError("%s: per-block write arguments not recognised: %s" % (fn.name, sorted(set(unknown))[:3]))
    else:
        r.ok(site, "block i is written from row %s[i] of %s, at global index %s[i], with length next offset (or total length) minus "
                   "its own offset" % (T[3], T[1], T[2]))
    # Python: contiguous + safe cast on every path from the public write calls to the extension (helpers inlined)
    m = pyfront.mod("digital_rf_hdf5", repo)
    for q, ext_fn in (("DigitalRFWriter.rf_write", "_py_rf_write_hdf5.rf_write"),
                      ("DigitalRFWriter.rf_write_blocks", "_py_rf_write_hdf5.rf_block_write")):
        v = m.flat(q)
        g = v.cfg()
        calls = [n for n in g.nodes if any(pyfront.call_name(c) == ext_fn for c in pyfront.node_calls(n))]
        if not calls:
            raise AnalysisError("%s: call of %s not found" % (q, ext_fn))
        # the data array: second argument of the extension call, and the names it is derived from
        ec = [c for c in pyfront.node_calls(calls[0]) if pyfront.call_name(c) == ext_fn][0]
        if len(ec.args) < 2 or not isinstance(ec.args[1], ast.Name):
            raise AnalysisError("%s: data argument of %s is not a plain name" % (q, ext_fn))
        chain, work = set(), [ec.args[1].id]
        while work:
            nm = work.pop()
            if nm in chain:
                continue
            chain.add(nm)
            for n in g.nodes:
                if isinstance(n.ast, ast.Assign) and any(isinstance(t, ast.Name) and t.id == nm for t in n.ast.targets):
                    v_ = n.ast.value
                    roots = []
                    if isinstance(v_, ast.Name):
                        roots = [v_.id]
                    elif isinstance(v_, ast.Call):
                        f_ = v_.func
                        if isinstance(f_, ast.Attribute) and isinstance(f_.value, ast.Name) and f_.value.id not in ("np", "numpy"):
                            roots = [f_.value.id]
                        elif v_.args and isinstance(v_.args[0], ast.Name):
                            roots = [v_.args[0].id]
                    work.extend(roots)

        def on_chain(n):
            return isinstance(n.ast, ast.Assign) and any(isinstance(t, ast.Name) and t.id in chain for t in n.ast.targets)
        contig = [n.id for n in g.nodes if on_chain(n) and any(pyfront.call_name(c) == "np.ascontiguousarray" for c in pyfront.node_calls(n))]
        safe = [n.id for n in g.nodes if on_chain(n) and any(isinstance(c.func, ast.Attribute) and c.func.attr == "astype"
                                                             and pyfront.const(pyfront.kwarg(c, "casting")) == "safe"
                                                             for c in pyfront.node_calls(n))]
        unsafe = [n for n in g.nodes if on_chain(n) and any(isinstance(c.func, ast.Attribute) and c.func.attr == "astype"
                                                            and pyfront.const(pyfront.kwarg(c, "casting", None) or ast.Constant("same_kind")) != "safe"
                                                            for c in pyfront.node_calls(n))]
        bad = [x for x in calls if x.id in g.reach([g.entry.id], avoid=contig, skip_labels=("exc",))
               or x.id in g.reach([g.entry.id], avoid=safe, skip_labels=("exc",))]
        if bad or unsafe:
            r.violation(m.rel, q, "%s reachable without ascontiguousarray + astype(casting='safe')" % ext_fn, "data can reach the C "
                        "library non-contiguous or after a lossy cast", line=(bad or unsafe)[0].line)
        else:
            r.ok("%s:%s %s" % (m.rel, calls[0].line, q), "every path to %s passes np.ascontiguousarray and an astype(..., "
                 "casting='safe') (helpers inlined: %s)" % (ext_fn, ", ".join(v.inlined) or "none"))
    r.guard(4)
    return r


# ---------------------------------------------------------------------------
# R5 interface agreement
# ---------------------------------------------------------------------------

UNIT_TYPES = {"s": ("char *", "const char *"), "i": ("int",), "K": ("uint64_t", "unsigned long long", "unsigned long"),
              "O": ("PyObject *", "PyArrayObject *")}
ALIAS = {"kind": "dtype_char", "itemsize": "bytecount", "use_marching_periods": "marching_periods",
         "hdf5_dtype": "dtype_id", "start_global_index": "global_start_sample", "marching_periods": "marching_dots",
         "unix_sample_index": "global_sample", "_channelObj": "pyCObject", "arr": "pyNumArr",
         "global_sample_arr": "pyGlobalArr", "block_sample_arr": "pyBlockArr", "hdf5_write_data_object": "hdf5_data_object"}


def _leaf(e):
    if isinstance(e, ast.Call) and e.args:
        return _leaf(e.args[0])
    if isinstance(e, ast.Attribute):
        return e.attr
    if isinstance(e, ast.Name):
        return e.id
    return ast.unparse(e)


def _same(a, b):
    return a == b or ALIAS.get(a) == b or ALIAS.get(b) == a


def r5_interface_agreement(repo=None):
    r = Rule("C01.R5", "Python call sites, PyArg_ParseTuple formats, wrapper calls and library prototypes agree (tables)")
    tu = cfront.ext(repo)
    lib = cfront.lib(repo)
    m = pyfront.mod("digital_rf_hdf5", repo)
    # method table: python name -> C function, from the PyMethodDef initialiser text
    txt = tu.text
    table = dict(re.findall(r'\{\s*"(\w+)"\s*,\s*(\w+)\s*,', txt))
    if len(table) < 8:
        raise AnalysisError("PyMethodDef table: %d entries found, 8 confirmed on the reference tree" % len(table))
    parsed = {}
    for pyname, cname in sorted(table.items()):
        if cname not in tu.functions:
            r.violation(C_EXT, "-", '{"%s", %s}' % (pyname, cname), "method table names a function that is not defined")
            continue
        fn = tu.fn(cname)
        pc = fn.calls(("PyArg_ParseTuple",))
        if not pc:
            parsed[pyname] = (cname, [], None)
            continue
        pc = pc[0]
        fmt = pc.args[1].strval()
        vars_ = []
        for a in pc.args[2:]:
            s = a.strip(casts=True)
            if s.kind == "UnaryOperator" and s.opcode == "&":
                vars_.append((s.children[0].path(), s.children[0].strip().type))
            else:
                vars_.append((s.path(), "?"))
        units = list(fmt.split(":")[0].split(";")[0])
        site = "%s:%s %s PyArg_ParseTuple(%r)" % (C_EXT, pc.line, cname, fmt)
        if len(units) != len(vars_):
            r.violation(C_EXT, cname, "PyArg_ParseTuple(%r) with %d addresses" % (fmt, len(vars_)),
                        "number of format units differs from the number of address arguments", line=pc.line)
        else:
            bad = [(u, v, t) for u, (v, t) in zip(units, vars_) if u not in UNIT_TYPES or t not in UNIT_TYPES[u]]
            if bad:
                u, v, t = bad[0]
                r.violation(C_EXT, cname, "format unit %r for `%s` of type %s" % (u, v, t),
                            "format unit does not match the C type of the variable whose address is passed (the compiler "
                            "does not check this): the argument would be parsed with the wrong width", line=pc.line)
            else:
                r.ok(site, "%d units, each matching the C type of its target" % len(units))
        parsed[pyname] = (cname, [v for v, _ in vars_], pc)
    # python call sites
    ncalls = 0
    seen_sites = set()
    for q, f0 in m.functions.items():
        if "<locals>" in q:
            continue
        # with private helpers inlined: a call made through a wrapper that receives the extension function as a parameter
        # (`self._call(_ext.rf_write, a, b)`) is judged with the arguments of each caller
        try:
            f = m.flat(q).fn()
        except AnalysisError:
            f = f0
        for c in pyfront.walk_no_nested(f):
            if isinstance(c, ast.Call):
                d = pyfront.call_name(c) or ""
                key_ = (d, getattr(c, "lineno", 0), getattr(c, "col_offset", 0), tuple(norm(ast.unparse(a)) for a in c.args))
                if key_ in seen_sites:
                    continue
                seen_sites.add(key_)
                if d.startswith("_py_rf_write_hdf5.") and d.split(".")[1] in parsed:
                    pyname = d.split(".")[1]
                    cname, cvars, pc = parsed[pyname]
                    ncalls += 1
                    site = "%s:%s %s %s(...)" % (m.rel, c.lineno, q, d)
                    if c.keywords or len(c.args) != len(cvars):
                        r.violation(m.rel, q, "%s with %d arguments" % (d, len(c.args)), "the extension function parses %d "
                                    "positional arguments" % len(cvars), line=c.lineno)
                        continue
                    leafs = [_leaf(a) for a in c.args]
                    # positive evidence of a transposition: an argument's name matches the variable parsed at ANOTHER position
                    mism = [(i, a, b, [j for j, cv in enumerate(cvars) if j != i and _same(a, cv)])
                            for i, (a, b) in enumerate(zip(leafs, cvars)) if not _same(a, b)]
                    swapped = [x for x in mism if x[3]]
                    if swapped:
                        i, a, b, js = swapped[0]
                        r.violation(m.rel, q, "%s argument %d is `%s`, parsed into `%s`" % (d, i, a, b),
                                    "positional argument order at the Python call site differs from the order the extension "
                                    "parses: `%s` is parsed at position %d (same-typed arguments transposed compile and run "
                                    "silently)" % (a, js[0]), line=c.lineno)
                    else:
                        unk = ["%s~%s" % (a, b) for i, a, b, js in mism]
                        r.ok(site, "%d positional arguments, none of them named like a variable parsed at another position%s" % (
                            len(leafs), (" (names not comparable: %s)" % ", ".join(unk)) if unk else ""))
    mcalls = 0
    for c in ast.walk(m.tree):
        # every use of a function of the extension: called in place, or handed to a wrapper that calls it
        if isinstance(c, ast.Attribute) and isinstance(c.value, ast.Name) and c.value.id == "_py_rf_write_hdf5" and isinstance(c.ctx, ast.Load):
            mcalls += 1
    if mcalls < 8:
        raise AnalysisError("expected >= 8 extension call sites in digital_rf_hdf5.py, found %d" % mcalls)
    # wrapper -> library argument order by parameter name
    for cname, libname in ((cfront.ext_fn(tu, "init"), "digital_rf_create_write_hdf5"),
                           (cfront.ext_fn(tu, "get_unix_time"), "digital_rf_get_unix_time_rational"),
                           (cfront.ext_fn(tu, "rf_write"), "digital_rf_write_hdf5"),
                           (cfront.ext_fn(tu, "rf_block_write"), "digital_rf_write_blocks_hdf5")):
        fn = tu.fn(cname)
        params = [p.name for p in lib.params(libname)]
        for c in fn.calls((libname,)):
            names = []
            for a in c.args:
                s = a.strip(casts=True)
                if s.kind == "UnaryOperator" and s.opcode == "&":
                    s = s.children[0]
                names.append(s.path())
            site = "%s:%s %s -> %s" % (C_EXT, c.line, cname, libname)
            if len(names) != len(params):
                r.violation(C_EXT, cname, c.nsrc[:80], "argument count differs from the library prototype", line=c.line)
                continue
            loose = {"global_arr": "global_index_arr", "block_arr": "data_index_arr", "index_length": "index_len",
                     "data": "vector", "next_sample": "global_leading_edge_index", "block_length": "vector_length"}
            def same2(a, b):
                return a is not None and (_same(a, b) or loose.get(a) == b)
            mism = [(i, a, b, [j for j, pj in enumerate(params) if j != i and same2(a, pj)])
                    for i, (a, b) in enumerate(zip(names, params)) if not same2(a, b)]
            swapped = [x for x in mism if x[3]]
            if swapped:
                i, a, b, js = swapped[0]
                r.violation(C_EXT, cname, "%s passes `%s` for parameter `%s`" % (libname, a, b),
                            "the wrapper forwards its arguments in a different order than the library declares them (`%s` is the "
                            "name of parameter %d)" % (a, js[0]), line=c.line)
            else:
                unk = ["%s~%s" % (a, b) for i, a, b, js in mism]
                r.ok(site, "no argument is named like a parameter at another position%s" % (
                    (" (names not comparable: %s)" % ", ".join(unk)) if unk else ""))
    # Py_BuildValue of get_unix_time vs the Python unpacking
    fn = tu.fn(cfront.ext_fn(tu, "get_unix_time"))
    bv = fn.calls(("Py_BuildValue",))
    gu = m.fn("get_unix_time")
    tgt = None
    holders = set()
    for n in ast.walk(gu):
        if isinstance(n, ast.Assign) and isinstance(n.value, ast.Call) and pyfront.call_name(n.value) == "_py_rf_write_hdf5.get_unix_time":
            if isinstance(n.targets[0], ast.Tuple):
                tgt = [ast.unparse(e) for e in n.targets[0].elts]
            elif isinstance(n.targets[0], ast.Name):
                holders.add(n.targets[0].id)
    for n in ast.walk(gu):
        if isinstance(n, ast.Assign) and isinstance(n.targets[0], ast.Tuple) and isinstance(n.value, ast.Name) and n.value.id in holders:
            tgt = [ast.unparse(e) for e in n.targets[0].elts]
    if not bv or tgt is None:
        raise AnalysisError("get_unix_time: Py_BuildValue or the Python unpacking not found")
    built = [a.path() for a in bv[0].args[1:]]
    fmt = bv[0].args[0].strval()
    # the values may sit in a local struct (`ut.year`): compare the member / variable names
    import re as _re
    leaf = [_re.split(r"->|\.", b)[-1] if b else b for b in built]
    if leaf != built and len(set(leaf)) == len(leaf):
        if leaf == tgt:
            built = leaf
        elif sorted(x or "" for x in leaf) == sorted(tgt):
            built = leaf          # same names in another order: reported below
        else:
            raise AnalysisError("get_unix_time: the values built into the tuple (%s) cannot be matched by name with the Python unpacking %s" % (built, tgt))
    elif built != tgt and sorted(x or "" for x in built) != sorted(tgt):
        raise AnalysisError("get_unix_time: the values built into the tuple (%s) cannot be matched by name with the Python unpacking %s" % (built, tgt))
    if built == tgt and len(fmt) == len(built):
        r.ok("%s:%s Py_BuildValue(%r) vs %s:%s" % (C_EXT, bv[0].line, fmt, m.rel, gu.lineno),
             "tuple built as %s and unpacked into the same names" % built)
    else:
        r.violation(C_EXT, fn.name, "Py_BuildValue(%r, %s) vs unpack %s" % (fmt, built, tgt),
                    "time tuple is built in a different order than Python unpacks it", line=bv[0].line)
    r.guard(16)
    return r


# ---------------------------------------------------------------------------
# R6 exact use of the block index in the reader
# ---------------------------------------------------------------------------

def r6_exact_index_use(repo=None, rid="C01.R6"):
    r = Rule(rid, "block-index entries reach sample arithmetic only through int() (no uint64/float64 mixing)")
    m = pyfront.mod("digital_rf_hdf5", repo)
    m.fn("_top_level_dir_properties._read")
    uses = 0
    sites = [(q_, n_) for q_, f_ in m.functions.items() if q_.startswith("_top_level_dir_properties.")
             for n_ in pyfront.walk_no_nested(f_)]
    for q, n in sites:
        if isinstance(n, ast.Attribute) and pyfront.dotted(n) == "self.rf_index" and isinstance(n.ctx, ast.Load):
            uses += 1
            p = m.parents.get(n)
            ok = False
            if isinstance(p, ast.Subscript):
                pp = m.parents.get(p)
                # int(self.rf_index[row, k]) with scalar indices
                idx = p.slice
                scalar = isinstance(idx, ast.Tuple) and all(not isinstance(e, ast.Slice) for e in idx.elts)
                if isinstance(pp, ast.Call) and pyfront.call_name(pp) == "int" and scalar:
                    ok = True
            elif isinstance(p, ast.Attribute) and p.attr in ("shape", "dtype", "ndim", "size"):
                ok = True
            # an explicit conversion of (a slice of) the index to a signed 64-bit integer array is exact as well
            q2 = p
            if isinstance(q2, ast.Subscript):
                q2 = m.parents.get(q2)
            if isinstance(q2, ast.Attribute) and q2.attr == "astype":
                callp = m.parents.get(q2)
                if isinstance(callp, ast.Call) and callp.args and norm(ast.unparse(callp.args[0])) in (
                        "np.int64", "'int64'", "int", "'i8'", "np.dtype('int64')"):
                    ok = True
            if isinstance(q2, ast.Call) and pyfront.call_name(q2) in ("np.int64",) :
                ok = True
            site = "%s:%s %s `%s`" % (m.rel, n.lineno, q, norm(ast.unparse(m.parents.get(p, p)))[:70])
            if ok:
                r.ok(site, "index entry converted with int() before use (exact Python integer arithmetic)")
            else:
                stmt = m.enclosing(n, (ast.stmt,))
                r.violation(m.rel, q, norm(ast.unparse(stmt))[:100], "the uint64 block index is used as a numpy array/scalar "
                            "in sample arithmetic or comparison: mixed with Python ints numpy evaluates in float64, which "
                            "cannot represent indices above 2**53, so blocks are selected wrongly at high sample rates",
                            line=n.lineno)
    if uses < 3:
        raise AnalysisError("_top_level_dir_properties: %d uses of self.rf_index found, 4 confirmed on the reference tree" % uses)
    r.guard(4)
    return r


def r7_cast_targets_keep_the_reported_byte_order(repo=None):
    """The library is told one byte order for the channel (the constructor's `self.byteorder`, taken from the real element type)
    and interprets the buffer it receives in that order.  Every dtype the writer casts its input to (`astype(self.X, ...)` /
    `view(dtype=self.X)` on the way to the extension, private helpers inlined) must therefore carry the byte order of that real
    type.  Byte-order provenance of the constructor's dtype attributes, over all branches:
        SAME    the real type itself; a structured type all of whose fields are SAME; <anything>.newbyteorder(<real type>.byteorder);
                a copy of a SAME attribute
        NATIVE  np.dtype(<string built without a byte-order character>)  (e.g. "c8" from a format)
    A cast target that can be NATIVE while the reported order is the real type's is reported: for a big-endian channel on a
    little-endian host the buffer is then native while the library reads it as big-endian - every value is stored byte-reversed."""
    r = Rule("C01.R7", "every dtype the input is cast to carries the byte order that is reported to the library")
    m = pyfront.mod("digital_rf_hdf5", repo)
    W = "DigitalRFWriter"
    init = m.flat(W + ".__init__", depth=3).fn()
    REAL = None
    # the attribute whose .byteorder is reported
    for n in ast.walk(init):
        if isinstance(n, ast.Assign) and len(n.targets) == 1 and pyfront.dotted(n.targets[0]) == "self.byteorder" \
                and isinstance(n.value, ast.Attribute) and n.value.attr == "byteorder" and (pyfront.dotted(n.value.value) or "").startswith("self."):
            REAL = pyfront.dotted(n.value.value)
    if REAL is None:
        raise AnalysisError("%s.__init__: `self.byteorder = self.<real type>.byteorder` not found" % W)

    def classify(e, env):
        d = pyfront.dotted(e)
        if d == REAL:
            return {"SAME"}
        if d is not None and d in env:
            return set(env[d])
        if isinstance(e, ast.Constant) and e.value is None:
            return {"NONE"}
        if isinstance(e, ast.Subscript) and pyfront.dotted(e.value) == REAL:
            return {"SAME"}
        if isinstance(e, ast.Call) and isinstance(e.func, ast.Attribute) and e.func.attr == "newbyteorder" and len(e.args) == 1:
            a = e.args[0]
            if isinstance(a, ast.Attribute) and a.attr == "byteorder" and pyfront.dotted(a.value) == REAL:
                return {"SAME"}
            if pyfront.dotted(a) == "self.byteorder":
                return {"SAME"}
            return {"UNKNOWN"}
        if isinstance(e, ast.Call) and pyfront.call_name(e) in ("np.dtype", "numpy.dtype") and len(e.args) == 1:
            a = e.args[0]
            if isinstance(a, (ast.List, ast.Tuple)) and a.elts and all(isinstance(x, ast.Tuple) and len(x.elts) >= 2 for x in a.elts):
                out = set()
                for x in a.elts:
                    out |= classify(x.elts[1], env)
                return out
            if isinstance(a, ast.Call) and isinstance(a.func, ast.Attribute) and a.func.attr == "format" and isinstance(a.func.value, ast.Constant) \
                    and isinstance(a.func.value.value, str) and not any(ch in a.func.value.value for ch in "<>=|"):
                return {"NATIVE"}
            if isinstance(a, ast.Constant) and isinstance(a.value, str) and not any(ch in a.value for ch in "<>=|"):
                return {"NATIVE"}
            if isinstance(a, ast.JoinedStr) or (isinstance(a, ast.BinOp) and isinstance(a.op, ast.Mod)):
                return {"NATIVE"} if not any(isinstance(x, ast.Constant) and isinstance(x.value, str) and any(ch in x.value for ch in "<>=|")
                                             for x in ast.walk(a)) else {"UNKNOWN"}
            return classify(a, env) if pyfront.dotted(a) else {"UNKNOWN"}
        return {"UNKNOWN"}

    # flow-insensitive over branches, iterated to a fixpoint: env[attr] = set of provenances of all assignments
    env = {}
    changed = True
    assigns = [n for n in ast.walk(init) if isinstance(n, ast.Assign) and len(n.targets) == 1 and (pyfront.dotted(n.targets[0]) or "").startswith("self.")]
    rounds = 0
    while changed and rounds < 6:
        changed = False
        rounds += 1
        for n in assigns:
            k = pyfront.dotted(n.targets[0])
            if k in (REAL, "self.byteorder"):
                continue
            v = classify(n.value, env)
            if v == {"UNKNOWN"} and not (isinstance(n.value, ast.Call) and "dtype" in (pyfront.call_name(n.value) or "")) and not (
                    isinstance(n.value, ast.Call) and isinstance(n.value.func, ast.Attribute) and n.value.func.attr == "newbyteorder"):
                continue        # not a dtype attribute
            if not v <= env.get(k, set()):
                env[k] = env.get(k, set()) | v
                changed = True
    # cast targets on the way to the extension
    n_sites = 0
    reported = set()
    for q in (W + ".rf_write", W + ".rf_write_blocks"):
        fl = m.flat(q, depth=3).fn()
        for c in ast.walk(fl):
            if not (isinstance(c, ast.Call) and isinstance(c.func, ast.Attribute) and c.func.attr in ("astype", "view")):
                continue
            tgt = c.args[0] if c.args else pyfront.kwarg(c, "dtype")
            d = pyfront.dotted(tgt) if tgt is not None else None
            if d is None or not d.startswith("self."):
                continue
            if d == REAL:
                prov = {"SAME"}
            elif d in env:
                prov = env[d] - {"NONE"}
            else:
                raise AnalysisError("%s: cast target `%s` is not a dtype attribute set in the constructor" % (q, d))
            n_sites += 1
            site = "%s:%s %s `%s`" % (m.rel, c.lineno, q, norm(ast.unparse(c))[:70])
            if prov <= {"SAME"}:
                r.ok(site, "`%s` always carries the byte order of `%s` (which is what is reported to the library)" % (d, REAL))
            elif "NATIVE" in prov:
                defs = [n for n in assigns if pyfront.dotted(n.targets[0]) == d and "NATIVE" in classify(n.value, env)]
                if (d, getattr(c, "lineno", 0)) in reported:
                    continue
                reported.add((d, getattr(c, "lineno", 0)))
                r.violation(m.rel, W, "`%s = %s` used by `%s`" % (d, norm(ast.unparse(defs[0].value))[:60] if defs else "?", norm(ast.unparse(c))[:50]),
                            "the input is cast to `%s`, which the constructor can build in *native* byte order, while the library is told "
                            "the byte order of `%s`: for a big-endian channel on a little-endian host the buffer handed over is "
                            "little-endian and every value is stored byte-reversed (silently)" % (d, REAL),
                            line=defs[0].lineno if defs else c.lineno)
            else:
                raise AnalysisError("%s: byte order provenance of `%s` not determined (%s)" % (q, d, sorted(prov)))
    if n_sites < 3:
        raise AnalysisError("%s: %d cast sites found on the way to the extension, 4 confirmed" % (W, n_sites))
    r.guard(3)
    return r


def r8_index_row_follows_the_layout(repo=None):
    """Where the samples of a continuing write land in the open file is decided by the file's layout: a data set that grows
    (sized by the samples written so far: the chunked layout) takes them at its end, a data set sized for the whole file takes
    them at the slot of their index.  In the growing layout the *index row* of the write is the only record of the sample index
    its data starts at - so the test that gives a continuing write its row must be made on the same flag as the test that sizes the
    data set (sibling agreement between digital_rf_create_hdf5_file and both passes of digital_rf_create_rf_data_index)."""
    from . import c07
    r = Rule("C01.R8", "a continuing write gets its own index row exactly in the layout whose data set grows by appending (one flag, three sites)")
    tu = cfront.lib(repo)
    cf = tu.fn("digital_rf_create_hdf5_file")
    rows = c07._rows_target(cf)
    params = [p_.name for p_ in cf.children if p_.kind == "ParmVarDecl"]

    def flag_of(cond):
        """(field path, polarity) of a condition that is a writer-object field, possibly negated"""
        e = cond.strip(casts=True)
        pol = True
        while e.kind == "UnaryOperator" and e.opcode == "!":
            pol = not pol
            e = e.children[0].strip(casts=True)
        p_ = e.path()
        if p_ and p_.startswith(clib.OBJ + "->"):
            return p_, pol
        p_ = clib.alias_path(cf, e)         # `const int flag = obj->flag;`
        if p_ and p_.startswith(clib.OBJ + "->"):
            return p_, pol
        return None
    layout = None
    row_defs = list(clib.stores(cf)) + [(d.name, d, d.children[-1], "=") for d in cf.find("VarDecl") if d.name == rows and d.children
                                         and d.children[-1].kind != "InitListExpr"]
    for path, node, rhs, kind in row_defs:
        if path != rows or kind != "=" or rhs is None:
            continue
        t_ = rhs.strip(casts=True)
        if t_.kind == "ConditionalOperator":
            # `rows = flag ? a : b`
            fl = flag_of(t_.children[0])
            arms = [t_.children[1].strip(casts=True).path(), t_.children[2].strip(casts=True).path()]
            whole = [a_ in params and "max" in (a_ or "") for a_ in arms]
            if fl is not None and whole[0] != whole[1]:
                grows_when = fl[1] if whole[1] else not fl[1]
                if layout is not None and layout != (fl[0], grows_when):
                    raise AnalysisError("%s: the sizes stored into `%s` are selected inconsistently" % (cf.name, rows))
                layout = (fl[0], grows_when)
            continue
        a = node.parent
        while a is not None and a is not cf and a.kind != "IfStmt":
            a = a.parent
        if a is None or a.kind != "IfStmt":
            continue
        fl = flag_of(a.children[0])
        if fl is None:
            continue
        in_then = a.children[1].begin <= node.begin <= a.children[1].end
        v = rhs.strip(casts=True).path()
        whole_file = v in params and "max" in (v or "")
        # the branch that does NOT take the whole-file size is the growing layout
        grows_when = (fl[1] if in_then else not fl[1]) if not whole_file else (not fl[1] if in_then else fl[1])
        if layout is not None and layout != (fl[0], grows_when):
            raise AnalysisError("%s: the sizes stored into `%s` are selected inconsistently (%s / %s)" % (cf.name, rows, layout, (fl[0], grows_when)))
        layout = (fl[0], grows_when)
    if layout is None:
        raise AnalysisError("%s: the flag that selects the size of the data set (`%s`) was not recognised" % (cf.name, rows))
    r.ok("%s:%s %s" % (C_LIB, cf.line, cf.name), "the data set grows with the writes when `%s%s`" % ("" if layout[1] else "!", layout[0]))
    fn = tu.fn("digital_rf_create_rf_data_index")
    fparams = [p_.name for p_ in fn.children if p_.kind == "ParmVarDecl"]
    exists = [p_ for p_ in fparams if "exist" in p_]
    if len(exists) != 1:
        raise AnalysisError("%s: the parameter telling that the file is already open was not recognised" % fn.name)
    ex = exists[0]
    n_sites = 0
    seen_ = set()
    for node in fn.walk():
        # every `!file_exists || <flag>` of the function: in a condition, or held in a local first
        if not (node.kind == "BinaryOperator" and node.opcode == "||") or node.begin in seen_:
            continue
        ors = [node.children[0].strip(casts=True), node.children[1].strip(casts=True)]
        neg_exists = [o for o in ors if o.kind == "UnaryOperator" and o.opcode == "!" and o.children[0].strip(casts=True).path() == ex]
        other = [o for o in ors if o not in neg_exists]
        if len(neg_exists) != 1 or len(other) != 1:
            continue
        seen_.add(node.begin)
        n_sites += 1
        fl = flag_of(other[0])
        site = "%s:%s %s `%s`" % (C_LIB, node.line, fn.name, node.nsrc[:60])
        if fl is None:
            raise AnalysisError("%s: `%s` next to `!%s` is not a writer-object flag" % (fn.name, other[0].nsrc[:40], ex))
        if fl == layout:
            r.ok(site, "a continuing write gets its row exactly when the data set grows by appending")
        else:
            r.violation(C_LIB, fn.name, node.nsrc[:70], "the index row of a continuing write is decided by `%s%s`, the placement of its samples "
                        "by `%s%s`: where the two differ (a continuous channel with compression or checksums) samples appended after a gap "
                        "have no row saying where they start - the reader returns them at shifted indices and merges blocks across "
                        "the gap" % ("" if fl[1] else "!", fl[0], "" if layout[1] else "!", layout[0]), line=node.line)
    if n_sites < 1:
        raise AnalysisError("%s: the test `!%s || <layout flag>` was not found (2 confirmed on the reference tree)" % (fn.name, ex))
    r.guard(3)
    return r


def r9_reads_return_fresh_arrays(repo=None):
    """'read returns the samples that were written' for every read of a history, the second read of the same samples included:
    the arrays handed out must not share memory with the reader's open-file cache (C08.R11)."""
    from . import c08
    return c08.r11_cache_hands_out_no_views(repo, rid="C01.R9")


def rules(repo=None):
    return [lambda: r8_index_row_follows_the_layout(repo), lambda: r7_cast_targets_keep_the_reported_byte_order(repo), lambda: r1_dtype_table(repo), lambda: r2_name_format_agreement(repo), lambda: r3_exact_lookup(repo),
            lambda: r4_extension_passthrough(repo), lambda: r5_interface_agreement(repo), lambda: r6_exact_index_use(repo),
            lambda: r9_reads_return_fresh_arrays(repo)]


EXPLANATION = (
    'R9 (= C08.R11): the open-file cache of the reader keeps the data set object, or copies every slice it hands out - no array '
    'returned by read shares memory with the cache. '
    'Seven structural necessary conditions of the round trip. R1: every row of get_hdf5_data_type agrees with its HDF5 '
    'constant on class, width and byte order and the table is exhaustive for what DigitalRFWriter can pass. R2: regular-'
    "language equality of the C writer's final file-name/sub-directory formats with the reader's formats, inclusion in "
    'the listing grammar. R3: float-taint analysis of DigitalRFReader._get_file_list and its four callers (no true '
    'division, float literal or longdouble in the lookup). R4: the extension passes PyArray_DATA/DIMS of the same array, '
    "per-block pointers in the split loop; _cast_input_array is contiguous + casting='safe' on every path. R5: "
    'PyArg_ParseTuple units vs C types, Python call-site argument order vs parsed variables, wrapper-to-library argument '
    'order by parameter name, Py_BuildValue order vs unpacking. R6: the uint64 block index is only used through int(). '
    "R7: byte-order provenance of the writer's dtype attributes: every dtype the input is cast to on the way to the "
    'extension carries the byte order that is reported to the library (a complex type built from a format string is '
    'native). Does NOT decide block cutting / offset arithmetic or the merge of blocks.  R8: the writer-object flag '
    'tested next to `!file_exists` in both passes of digital_rf_create_rf_data_index (a continuing write gets its own '
    'index row) is the flag that selects the growing data-set size in digital_rf_create_hdf5_file.')
TECHNIQUE = ('clang JSON AST + Python ast; concrete evaluation of the dtype table; regular-language algebra on name formats; float-taint; reaching definitions + symbolic expansion of extension arguments; cross-language interface agreement')
ASSUMPTIONS = ["HDF5 predefined type names encode class, width and order as documented", "numpy dtype.kind/itemsize/byteorder semantics",
               "clang 14 AST and CPython ast are faithful"]
FILES = [C_LIB, C_EXT, PYRF, "python/digital_rf/list_drf.py"]
