"""C08 -- Reader query coherence (partial).

Decides: data and length queries share one pipeline, vector reads pass the three guards, the length guard acts on
the sample axis, exact file lookup (C01.R3), sub-channel selection is a column of the same slice, the lossless
conversion table.  Not decided: the split/merge relation itself and bounds arithmetic.
"""
from __future__ import annotations

import ast
import copy

from ..core import Rule, AnalysisError, norm
from .. import pyfront, pyutil
from . import c01

RD = "DigitalRFReader"
TL = "_top_level_dir_properties"


def _call(fn, name):
    return [c for c in pyfront.walk_no_nested(fn) if isinstance(c, ast.Call) and pyfront.call_name(c) == name]


def _args(c):
    return [norm(ast.unparse(a)) for a in c.args], {k.arg: norm(ast.unparse(k.value)) for k in c.keywords}


_FL_NAMES = ("self._get_file_list", "cls._get_file_list", "DigitalRFReader._get_file_list")      # method / classmethod / static spelling


def _returns_file_list(h):
    """h returns the value of a self._get_file_list(...) call (directly or through one local)."""
    names = set()
    for n in pyfront.walk_no_nested(h):
        if isinstance(n, ast.Assign) and isinstance(n.value, ast.Call) and pyfront.call_name(n.value) in _FL_NAMES \
                and isinstance(n.targets[0], ast.Name):
            names.add(n.targets[0].id)
    for n in pyfront.walk_no_nested(h):
        if isinstance(n, ast.Return) and n.value is not None:
            if isinstance(n.value, ast.Call) and pyfront.call_name(n.value) in _FL_NAMES:
                return True
            if isinstance(n.value, ast.Name) and n.value.id in names:
                return True
    return False


def _flist_call(m, fn):
    """The call by which a query obtains its candidate files: self._get_file_list(...) or a same-class helper that calls it."""
    out = []
    for c in pyfront.walk_no_nested(fn):
        if isinstance(c, ast.Call) and (pyfront.call_name(c) or "").startswith("self."):
            name = pyfront.call_name(c)[5:]
            if name == "_get_file_list":
                out.append(c)
            else:
                h = m.functions.get(RD + "." + name)
                if h is not None and _returns_file_list(h):
                    out.append(c)
    return out


def _len_only_if(m, fn):
    """(if node, data branch stmts, length branch stmts) for the `if [not] len_only` statement of fn."""
    ifs = [n for n in ast.walk(fn) if isinstance(n, ast.If) and norm(ast.unparse(n.test)) in ("not len_only", "len_only")]
    out = []
    for n in ifs:
        neg = norm(ast.unparse(n.test)) == "not len_only"
        out.append((n, n.body if neg else n.orelse, n.orelse if neg else n.body))
    return out


def r1_one_pipeline(repo=None):
    r = Rule("C08.R1", "block lengths and block data come from one pipeline (sibling comparison)")
    m = pyfront.mod("digital_rf_hdf5", repo)
    a = m.fn(RD + ".read")
    b = m.fn(RD + ".get_continuous_blocks")
    fa, fb = _flist_call(m, a), _flist_call(m, b)
    if len(fa) != 1 or len(fb) != 1:
        raise AnalysisError("read / get_continuous_blocks: call obtaining the candidate file list not found exactly once (%d / %d)" % (len(fa), len(fb)))
    (pa, ka), (pb, kb) = _args(fa[0]), _args(fb[0])
    site = "%s:%s/%s %s" % (m.rel, fa[0].lineno, fb[0].lineno, pyfront.call_name(fa[0]))
    if pyfront.call_name(fa[0]) == pyfront.call_name(fb[0]) and pa == pb and ka == kb:
        r.ok(site, "identical arguments in both queries")
    else:
        r.violation(m.rel, RD + ".get_continuous_blocks", "%s(%s) vs read: %s(%s)" % (pyfront.call_name(fb[0]), ", ".join(pb),
                    pyfront.call_name(fa[0]), ", ".join(pa)), "the two queries look at different candidate files, so reported lengths can "
                    "differ from returned data", line=fb[0].lineno)

    def method_calls(fn, meth):
        return [c for c in pyfront.walk_no_nested(fn) if isinstance(c, ast.Call) and isinstance(c.func, ast.Attribute) and c.func.attr == meth]
    ra, rb = method_calls(a, "_read"), method_calls(b, "_read")
    if len(ra) != 1 or len(rb) != 1:
        raise AnalysisError("read / get_continuous_blocks: per-directory _read call not found exactly once")
    (pa, ka), (pb, kb) = _args(ra[0]), _args(rb[0])
    ka2, kb2 = dict(ka), dict(kb)
    la, lb = ka2.pop("len_only", None), kb2.pop("len_only", None)
    ka2.pop("sub_channel", None)
    site = "%s:%s/%s _read" % (m.rel, ra[0].lineno, rb[0].lineno)
    if pa[:4] == pb[:4] and la == "False" and lb == "True" and not kb2 and not ka2:
        r.ok(site, "same (start, end, files, dict) arguments; only len_only (False/True) and sub_channel differ")
    else:
        r.violation(m.rel, RD + ".get_continuous_blocks", "_read(%s, %s) vs read: (%s, %s)" % (pb, kb, pa, ka),
                    "length query and data query scan different ranges", line=rb[0].lineno)
    ca, cb = method_calls(a, "_combine_blocks"), method_calls(b, "_combine_blocks")
    if len(ca) != 1 or len(cb) != 1:
        raise AnalysisError("read / get_continuous_blocks: _combine_blocks call not found exactly once")
    (pa, ka), (pb, kb) = _args(ca[0]), _args(cb[0])
    if pa == pb and ka == {} and kb == {"len_only": "True"}:
        r.ok("%s:%s/%s _combine_blocks" % (m.rel, ca[0].lineno, cb[0].lineno), "same dictionary; len_only only in the length query")
    else:
        r.violation(m.rel, RD + ".get_continuous_blocks", "_combine_blocks(%s, %s)" % (pb, kb), "blocks are merged "
                    "differently for lengths and data", line=cb[0].lineno)
    # inside _read: both branches use the same two bounds and the same key
    rd = m.flat(TL + "._read").fn()
    ifs = _len_only_if(m, rd)
    if len(ifs) != 1:
        raise AnalysisError("%s._read: `if [not] len_only` not found exactly once" % TL)
    node, data_b, len_b = ifs[0]
    lens = [n for s_ in len_b for n in ast.walk(s_) if isinstance(n, ast.Assign) and isinstance(n.targets[0], ast.Subscript)]
    datas = [n for s_ in data_b for n in ast.walk(s_) if isinstance(n, ast.Assign) and isinstance(n.targets[0], ast.Subscript)]
    slices = [n for s_ in data_b for n in ast.walk(s_) if isinstance(n, ast.Slice)]
    if len(lens) != 1 or not datas or not slices:
        raise AnalysisError("%s._read: stores into the result dictionary / row slices not recognised" % TL)
    lv = lens[0].value
    bounds = {(norm(ast.unparse(sl.lower)) if sl.lower else None, norm(ast.unparse(sl.upper)) if sl.upper else None) for sl in slices}
    key_same = {norm(ast.unparse(lens[0].targets[0]))} == {norm(ast.unparse(d.targets[0])) for d in datas}
    if len(bounds) == 1 and isinstance(lv, ast.BinOp) and isinstance(lv.op, ast.Sub) and key_same \
            and (norm(ast.unparse(lv.right)), norm(ast.unparse(lv.left))) == list(bounds)[0]:
        lo, hi = list(bounds)[0]
        r.ok("%s:%s %s._read" % (m.rel, node.lineno, TL), "length = %s - %s; data = rf_data[%s:%s]: the same two bounds, stored under the same "
             "key" % (hi, lo, lo, hi))
    else:
        r.violation(m.rel, TL + "._read", "length `%s` vs slices %s (same key: %s)" % (norm(ast.unparse(lv)), sorted(bounds, key=str), key_same),
                    "the length branch and the data branch of _read do not use the same slice bounds / key", line=node.lineno)
    cbf = m.fn(RD + "._combine_blocks")
    # the dictionary of blocks is filled directory by directory and file by file: its insertion order is the time order only for a
    # single top-level directory, so the merge must walk it in key order
    dparam = [a.arg for a in cbf.args.args if a.arg != "self"][0]
    walks = [lp for lp in ast.walk(cbf) if isinstance(lp, ast.For) and any(isinstance(x, ast.Name) and x.id == dparam for x in ast.walk(lp.iter))]
    if not walks:
        raise AnalysisError("%s._combine_blocks: loop over the block dictionary `%s` not found" % (RD, dparam))
    for lp in walks:
        it = lp.iter
        site_ = "%s:%s %s._combine_blocks `for ... in %s`" % (m.rel, lp.lineno, RD, norm(ast.unparse(it))[:50])
        if isinstance(it, ast.Call) and pyfront.call_name(it) == "sorted" and not any(k.arg == "reverse" for k in it.keywords):
            r.ok(site_, "blocks are merged in ascending key order whatever order they were collected in")
        else:
            base = it.func.value if isinstance(it, ast.Call) and isinstance(it.func, ast.Attribute) and it.func.attr in ("items", "keys", "values") else it
            if isinstance(base, ast.Name) and base.id == dparam:
                r.violation(m.rel, RD + "._combine_blocks", "for ... in %s" % norm(ast.unparse(it))[:60], "the blocks are merged in the order they were "
                            "inserted: with several top-level directories (or sessions interleaved over them) that is not the sample "
                            "order - adjacent blocks are not merged, keys come out unsorted, read_vector reports gaps in gap-free data",
                            line=lp.lineno)
            else:
                raise AnalysisError("%s._combine_blocks: iteration `%s` over the block dictionary not recognised" % (RD, norm(ast.unparse(it))[:60]))
    if not any(isinstance(n, ast.Name) and n.id == "len_only" for n in ast.walk(cbf)):
        raise AnalysisError("%s._combine_blocks does not use len_only" % RD)

    params = {a.arg for a in cbf.args.args}

    class Hom(ast.NodeTransformer):
        """image of the data version under `array -> its length`"""
        def visit_Call(self, node):
            self.generic_visit(node)
            cn = pyfront.call_name(node)
            if cn in ("np.concatenate", "numpy.concatenate") and len(node.args) == 1 and isinstance(node.args[0], (ast.Tuple, ast.List)) \
                    and len(node.args[0].elts) == 2:
                return ast.BinOp(node.args[0].elts[0], ast.Add(), node.args[0].elts[1])
            if cn == "len" and len(node.args) == 1 and isinstance(node.args[0], ast.Name) and node.args[0].id not in params:
                return node.args[0]
            return node

    class Aug(ast.NodeTransformer):
        def visit_AugAssign(self, node):
            if isinstance(node.op, ast.Add):
                return ast.Assign([node.target], ast.BinOp(copy.deepcopy(node.target), ast.Add(), node.value))
            return node

    def image(flag):
        f2 = pyutil.specialise(cbf, "len_only", flag)
        f2 = Aug().visit(f2)
        if not flag:
            f2 = Hom().visit(f2)
        ast.fix_missing_locations(f2)
        for x in ast.walk(f2):
            if isinstance(x, ast.Name) and isinstance(x.ctx, ast.Store):
                x.ctx = ast.Load()
        body = [x for x in f2.body if not (isinstance(x, ast.Expr) and isinstance(x.value, ast.Constant))]
        return [norm(ast.unparse(x)) for x in body]

    li, di = image(True), image(False)
    lens_first = [x for x in li if "len(cont_data_dict)" in x or "not cont_data_dict" in x]
    if li == di:
        r.ok("%s:%s %s._combine_blocks" % (m.rel, cbf.lineno, RD), "the len_only version is the image of the data version under array -> "
             "len(array): concatenation becomes addition, len(x) becomes x, everything else is shared")
    else:
        diff = [(x, y) for x, y in zip(li, di) if x != y][:1] or [("<%d statements>" % len(li), "<%d statements>" % len(di))]
        r.violation(m.rel, RD + "._combine_blocks", "len_only: `%s` vs data: `%s`" % (diff[0][0][:120], diff[0][1][:120]),
                    "length merging and data merging diverge", line=cbf.lineno)
    r.guard(5)
    return r


def _vector_roles(m, f):
    """(dict variable assigned from self.read(...), vector variable taken out of it with popitem())"""
    dv = zv = None
    for n in pyfront.walk_no_nested(f):
        if isinstance(n, ast.Assign) and isinstance(n.value, ast.Call):
            cn = pyfront.call_name(n.value)
            if cn == "self.read" and isinstance(n.targets[0], ast.Name):
                dv = n.targets[0].id
            if cn and cn.endswith(".popitem") and isinstance(n.targets[0], ast.Tuple) and len(n.targets[0].elts) == 2 \
                    and isinstance(n.targets[0].elts[1], ast.Name):
                zv = n.targets[0].elts[1].id
    return dv, zv


def _feasible(g, evalcond, skip=("exc",)):
    """nodes reachable from the entry when condition nodes whose value evalcond(node) knows (True/False) follow only that edge"""
    seen = set()
    work = [g.entry.id]
    while work:
        i = work.pop()
        if i in seen:
            continue
        seen.add(i)
        n = g.nodes[i]
        v = evalcond(n) if n.kind == "cond" else None
        for b_, lab in g.succ[i]:
            if lab in skip:
                continue
            if v is True and lab == "F":
                continue
            if v is False and lab == "T":
                continue
            work.append(b_)
    return seen


def r2_vector_guards(repo=None):
    """Oracle from the property: a vector read returns only if exactly one continuous block covers the range and it holds
    exactly vector_length samples; otherwise it raises IOError.  Decided by following the CFG of read_vector_raw for each
    abstract situation (number of blocks 0 / 1 / 2, block length equal / different), whatever shape the tests have."""
    r = Rule("C08.R2", "vector reads fail instead of returning partial or shifted data (all abstract situations)")
    m = pyfront.mod("digital_rf_hdf5", repo)
    q = RD + ".read_vector_raw"
    fv = m.flat(q, keep=("read",))
    f = fv.fn()
    g = fv.cfg()
    dv, zv = _vector_roles(m, f)
    if not dv or not zv:
        raise AnalysisError("read_vector_raw: result dictionary of self.read(...) / popitem() not recognised")

    def evaluator(nblocks, same_len):
        def ev(e):
            """value of expression e: int / bool / None (unknown)"""
            if isinstance(e, ast.Constant) and isinstance(e.value, (int, bool)):
                return e.value
            if isinstance(e, ast.Call) and pyfront.call_name(e) == "len" and len(e.args) == 1 and isinstance(e.args[0], ast.Name):
                if e.args[0].id == dv:
                    return nblocks
                return None
            if isinstance(e, ast.Name) and e.id == dv:
                return nblocks         # truthiness of the dict
            if isinstance(e, ast.UnaryOp) and isinstance(e.op, ast.Not):
                v = ev(e.operand)
                return None if v is None else (not v)
            if isinstance(e, ast.Compare) and len(e.ops) == 1:
                l_, r_ = norm(ast.unparse(e.left)), norm(ast.unparse(e.comparators[0]))
                pair = {l_, r_}
                if pair == {"len(%s)" % zv, "vector_length"} or pair == {"len(%s)" % zv, "int(vector_length)"}:
                    if isinstance(e.ops[0], ast.NotEq):
                        return not same_len
                    if isinstance(e.ops[0], ast.Eq):
                        return same_len
                    return None
                a, b_ = ev(e.left), ev(e.comparators[0])
                if isinstance(a, int) and isinstance(b_, int) and not isinstance(a, bool) and not isinstance(b_, bool):
                    import operator
                    ops = {ast.Gt: operator.gt, ast.Lt: operator.lt, ast.GtE: operator.ge, ast.LtE: operator.le,
                           ast.Eq: operator.eq, ast.NotEq: operator.ne}
                    fnc = ops.get(type(e.ops[0]))
                    if fnc:
                        # nblocks == 2 stands for "two or more": comparisons with constants up to 2 are decided
                        k = b_ if a == nblocks else a
                        if nblocks == 2 and k > 2:
                            return None
                        return fnc(a, b_)
            return None

        def evalcond(n):
            if n.ast is None or isinstance(n.ast, (ast.For, ast.While)):
                return None
            e = ast.parse(pyutil.expand_aliases(f, n.ast), mode="eval").body
            v = ev(e)
            return None if v is None else bool(v)
        return evalcond
    situations = [(0, True, "no data in the range"), (2, True, "a gap inside the range"), (1, False, "a block shorter/longer than requested")]
    rets = [n for n in g.nodes if n.kind == "return"]
    if not rets:
        raise AnalysisError("read_vector_raw has no return")
    for nb, same, what in situations:
        reach = _feasible(g, evaluator(nb, same))
        got = [n for n in rets if n.id in reach]
        raises = [n for n in g.nodes if n.kind == "raise" and n.id in reach and n.line and n.line > 0]
        if got:
            r.violation(m.rel, q, "return reachable with %s" % what, "a vector read over %s returns partial or shifted data instead of "
                        "failing" % what, line=got[0].line)
        else:
            # the failure must be an IOError (documented) - look at the raises reachable in this situation only
            late = [x for x in raises if x.id in g.reach([n_.id for n_ in g.nodes if isinstance(n_.ast, ast.Assign) and any(
                isinstance(t, ast.Name) and t.id == dv for t in n_.ast.targets)], skip_labels=("exc",))]
            bad = [x for x in late if not ("IOError" in x.label or "OSError" in x.label)]
            if bad:
                r.violation(m.rel, q, "%s: `%s`" % (what, bad[0].label[:60]), "the failure is not reported as IOError", line=bad[0].line)
            else:
                r.ok("%s:%s %s [%s]" % (m.rel, f.lineno, q, what), "no return is reachable; the read raises IOError")
    reach = _feasible(g, evaluator(1, True))
    if not any(n.id in reach for n in rets):
        r.violation(m.rel, q, "no return reachable for a fully covered range", "a fully covered vector read fails", line=f.lineno)
    else:
        r.ok("%s:%s %s [one block of the requested length]" % (m.rel, f.lineno, q), "the data is returned")
    for w, via in (("read_vector", "self.read_vector_raw"), ("read_vector_1d", "self.read_vector"), ("read_vector_c81d", "self.read_vector")):
        fw = m.fn(RD + "." + w)
        direct = _call(fw, "self.read") + _call(fw, "self._read")
        if _call(fw, via) and not direct:
            r.ok("%s:%s %s.%s" % (m.rel, fw.lineno, RD, w), "obtains data only through %s" % via)
        else:
            r.violation(m.rel, RD + "." + w, "bypasses %s" % via, "a vector read path avoids the guards of read_vector_raw", line=fw.lineno)
    r.guard(6)
    return r


AXIS_DROPPERS = ("squeeze", "ravel", "flatten")


def r3_guard_on_sample_axis(repo=None):
    r = Rule("C08.R3", "the length guard is applied on the sample axis (no axis-dropping operation before it)")
    m = pyfront.mod("digital_rf_hdf5", repo)
    q = RD + ".read_vector_raw"
    f = m.fn(q)
    g = m.cfg(q)
    dv, zv = _vector_roles(m, f)
    if not dv or not zv:
        raise AnalysisError("read_vector_raw: result dictionary of self.read(...) / popitem() not recognised")
    take = [n for n in g.nodes if isinstance(n.ast, ast.Assign) and ".popitem()" in n.label]
    guard = [n for n in g.nodes if n.kind == "cond" and n.ast is not None and not isinstance(n.ast, ast.For)
             and pyutil.expand_aliases(f, n.ast) in ("len(%s) != vector_length" % zv, "vector_length != len(%s)" % zv)]
    if not take:
        raise AnalysisError("read_vector_raw: popitem() not found")
    if not guard:
        r.violation(m.rel, q, "no length guard on `%s`" % zv, "the number of samples returned is never compared with vector_length", line=f.lineno)
        return r
    between = g.reach([take[0].id], avoid=[guard[0].id], skip_labels=("exc",)) - {take[0].id}
    bad = None
    for n in g.nodes:
        if n.id in between and n.ast is not None:
            for c in pyfront.node_calls(n):
                if isinstance(c.func, ast.Attribute) and pyfront.dotted(c.func.value) == zv:
                    if c.func.attr in AXIS_DROPPERS and not (c.func.attr == "squeeze" and (c.args or pyfront.kwarg(c, "axis") is not None)):
                        bad = (n, c)
                    if c.func.attr == "reshape" and "-1" in ast.unparse(c) and "," not in ast.unparse(c):
                        bad = (n, c)
    if bad:
        r.violation(m.rel, q, norm(ast.unparse(bad[0].ast)), "the array is squeezed/flattened before its length is compared with "
                    "vector_length: for vector_length == 1 (or == number of subchannels) the sample axis itself is dropped, so a "
                    "fully covered read fails or is mis-sized", line=bad[0].line)
    else:
        r.ok("%s:%s %s" % (m.rel, guard[0].line, q), "len(%s) is taken on axis 0 of the array returned by read(); any squeeze happens "
             "after the guard" % zv)
    after = g.reach([b for b, l in g.succ[guard[0].id] if l == "F"], skip_labels=("exc",))
    for n in g.nodes:
        if n.id in after and n.ast is not None:
            for c in pyfront.node_calls(n):
                if isinstance(c.func, ast.Attribute) and c.func.attr == "squeeze" and pyfront.dotted(c.func.value) == zv:
                    ax = pyfront.kwarg(c, "axis", 0)
                    if pyfront.const(ax) == 1:
                        r.ok("%s:%s %s `%s`" % (m.rel, n.line, q, norm(ast.unparse(c))), "drops only the subchannel axis")
                    else:
                        r.violation(m.rel, q, norm(ast.unparse(c)), "squeeze without axis=1 can drop the sample axis of a length-1 "
                                    "vector", line=n.line)
    r.guard(1)
    return r


def r5_subchannel_column(repo=None):
    r = Rule("C08.R5", "selecting a subchannel is taking a column of the same row slice")
    m = pyfront.mod("digital_rf_hdf5", repo)
    rd = m.flat(TL + "._read").fn()
    subs = [n for n in ast.walk(rd) if isinstance(n, ast.Subscript) and pyfront.dotted(n.value) == "self.rf_data"]
    full = [s_ for s_ in subs if isinstance(s_.slice, ast.Slice)]
    col = [s_ for s_ in subs if isinstance(s_.slice, ast.Tuple) and len(s_.slice.elts) == 2 and isinstance(s_.slice.elts[0], ast.Slice)]
    if len(full) != 1 or len(col) != 1:
        raise AnalysisError("%s._read: rf_data[a:b] / rf_data[a:b, sub_channel] not recognised (%d subscripts)" % (TL, len(subs)))
    fa = (norm(ast.unparse(full[0].slice.lower or ast.Constant(None))), norm(ast.unparse(full[0].slice.upper or ast.Constant(None))))
    cs = col[0].slice.elts[0]
    ca = (norm(ast.unparse(cs.lower or ast.Constant(None))), norm(ast.unparse(cs.upper or ast.Constant(None))))
    if fa == ca and norm(ast.unparse(col[0].slice.elts[1])) == "sub_channel":
        r.ok("%s:%s %s._read" % (m.rel, rd.lineno, TL), "rf_data[%s:%s] and rf_data[%s:%s, sub_channel] with the same bounds" % (fa + ca))
    else:
        r.violation(m.rel, TL + "._read", "rf_data[%s:%s] vs rf_data[%s:%s, %s]" % (fa + ca + (norm(ast.unparse(col[0].slice.elts[1])),)),
                    "the subchannel branch does not take the column of the same row slice as the full read", line=col[0].lineno)
    r.guard(1)
    return r


SIG = {"f2": 11, "f4": 24, "f8": 53}
INTFLOAT = {1: "f2", 2: "f4", 4: "f8", 8: "f8"}


def promote(fk, kind, size):
    """numpy.promote_types(fk, <kind><size>) for float fk and integer/float element types (documented table)."""
    order = ["f2", "f4", "f8"]
    other = INTFLOAT[size] if kind in "iu" else "f%d" % size
    return order[max(order.index(fk), order.index(other))]


def re_scalar(name):
    import re as _re
    return bool(_re.fullmatch(r"u?int(8|16|32|64)?|float(16|32|64|128)?|complex(64|128|256)?|longdouble|half|single|double|intc|uintc|short|ushort|longlong|ulonglong", name))


def r6_lossless_conversion(repo=None):
    r = Rule("C08.R6", "read_vector converts to a floating type that represents every element value exactly (tables)")
    m = pyfront.mod("digital_rf_hdf5", repo)
    q = RD + ".read_vector"
    f = m.fn(q)
    # positive evidence first: the stored byte order travels with the *dtype* of the data (field dtypes of the (r, i) records
    # included); `.view(<scalar type>)` - `dtype.type`, np.int16 ... - re-reads the raw bytes in the host's order
    for c in ast.walk(f):
        if isinstance(c, ast.Call) and isinstance(c.func, ast.Attribute) and c.func.attr == "view" and len(c.args) == 1:
            a0 = c.args[0]
            if isinstance(a0, ast.Name):
                defs = [x.value for x in ast.walk(f) if isinstance(x, ast.Assign) and any(isinstance(t, ast.Name) and t.id == a0.id for t in x.targets)]
                a0 = defs[0] if len(defs) == 1 else a0
            scalar = (isinstance(a0, ast.Attribute) and a0.attr == "type") or (
                isinstance(a0, ast.Attribute) and isinstance(a0.value, ast.Name) and a0.value.id in ("np", "numpy")
                and re_scalar(a0.attr))
            if scalar:
                r.violation(m.rel, q, norm(ast.unparse(c))[:70], "the stored samples are re-interpreted through a scalar *type*, which has no byte "
                            "order: a big-endian channel read on a little-endian host comes back byte-swapped (read and read_vector "
                            "then disagree about the same samples)", line=c.lineno)
                r.guard(1)
                return r
    consts = []
    for c in _call(f, "np.promote_types"):
        consts.append((pyfront.const(c.args[0]), c))
    if len(consts) != 2:
        raise AnalysisError("read_vector: expected two np.promote_types calls")
    got = sorted(str(c[0]) for c in consts)
    if got != ["c8", "f4"]:
        r.violation(m.rel, q, "promote_types constants %s" % got, "the documented floating types are float32 / complex64 as the "
                    "smallest safe types", line=consts[0][1].lineno)
    base = "f4"
    for c, _ in consts:
        if str(c).startswith("f"):
            base = str(c)
        elif str(c).startswith("c"):
            base_c = "f%d" % (int(str(c)[1:]) // 2)
            if base_c != base and got == ["c8", "f4"]:
                pass
    for kind in "iuf":
        for size in ((1, 2, 4, 8) if kind in "iu" else (4, 8)):
            res = promote(base if base in SIG else "f4", kind, size)
            bits = size * 8 - (1 if kind == "i" else 0) if kind in "iu" else SIG["f%d" % size]
            need = size * 8 if kind in "iu" else SIG["f%d" % size]
            if kind == "i":
                need = size * 8 - 1  # magnitude bits; the minimum value is a power of two and exact
            lossless = SIG[res] >= need
            site = "%s:%s %s %s%d -> %s" % (m.rel, f.lineno, q, kind, size, res)
            if lossless:
                r.ok(site, "%d-bit significand holds every %s%d value" % (SIG[res], kind, size))
            else:
                r.violation(m.rel, q, "element type %s%d promoted to %s" % (kind, size, res), "%s%d values need %d bits but %s has a "
                            "%d-bit significand: large values are rounded (documented 'lossless' conversion is lossy)" % (
                                kind, size, need, res, SIG[res]), line=f.lineno)
    r.guard(10)
    return r


def r8_no_history_state(repo=None):
    """'the answers of read, get_continuous_blocks and read_vector are coherent' across calls on one reader object only if an
    answer is a function of the files and the arguments.  The per-directory reader keeps an open-file cache; that is harmless
    exactly because everything in it is (re)loaded under the test `file name != remembered file name`, i.e. it is a function of
    the key.  Any other attribute that _read stores outside such a cache-miss branch and reads before storing it in the same
    call carries information from one query to the next: def-use over the CFG of _read (private helpers inlined)."""
    r = Rule("C08.R8", "between queries the per-directory reader keeps nothing but a cache keyed by the file name")
    m = pyfront.mod("digital_rf_hdf5", repo)
    q = TL + "._read"
    fv = m.flat(q)
    f = fv.fn()
    g = fv.cfg()

    def self_attr(x):
        return x.attr if isinstance(x, ast.Attribute) and isinstance(x.value, ast.Name) and x.value.id == "self" else None
    stores = [(x, self_attr(x)) for x in ast.walk(f) if isinstance(x, ast.Attribute) and isinstance(x.ctx, ast.Store) and self_attr(x)]
    if not stores:
        raise AnalysisError("%s: no attribute store found (the open-file cache was confirmed on the reference tree)" % q)
    miss = []
    for n in ast.walk(f):
        if isinstance(n, ast.If) and isinstance(n.test, ast.Compare) and len(n.test.ops) == 1 and isinstance(n.test.ops[0], (ast.NotEq, ast.Eq)):
            sides = [n.test.left, n.test.comparators[0]]
            keys = [self_attr(s_) for s_ in sides if self_attr(s_)]
            other = [s_ for s_ in sides if isinstance(s_, ast.Name)]
            if len(keys) == 1 and len(other) == 1:
                branch = n.body if isinstance(n.test.ops[0], ast.NotEq) else n.orelse
                if any(self_attr(x) == keys[0] and isinstance(x.ctx, ast.Store) and isinstance(fv.parents.get(x), ast.Assign)
                       and isinstance(fv.parents.get(x).value, ast.Name) and fv.parents.get(x).value.id == other[0].id
                       for st in branch for x in ast.walk(st)):
                    miss.append((n, branch, keys[0]))
    in_miss = set()
    if not miss:
        # the same test with an early exit (`if <file> == self.<remembered file>: return` in a helper that was inlined): the miss
        # branch is the region of the CFG that can only be entered over the "differs" edge of the comparison
        for cn in g.nodes:
            if cn.kind != "cond" or not isinstance(cn.ast, ast.Compare) or len(cn.ast.ops) != 1 or not isinstance(cn.ast.ops[0], (ast.NotEq, ast.Eq)):
                continue
            sides = [cn.ast.left, cn.ast.comparators[0]]
            keys = [self_attr(s_) for s_ in sides if self_attr(s_)]
            other = [s_ for s_ in sides if isinstance(s_, ast.Name)]
            if len(keys) != 1 or len(other) != 1:
                continue
            differs = "T" if isinstance(cn.ast.ops[0], ast.NotEq) else "F"
            free = g.reach([g.entry.id], edge_filter=lambda a_, b_, lab, cn=cn, differs=differs: not (a_ == cn.id and lab == differs))
            region = [n for n in g.nodes if n.id not in free and n.ast is not None]
            sets_key = any(isinstance(n.ast, ast.Assign) and any(self_attr(t) == keys[0] for t in n.ast.targets) and isinstance(n.ast.value, ast.Name)
                           and n.ast.value.id == other[0].id for n in region)
            if sets_key:
                miss.append((cn.ast, [], keys[0]))
                for n in region:
                    for x in _own(n):
                        in_miss.add(id(x))
    if not miss:
        raise AnalysisError("%s: cache-miss branch (`if <file> != self.<remembered file>: ... self.<remembered file> = <file>`) not found" % q)
    for n, branch, key in miss:
        for st in branch:
            for x in ast.walk(st):
                in_miss.add(id(x))
    cache = {a for x, a in stores if id(x) in in_miss}
    hist = {}
    for x, a in stores:
        if id(x) not in in_miss:
            hist.setdefault(a, []).append(x)
    for a in sorted(cache - set(hist)):
        r.ok("%s %s self.%s" % (m.rel, q, a), "stored only in the cache-miss branch: a function of the file it was loaded from")
    for a, sts in sorted(hist.items()):
        all_sts = [z for z, b in stores if b == a]
        store_nodes = [n.id for n in g.nodes if n.ast is not None and any(x is y for x in all_sts for y in _own(n))]
        readers = [n for n in g.nodes if n.ast is not None and any(self_attr(y) == a and isinstance(y.ctx, ast.Load) for y in _own(n))]
        reach = g.reach([g.entry.id], avoid=store_nodes, skip_labels=("exc",))
        stale = [n for n in readers if n.id in reach or n.id == g.entry.id]
        # a read in the very node that stores (x = f(self.a)) counts as well when the node itself is reachable without a store
        for n in readers:
            if n.id in store_nodes:
                preds_reach = g.reach([g.entry.id], avoid=[i for i in store_nodes if i != n.id], skip_labels=("exc",))
                if n.id in preds_reach and n not in stale:
                    stale.append(n)
        if stale:
            r.violation(m.rel, q, "self.%s is stored outside the file cache and read by a later query (`%s`)" % (a, norm(stale[0].label)[:60]),
                        "an answer of the reader depends on the queries made before it: `self.%s` is written at line %d on a path that "
                        "is not the cache-miss branch and is read at line %d before this call has stored it, so read / "
                        "get_continuous_blocks / read_vector on a long-lived reader can differ from the same query on a fresh one "
                        "(blocks skipped or repeated)" % (a, sts[0].lineno, stale[0].line), line=stale[0].line)
        else:
            r.ok("%s:%s %s self.%s" % (m.rel, sts[0].lineno, q, a), "stored on every query but never read before it is stored in the same call")
    r.guard(3)
    return r


def _own(n):
    """expression nodes evaluated by CFG node n itself (a compound statement's node stands for its header only)"""
    a = n.ast
    if isinstance(a, (ast.If, ast.While)):
        return ast.walk(a.test)
    if isinstance(a, ast.For):
        return ast.walk(a.iter)
    if isinstance(a, (ast.Try, ast.With, ast.FunctionDef)):
        return iter(())
    return ast.walk(a)


def _pattern_provenance(m, fn, e, depth=0, seen=None):
    """("safe" | "unsafe" | "unknown", culprit text) for an expression that ends up as (part of) a glob pattern: safe = string
    literals, the GLOB_* constants of list_drf, glob.escape(...), and joins / sums / tuples of safe parts; a local is what its
    definitions are; a parameter is what the call sites in the module pass (extra positional arguments for *args); unsafe =
    data from outside (a parameter of a public function, an attribute of self) reaching the pattern unescaped."""
    seen = seen if seen is not None else set()

    def comb(parts):
        res = [r_ for r_ in parts]
        for r_ in res:
            if r_[0] == "unsafe":
                return r_
        for r_ in res:
            if r_[0] == "unknown":
                return r_
        return ("safe", "")
    if isinstance(e, ast.Constant) and isinstance(e.value, str):
        return ("safe", "")
    if isinstance(e, ast.Starred):
        return _pattern_provenance(m, fn, e.value, depth, seen)
    d = pyfront.dotted(e) or ""
    if d.startswith("list_drf.GLOB_") or d.startswith("GLOB_"):
        return ("safe", "")
    if isinstance(e, ast.Call):
        cn = pyfront.call_name(e) or ""
        if cn == "glob.escape":
            return ("safe", "")
        if cn in ("os.path.join", "tuple", "list"):
            return comb([_pattern_provenance(m, fn, a_, depth, seen) for a_ in e.args])
        if isinstance(e.func, ast.Attribute) and e.func.attr in ("replace", "format", "rstrip", "lstrip", "strip"):
            return comb([_pattern_provenance(m, fn, e.func.value, depth, seen)] + [_pattern_provenance(m, fn, a_, depth, seen) for a_ in e.args
                                                                                       if not isinstance(a_, ast.Constant)])
        # any other call: data flows through it (abspath, normpath, str, sorted ...); what it adds is not known
        recv = [e.func.value] if isinstance(e.func, ast.Attribute) and not cn.startswith(("os.", "glob.", "re.", "np.")) else []
        inner = comb([_pattern_provenance(m, fn, a_, depth, seen) for a_ in recv + list(e.args) + [k_.value for k_ in e.keywords]] or [("unknown", cn)])
        return inner if inner[0] == "unsafe" else ("unknown", norm(ast.unparse(e))[:40])
    if isinstance(e, (ast.ListComp, ast.GeneratorExp, ast.SetComp)):
        return comb([_pattern_provenance(m, fn, e.elt, depth, seen)] + [_pattern_provenance(m, fn, g_.iter, depth, seen) for g_ in e.generators])
    if isinstance(e, ast.Subscript):
        return _pattern_provenance(m, fn, e.value, depth, seen)
    if isinstance(e, ast.IfExp):
        return comb([_pattern_provenance(m, fn, e.body, depth, seen), _pattern_provenance(m, fn, e.orelse, depth, seen)])
    if isinstance(e, (ast.Tuple, ast.List)):
        return comb([_pattern_provenance(m, fn, x, depth, seen) for x in e.elts])
    if isinstance(e, ast.BinOp) and isinstance(e.op, ast.Add):
        return comb([_pattern_provenance(m, fn, e.left, depth, seen), _pattern_provenance(m, fn, e.right, depth, seen)])
    if isinstance(e, ast.Attribute):
        if isinstance(e.value, ast.Name) and e.value.id == "self":
            return ("unsafe", norm(ast.unparse(e)))
        return ("unknown", norm(ast.unparse(e))[:40])
    if isinstance(e, ast.Name):
        key = (id(fn), e.id)
        if key in seen or depth > 4:
            return ("unknown", e.id)
        seen = seen | {key}
        params = [a_.arg for a_ in fn.args.args + fn.args.kwonlyargs]
        var = fn.args.vararg.arg if fn.args.vararg else None
        defs = [a_.value for a_ in pyfront.walk_no_nested(fn) if isinstance(a_, ast.Assign) and any(
            isinstance(t, ast.Name) and t.id == e.id for t in a_.targets)]
        loop_targets = [lp for lp in pyfront.walk_no_nested(fn) if isinstance(lp, (ast.For, ast.comprehension)) and any(
            isinstance(x, ast.Name) and x.id == e.id for x in ast.walk(lp.target))]
        parts = [_pattern_provenance(m, fn, d_, depth + 1, seen) for d_ in defs]
        for lp in loop_targets:
            parts.append(_pattern_provenance(m, fn, lp.iter, depth + 1, seen))
        if e.id in params or e.id == var:
            private = fn.name.startswith("_") and not fn.name.startswith("__")
            sites = []
            for q2, f2 in m.functions.items():
                for c in pyfront.walk_no_nested(f2):
                    if isinstance(c, ast.Call) and (pyfront.call_name(c) or "").split(".")[-1] == fn.name:
                        sites.append((f2, c))
            if not private or not sites:
                parts.append(("unsafe", e.id) if not defs else ("unknown", e.id))
            else:
                pos = [p_ for p_ in params if p_ != "self"]
                for f2, c in sites:
                    if e.id == var:
                        extra = c.args[len(pos):]
                        parts += [_pattern_provenance(m, f2, a_, depth + 1, seen) for a_ in extra]
                    else:
                        k_ = pos.index(e.id) if e.id in pos else None
                        arg = c.args[k_] if k_ is not None and k_ < len(c.args) else pyfront.kwarg(c, e.id)
                        if arg is None:
                            continue
                        parts.append(_pattern_provenance(m, f2, arg, depth + 1, seen))
        if not parts:
            return ("unknown", e.id)
        return comb(parts)
    return ("unknown", norm(ast.unparse(e))[:40])


def r9_directory_names_are_not_patterns(repo=None, rid="C08.R9", modules=("digital_rf_hdf5", "digital_metadata")):
    """The reader finds channels, properties files and data files with glob.glob on `os.path.join(<directory>, ..., <pattern>)`.
    A directory name is data, not a pattern: `ch[1]` as pattern text matches `ch1`, so the channel is read with another channel's
    rate and cadences (bounds right, every read empty).  Provenance of every pattern given to glob.glob (through locals, helper
    parameters and their call sites): it is made of string literals, the GLOB_* constants of list_drf and glob.escape(...) only;
    a parameter of a public function or an attribute of the reader object that reaches it unescaped is reported."""
    r = Rule(rid, "directory names never reach glob.glob as pattern text (glob.escape on every variable path component)")
    n = 0
    for mod_name in modules:
        m = pyfront.mod(mod_name, repo)
        for q, f in m.functions.items():
            if "<locals>" in q:
                continue
            for c in pyfront.walk_no_nested(f):
                if not (isinstance(c, ast.Call) and pyfront.call_name(c) == "glob.glob" and c.args):
                    continue
                n += 1
                verdict, culprit = _pattern_provenance(m, f, c.args[0])
                site = "%s:%s %s `%s`" % (m.rel, c.lineno, q, norm(ast.unparse(c))[:70])
                if verdict == "unsafe":
                    r.violation(m.rel, q, norm(ast.unparse(c))[:90], "the path component `%s` is taken as pattern text: a directory named "
                                "`ch[1]` matches `ch1`, so one channel is found, or read with the properties of, another (bounds right, "
                                "every read empty; a top-level directory `rec[1]` cannot be opened at all)" % culprit[:40],
                                line=c.lineno)
                elif verdict == "unknown":
                    raise AnalysisError("%s: provenance of the glob pattern `%s` not resolved (at `%s`)" % (q, norm(ast.unparse(c.args[0]))[:50], culprit))
                else:
                    r.ok(site, "the pattern is made of literals, GLOB_* constants and glob.escape()d path components only")
    if n < 3:
        raise AnalysisError("only %d glob.glob calls found in the reader modules (6 confirmed on the reference tree)" % n)
    r.guard(3)
    return r


def r10_last_answer_keyed_by_all_arguments(repo=None):
    """'the answers of read, get_continuous_blocks and read_vector are coherent': an answer (or part of one, such as the list of
    candidate files) that a reader keeps from the previous query may be used again only under a key that holds everything it was
    computed from.  Single-entry memo `if K != self.<key>: self.<value> = V; self.<key> = K` in the public readers' methods
    (private helpers inlined): on the CFG, the "differs" edge of the comparison guards the stores; the parameters in the backward
    slice of V (flow-insensitive def-use over locals, a local depending on what it was computed from, loop targets on their
    iterables) must all be in the slice of K.  Attributes of self are state of the object, not arguments of the query."""
    r = Rule("C08.R10", "what a reader keeps from the last query is keyed by every argument it was computed from")
    m = pyfront.mod("digital_rf_hdf5", repo)
    n_methods = 0
    n_memos = 0
    for cls in (RD, TL):
        for name, fn0 in m.methods(cls).items():
            if name.startswith("__"):
                continue
            q = "%s.%s" % (cls, name)
            try:
                fv = m.flat(q)
            except AnalysisError:
                continue
            f = fv.fn()
            n_methods += 1
            if not any(isinstance(x, ast.Attribute) and isinstance(x.ctx, ast.Store) and isinstance(x.value, ast.Name) and x.value.id == "self" for x in ast.walk(f)):
                continue
            g = fv.cfg()
            params = {a.arg for a in f.args.args + f.args.kwonlyargs + [x for x in (f.args.vararg, f.args.kwarg) if x is not None] if a.arg != "self"}
            deps = {}
            for a in ast.walk(f):
                if isinstance(a, ast.Assign):
                    used = {x.id for x in ast.walk(a.value) if isinstance(x, ast.Name)}
                    for t in a.targets:
                        for x in ast.walk(t):
                            if isinstance(x, ast.Name) and isinstance(x.ctx, ast.Store):
                                deps.setdefault(x.id, set()).update(used)
                elif isinstance(a, (ast.For, ast.comprehension)):
                    used = {x.id for x in ast.walk(a.iter) if isinstance(x, ast.Name)}
                    for x in ast.walk(a.target):
                        if isinstance(x, ast.Name):
                            deps.setdefault(x.id, set()).update(used)

            def closure(expr):
                work = [x.id for x in ast.walk(expr) if isinstance(x, ast.Name)]
                seen = set()
                while work:
                    v = work.pop()
                    if v in seen or v == "self":
                        continue
                    seen.add(v)
                    work.extend(deps.get(v, ()))
                return seen
            for cn in g.nodes:
                if cn.kind != "cond" or not isinstance(cn.ast, ast.Compare) or len(cn.ast.ops) != 1 or not isinstance(cn.ast.ops[0], (ast.Eq, ast.NotEq)):
                    continue
                sides = [cn.ast.left, cn.ast.comparators[0]]
                keyside = [s_ for s_ in sides if isinstance(s_, ast.Attribute) and isinstance(s_.value, ast.Name) and s_.value.id == "self"]
                other = [s_ for s_ in sides if s_ not in keyside]
                if len(keyside) != 1 or len(other) != 1:
                    continue
                kattr = keyside[0].attr
                differs = "T" if isinstance(cn.ast.ops[0], ast.NotEq) else "F"
                free = g.reach([g.entry.id], edge_filter=lambda a_, b_, lab, cn=cn, differs=differs: not (a_ == cn.id and lab == differs))
                region = [n for n in g.nodes if n.id not in free and n.ast is not None]
                sets_key = [n for n in region if isinstance(n.ast, ast.Assign) and any(
                    isinstance(t, ast.Attribute) and isinstance(t.value, ast.Name) and t.value.id == "self" and t.attr == kattr for t in n.ast.targets)]
                if not sets_key:
                    continue
                kdeps = closure(other[0]) | closure(sets_key[0].ast.value)
                for n in region:
                    if not isinstance(n.ast, ast.Assign) or n in sets_key:
                        continue
                    for t in n.ast.targets:
                        if isinstance(t, ast.Attribute) and isinstance(t.value, ast.Name) and t.value.id == "self":
                            n_memos += 1
                            need = sorted((closure(n.ast.value) & params) - kdeps)
                            site = "%s:%s %s self.%s (key self.%s)" % (m.rel, n.line, q, t.attr, kattr)
                            if need:
                                r.violation(m.rel, q, "self.%s = %s under `%s`" % (t.attr, norm(ast.unparse(n.ast.value))[:50], norm(ast.unparse(cn.ast))[:50]),
                                            "the value kept from the last query depends on %s, which the key does not hold: a later query "
                                            "that differs only in that argument (another channel with other cadences, the same sample "
                                            "range) is answered from the previous one's value" % ", ".join("`%s`" % x for x in need), line=n.line)
                            else:
                                r.ok(site, "depends on nothing but the key (and the object's own attributes)")
    if n_methods < 10:
        raise AnalysisError("only %d reader methods analysed" % n_methods)
    if n_memos < 1:
        raise AnalysisError("no single-entry memo found (the open-file cache of the per-directory reader was confirmed on the reference tree)")
    r.guard(1)
    return r


def r12_last_sample_from_the_last_index_row(repo=None):
    """'get_bounds is coherent with read': the last sample of the newest file is (start of the *last* block) + (samples stored behind
    that block's first row), which is what read() returns for the end of the file.  Every return of `_get_last_sample` must take
    the block from the last row of rf_data_index (`[-1]`): a return that reads a fixed other row (the first one, "continuous data
    has one row") is wrong for every file with more rows than it assumes - continuous data written with compression or checksums
    gets one row per write call - and get_bounds then ends before samples that read() returns."""
    r = Rule("C08.R12", "the last sample of a file is computed from the last row of its block index on every path")
    m = pyfront.mod("digital_rf_hdf5", repo)
    # by role: the method of the per-directory reader that takes a file name, reads both the length of rf_data (`.shape`) and
    # rf_data_index of that file and returns a number (whatever it is called)
    cands = []
    for q_, f_ in m.functions.items():
        if not q_.startswith(TL + ".") or "<locals>" in q_ or q_ == TL + "._read":
            continue
        consts = {y.value for y in ast.walk(f_) if isinstance(y, ast.Constant) and isinstance(y.value, str)}
        if {"rf_data", "rf_data_index"} <= consts and any(isinstance(y, ast.Attribute) and y.attr == "shape" for y in ast.walk(f_)) \
                and any(isinstance(y, ast.Call) and pyfront.call_name(y) == "h5py.File" for y in ast.walk(f_)) \
                and not any(isinstance(y, ast.Attribute) and isinstance(y.ctx, ast.Store) and pyfront.dotted(y.value) == "self" for y in ast.walk(f_)) \
                and any(isinstance(y, ast.Return) and y.value is not None and not isinstance(y.value, ast.Constant) for y in ast.walk(f_)):
            cands.append(q_)        # (the helpers that (re)load the open-file cache store attributes and return nothing)
    if len(cands) != 1:
        raise AnalysisError("%s: the method computing the last sample of a file (reads rf_data.shape and rf_data_index) was not found exactly once (%s)" % (TL, cands))
    q = cands[0]
    f = m.flat(q).fn()
    idx_vars = {n.targets[0].id for n in ast.walk(f) if isinstance(n, ast.Assign) and len(n.targets) == 1 and isinstance(n.targets[0], ast.Name)
                and any(isinstance(y, ast.Constant) and y.value == "rf_data_index" for y in ast.walk(n.value))}
    if not idx_vars:
        raise AnalysisError("%s: the local holding <file>[\"rf_data_index\"] was not found" % q)
    defs = {}
    for n in ast.walk(f):
        if isinstance(n, ast.Assign) and len(n.targets) == 1 and isinstance(n.targets[0], ast.Name):
            defs.setdefault(n.targets[0].id, []).append(n.value)

    def rows(e, depth=0, seen=()):
        """constant row numbers of the index read (transitively through locals) by expression e"""
        out = set()
        for x in ast.walk(e):
            if isinstance(x, ast.Subscript) and isinstance(x.value, ast.Name) and x.value.id in idx_vars:
                sl = x.slice.elts[0] if isinstance(x.slice, ast.Tuple) and x.slice.elts else x.slice
                v = pyfront.const(sl)
                if isinstance(sl, ast.UnaryOp) and isinstance(sl.op, ast.USub) and isinstance(pyfront.const(sl.operand), int):
                    v = -pyfront.const(sl.operand)
                out.add(v if isinstance(v, int) else "?")
            elif isinstance(x, ast.Name) and x.id in defs and x.id not in seen and x.id not in idx_vars and depth < 4:
                for d in defs[x.id]:
                    out |= rows(d, depth + 1, seen + (x.id,))
        return out
    rets = [x for x in ast.walk(f) if isinstance(x, ast.Return) and x.value is not None and not (isinstance(x.value, ast.Constant) and x.value.value is None)]
    n = 0
    for rt in rets:
        rs = rows(rt.value)
        if not rs:
            continue
        n += 1
        site = "%s:%s %s `%s`" % (m.rel, rt.lineno, q, norm(ast.unparse(rt))[:60])
        other = sorted(x for x in rs if x != -1 and x != "?")
        if other:
            r.violation(m.rel, q, norm(ast.unparse(rt))[:80], "this return computes the last sample from row %s of the block index instead of the last "
                        "row: for a file with more index rows (gapped data; continuous data written with compression or checksum has "
                        "one row per write call) get_bounds reports an end before samples that read() returns" % other[0], line=rt.lineno)
        elif rs == {-1}:
            r.ok(site, "uses the last row of the block index")
        else:
            raise AnalysisError("%s: which index row `%s` reads was not recognised" % (q, norm(ast.unparse(rt))[:60]))
    if n < 1:
        raise AnalysisError("%s: no return computed from the block index found" % q)
    r.guard(1)
    return r


COPIERS = ("np.array", "numpy.array", "np.copy", "numpy.copy", "np.ascontiguousarray", "np.concatenate", "numpy.concatenate")


def r11_cache_hands_out_no_views(repo=None, rid="C08.R11"):
    """'read returns the samples that were written', also the second time: the per-directory reader keeps the last file open between
    queries.  What it keeps must be the *data set object* (every slice of an h5py data set is a fresh array read from the file),
    or, if it keeps the samples themselves, every slice handed on must be copied.  A slice of a cached ndarray is a view: the
    arrays read / read_vector return are then windows into the cache, and a caller that changes them in place (detrending,
    scaling) changes what the next read of overlapping samples returns.  Which-API-hands-out-shared-storage rule on `_read`."""
    r = Rule(rid, "the open-file cache of _read keeps the data set object (or copies what it hands out): no view of cached samples reaches the caller")
    m = pyfront.mod("digital_rf_hdf5", repo)
    q = TL + "._read"
    fv = m.flat(q)
    f = fv.fn()

    def self_attr(x):
        return x.attr if isinstance(x, ast.Attribute) and isinstance(x.value, ast.Name) and x.value.id == "self" else None
    # attributes of self sliced to produce the data: `<x> = self.A[lo:hi]`
    sliced = {}
    for n in ast.walk(f):
        if isinstance(n, ast.Subscript) and isinstance(n.ctx, ast.Load) and self_attr(n.value) and isinstance(n.slice, (ast.Slice, ast.Tuple)):
            sliced.setdefault(self_attr(n.value), []).append(n)
    defs = {}
    for n in ast.walk(f):
        if isinstance(n, ast.Assign) and len(n.targets) == 1 and self_attr(n.targets[0]) in sliced:
            defs.setdefault(self_attr(n.targets[0]), []).append(n)
    data_attrs = [a for a in sliced if a in defs and any(isinstance(d.value, ast.Subscript) or isinstance(d.value, ast.Call) for d in defs[a])]
    # the sample data set: the attribute whose definition subscripts the file with the constant "rf_data"
    cands = [a for a in data_attrs if any(isinstance(y, ast.Constant) and y.value == "rf_data" for d in defs[a] for y in ast.walk(d.value))]
    if len(cands) != 1:
        raise AnalysisError("%s: the attribute holding the samples of the open file (defined from <file>[\"rf_data\"]) was not found exactly once (%s)" % (q, sorted(cands)))
    a = cands[0]
    par = fv.parents
    for d in defs[a]:
        v = d.value
        site = "%s:%s %s `%s`" % (m.rel, d.lineno, q, norm(ast.unparse(d))[:70])
        handle = isinstance(v, ast.Subscript) and isinstance(v.slice, ast.Constant) and isinstance(v.slice.value, str)
        if handle:
            r.ok(site, "the cache keeps the data set object: each slice of it is read from the file into a fresh array")
            continue
        materialised = (isinstance(v, ast.Subscript) and isinstance(v.value, ast.Subscript)) or (
            isinstance(v, ast.Call) and (pyfront.call_name(v) or "").split(".")[-1] in ("asarray", "array", "asanyarray", "ascontiguousarray")) or (
            isinstance(v, ast.Attribute) and v.attr == "value")
        if not materialised:
            raise AnalysisError("%s: what `self.%s = %s` keeps (data set object or samples) was not recognised" % (q, a, norm(ast.unparse(v))[:60]))
        # the samples themselves are kept: every slice handed on must be copied
        uncopied = []
        for sl in sliced[a]:
            p_ = par.get(sl)
            copied = (isinstance(p_, ast.Call) and (pyfront.call_name(p_) in COPIERS)) or (
                isinstance(p_, ast.Attribute) and p_.attr in ("copy", "astype") and isinstance(par.get(p_), ast.Call))
            if not copied:
                uncopied.append(sl)
        if uncopied:
            r.violation(m.rel, q, norm(ast.unparse(d))[:80], "the cache keeps the samples of the open file as an array and `%s` (line %d) hands a "
                        "view of it on: the arrays returned by read / read_vector share memory with the cache, so a caller that changes "
                        "them in place changes what the next read of overlapping samples returns (read no longer returns what was "
                        "written)" % (norm(ast.unparse(uncopied[0]))[:50], uncopied[0].lineno), line=d.lineno)
        else:
            r.ok(site, "samples kept as an array, every slice handed on is copied")
    r.guard(1)
    return r


def rules(repo=None):
    return [lambda: r12_last_sample_from_the_last_index_row(repo), lambda: r11_cache_hands_out_no_views(repo), lambda: r10_last_answer_keyed_by_all_arguments(repo), lambda: r9_directory_names_are_not_patterns(repo), lambda: r8_no_history_state(repo), lambda: r1_one_pipeline(repo), lambda: r2_vector_guards(repo), lambda: r3_guard_on_sample_axis(repo),
            lambda: c01.r3_exact_lookup(repo, rid="C08.R4"), lambda: r5_subchannel_column(repo),
            lambda: r6_lossless_conversion(repo), lambda: c01.r6_exact_index_use(repo, rid="C08.R7")]


EXPLANATION = (
    'R12: every return of _get_last_sample that reads the block index reads its last row ([-1]). '
    'R11: the attribute of the per-directory reader from which _read slices the samples is bound to the data set object '
    '(<file>["rf_data"]), so every slice is a fresh array; if it is bound to materialised samples every slice handed on must be copied. '
    'R1: read() and get_continuous_blocks() call _get_file_list, _read and _combine_blocks with identical arguments '
    'except len_only; the two branches of _read use the same slice bounds and key; _combine_blocks specialised for '
    'len_only=True is the image of its specialisation for len_only=False under array -> len(array) (concatenate -> +, '
    'len(x) -> x). R2: the three guards of read_vector_raw raise IOError on every path to its return; the wrappers reach '
    'data only through it. R3: no squeeze/ravel/flatten of the array between taking it from read() and the length guard. '
    "R4: exact file lookup (C01.R3). R5: the subchannel branch indexes rf_data with the same row slice. R6: numpy's "
    'promotion table joined with the element types: which conversions are exact. R7: block-index entries only through '
    'int(). R8: every attribute _read stores is either loaded in the cache-miss branch keyed by the file name or never '
    'read before it is stored in the same call (no query-history state).  R9: every variable component of a path given to'
    ' glob.glob in the reader modules is wrapped in glob.escape (a directory named ch[1] is not a pattern). Does NOT '
    'decide the split/merge relation or bounds arithmetic. R10: single-entry memos of the reader classes (`if K != '
    'self.key: self.value = V; self.key = K`, found as the CFG region behind the differs edge of the comparison, helpers '
    'inlined): every parameter in the def-use closure of V is in the closure of K. R1 also: _combine_blocks walks the '
    'block dictionary in sorted key order. R6 also: `.view(<scalar type>)` in read_vector (dtype.type, np.int16 ...) is a'
    ' violation - a scalar type carries no byte order.')
TECHNIQUE = ('Python ast; sibling comparison of the data and length pipelines (homomorphic image under len); CFG must-pass for guards; float-taint; promotion table')
ASSUMPTIONS = ["numpy.promote_types table for float x integer types (documented)", "h5py dataset slicing returns rows [a, b)"]
FILES = ["python/digital_rf/digital_rf_hdf5.py", "python/digital_rf/digital_metadata.py"]
