"""C08 -- Reader query coherence (partial).

Decides: data and length queries share one pipeline, vector reads pass the three guards, the length guard acts on
the sample axis, exact file lookup (C01.R3), sub-channel selection is a column of the same slice, the lossless
conversion table.  Not decided: the split/merge relation itself and bounds arithmetic.
"""
from __future__ import annotations

import ast

from ..core import Rule, AnalysisError, norm
from .. import pyfront
from . import c01

RD = "DigitalRFReader"
TL = "_top_level_dir_properties"


def _call(fn, name):
    return [c for c in pyfront.walk_no_nested(fn) if isinstance(c, ast.Call) and pyfront.call_name(c) == name]


def _args(c):
    return [norm(ast.unparse(a)) for a in c.args], {k.arg: norm(ast.unparse(k.value)) for k in c.keywords}


def r1_one_pipeline(repo=None):
    r = Rule("C08.R1", "block lengths and block data come from one pipeline (sibling comparison)")
    m = pyfront.mod("digital_rf_hdf5", repo)
    a = m.fn(RD + ".read")
    b = m.fn(RD + ".get_continuous_blocks")
    for name in ("self._get_file_list", "top_level_obj._read", "self._combine_blocks"):
        ca, cb = _call(a, name), _call(b, name)
        if len(ca) != 1 or len(cb) != 1:
            r.violation(m.rel, RD + ".get_continuous_blocks", "%s called %d / %d times" % (name, len(ca), len(cb)),
                        "read() and get_continuous_blocks() do not both go through %s exactly once" % name, line=b.lineno)
            continue
        (pa, ka), (pb, kb) = _args(ca[0]), _args(cb[0])
        site = "%s:%s/%s %s" % (m.rel, ca[0].lineno, cb[0].lineno, name)
        if name == "self._get_file_list":
            # same expressions modulo the local names of the property dict
            na = [x.replace("file_properties", "P") for x in pa]
            nb = [x.replace("file_properties", "P") for x in pb]
            if na == nb and ka == kb:
                r.ok(site, "identical arguments in both queries")
            else:
                r.violation(m.rel, RD + ".get_continuous_blocks", "_get_file_list(%s) vs read: (%s)" % (", ".join(pb), ", ".join(pa)),
                            "the two queries look at different candidate files, so reported lengths can differ from returned data",
                            line=cb[0].lineno)
        elif name == "top_level_obj._read":
            ka2 = dict(ka)
            kb2 = dict(kb)
            la, lb = ka2.pop("len_only", None), kb2.pop("len_only", None)
            ka2.pop("sub_channel", None)
            if pa[:4] == pb[:4] and la == "False" and lb == "True" and not kb2 and not ka2:
                r.ok(site, "same (start, end, files, dict) arguments; only len_only (False/True) and sub_channel differ")
            else:
                r.violation(m.rel, RD + ".get_continuous_blocks", "_read(%s, %s) vs read: (%s, %s)" % (pb, kb, pa, ka),
                            "length query and data query scan different ranges", line=cb[0].lineno)
        else:
            if pa == pb and ka == {} and kb == {"len_only": "True"}:
                r.ok(site, "same dictionary; len_only only in the length query")
            else:
                r.violation(m.rel, RD + ".get_continuous_blocks", "_combine_blocks(%s, %s)" % (pb, kb), "blocks are merged "
                            "differently for lengths and data", line=cb[0].lineno)
    # inside _read: both branches use the same two bounds
    rd = m.fn(TL + "._read")
    ifs = [n for n in ast.walk(rd) if isinstance(n, ast.If) and norm(ast.unparse(n.test)) == "not len_only"]
    if len(ifs) != 1:
        raise AnalysisError("%s._read: `if not len_only` not found" % TL)
    data_src = norm(ast.unparse(ast.Module(body=ifs[0].body, type_ignores=[])))
    len_src = norm(ast.unparse(ast.Module(body=ifs[0].orelse, type_ignores=[])))
    ok_len = "cont_data_dict[read_start_sample] = read_stop_index - read_start_index" in len_src
    ok_data = data_src.count("read_start_index:read_stop_index") == 2 and "cont_data_dict[read_start_sample] = data" in data_src
    if ok_len and ok_data:
        r.ok("%s:%s %s._read" % (m.rel, ifs[0].lineno, TL), "length = read_stop_index - read_start_index; data = rf_data[read_start_index:"
             "read_stop_index]: the same two bounds, stored under the same key")
    else:
        r.violation(m.rel, TL + "._read", (len_src if not ok_len else data_src)[:120], "the length branch and the data branch of "
                    "_read do not use the same slice bounds / key", line=ifs[0].lineno)
    cb_ = m.fn(RD + "._combine_blocks")
    src = norm(ast.unparse(cb_))
    if "if len_only: present_arr += arr else: present_arr = np.concatenate((present_arr, arr))" in src and \
            "if len_only: next_cont_sample = key + arr else: next_cont_sample = key + len(arr)" in src:
        r.ok("%s:%s %s._combine_blocks" % (m.rel, cb_.lineno, RD), "lengths are added where arrays are concatenated; continuity uses "
             "key + arr / key + len(arr)")
    else:
        r.violation(m.rel, RD + "._combine_blocks", "merge logic", "length merging and data merging diverge", line=cb_.lineno)
    r.guard(5)
    return r


def r2_vector_guards(repo=None):
    r = Rule("C08.R2", "vector reads fail instead of returning partial or shifted data (must-pass)")
    m = pyfront.mod("digital_rf_hdf5", repo)
    q = RD + ".read_vector_raw"
    g = m.cfg(q)
    guards = {"len(data_dict) > 1": None, "len(data_dict) == 0": None, "len(z) != vector_length": None}
    for n in g.nodes:
        if n.kind == "cond" and n.label in guards:
            guards[n.label] = n
    rets = [n for n in g.nodes if n.kind == "return"]
    if not rets:
        raise AnalysisError("read_vector_raw has no return")
    for lab, n in guards.items():
        if n is None:
            r.violation(m.rel, q, "guard `%s` missing" % lab, "a vector read over a range with gaps / without data / with missing "
                        "samples would return partial or shifted data instead of failing", line=m.fn(q).lineno)
            continue
        ts = [b for b, l in g.succ[n.id] if l == "T"]
        treach = g.reach(ts, skip_labels=("exc",))
        raises = [x for x in g.nodes if x.id in treach and x.kind == "raise"]
        rerr = raises and all("IOError" in x.label for x in raises) and not any(x.id in treach for x in rets)
        dom = all(x.id not in g.reach([g.entry.id], avoid=[n.id], skip_labels=("exc",)) for x in rets)
        if rerr and dom:
            r.ok("%s:%s %s `%s`" % (m.rel, n.line, q, lab), "raises IOError; on every path to the return")
        else:
            r.violation(m.rel, q, "guard `%s`" % lab, "the guard does not raise IOError or can be bypassed on a path to the return",
                        line=n.line)
    # wrappers reach data only through read_vector_raw / read_vector
    for w, via in (("read_vector", "self.read_vector_raw"), ("read_vector_1d", "self.read_vector"), ("read_vector_c81d", "self.read_vector")):
        f = m.fn(RD + "." + w)
        direct = _call(f, "self.read") + _call(f, "self._read")
        if _call(f, via) and not direct:
            r.ok("%s:%s %s.%s" % (m.rel, f.lineno, RD, w), "obtains data only through %s" % via)
        else:
            r.violation(m.rel, RD + "." + w, "bypasses %s" % via, "a vector read path avoids the guards of read_vector_raw", line=f.lineno)
    r.guard(6)
    return r


AXIS_DROPPERS = ("squeeze", "ravel", "flatten")


def r3_guard_on_sample_axis(repo=None):
    r = Rule("C08.R3", "the length guard is applied on the sample axis (no axis-dropping operation before it)")
    m = pyfront.mod("digital_rf_hdf5", repo)
    q = RD + ".read_vector_raw"
    f = m.fn(q)
    g = m.cfg(q)
    take = [n for n in g.nodes if isinstance(n.ast, ast.Assign) and "data_dict.popitem()" in n.label]
    guard = [n for n in g.nodes if n.kind == "cond" and n.label == "len(z) != vector_length"]
    if not take or not guard:
        raise AnalysisError("read_vector_raw: popitem() / length guard not found")
    between = g.reach([take[0].id], avoid=[guard[0].id], skip_labels=("exc",)) - {take[0].id}
    bad = None
    for n in g.nodes:
        if n.id in between and n.ast is not None:
            for c in pyfront.node_calls(n):
                if isinstance(c.func, ast.Attribute) and pyfront.dotted(c.func.value) == "z":
                    if c.func.attr in AXIS_DROPPERS and not (c.func.attr == "squeeze" and (c.args or pyfront.kwarg(c, "axis") is not None)):
                        bad = (n, c)
                    if c.func.attr == "reshape" and "-1" in ast.unparse(c) and "," not in ast.unparse(c):
                        bad = (n, c)
    if bad:
        r.violation(m.rel, q, norm(ast.unparse(bad[0].ast)), "the array is squeezed/flattened before its length is compared with "
                    "vector_length: for vector_length == 1 (or == number of subchannels) the sample axis itself is dropped, so a "
                    "fully covered read fails or is mis-sized", line=bad[0].line)
    else:
        r.ok("%s:%s %s" % (m.rel, guard[0].line, q), "len(z) is taken on axis 0 of the array returned by read(); any squeeze happens "
             "after the guard")
    # after the guard only the subchannel axis may be dropped
    after = g.reach([b for b, l in g.succ[guard[0].id] if l == "F"], skip_labels=("exc",))
    for n in g.nodes:
        if n.id in after and n.ast is not None:
            for c in pyfront.node_calls(n):
                if isinstance(c.func, ast.Attribute) and c.func.attr == "squeeze" and pyfront.dotted(c.func.value) == "z":
                    ax = pyfront.kwarg(c, "axis", 0)
                    if pyfront.const(ax) == 1:
                        r.ok("%s:%s %s `%s`" % (m.rel, n.line, q, norm(ast.unparse(c))), "drops only the subchannel axis")
                    else:
                        r.violation(m.rel, q, norm(ast.unparse(c)), "squeeze without axis=1 can drop the sample axis of a length-1 "
                                    "vector", line=n.line)
    r.guard(1)
    return r


def r5_subchannel_column(repo=None):
    r = Rule("C08.R5", "selecting a subchannel is taking a column of the same row slice")
    m = pyfront.mod("digital_rf_hdf5", repo)
    rd = m.fn(TL + "._read")
    subs = [n for n in ast.walk(rd) if isinstance(n, ast.Subscript) and pyfront.dotted(n.value) == "self.rf_data"]
    forms = sorted(norm(ast.unparse(s.slice)) for s in subs)
    if forms == ["(slice(read_start_index, read_stop_index, None), sub_channel)", "slice(read_start_index, read_stop_index, None)"] or \
            forms == sorted(["read_start_index:read_stop_index", "(read_start_index:read_stop_index, sub_channel)"]) or \
            forms == sorted(["read_start_index:read_stop_index", "read_start_index:read_stop_index, sub_channel"]):
        r.ok("%s:%s %s._read" % (m.rel, rd.lineno, TL), "rf_data[a:b] and rf_data[a:b, sub_channel] with the same a, b")
    else:
        r.violation(m.rel, TL + "._read", "rf_data subscripts: %s" % forms, "the subchannel branch does not take the column of the "
                    "same row slice as the full read", line=rd.lineno)
    r.guard(1)
    return r


SIG = {"f2": 11, "f4": 24, "f8": 53}
INTFLOAT = {1: "f2", 2: "f4", 4: "f8", 8: "f8"}


def promote(fk, kind, size):
    """numpy.promote_types(fk, <kind><size>) for float fk and integer/float element types (documented table)."""
    order = ["f2", "f4", "f8"]
    other = INTFLOAT[size] if kind in "iu" else "f%d" % size
    return order[max(order.index(fk), order.index(other))]


def r6_lossless_conversion(repo=None):
    r = Rule("C08.R6", "read_vector converts to a floating type that represents every element value exactly (tables)")
    m = pyfront.mod("digital_rf_hdf5", repo)
    q = RD + ".read_vector"
    f = m.fn(q)
    consts = []
    for c in _call(f, "np.promote_types"):
        consts.append((pyfront.const(c.args[0]), c))
    if len(consts) != 2:
        raise AnalysisError("read_vector: expected two np.promote_types calls")
    got = sorted(str(c[0]) for c in consts)
    if got != ["c8", "f4"]:
        r.violation(m.rel, q, "promote_types constants %s" % got, "the documented floating types are float32 / complex64 as the "
                    "smallest safe types", line=consts[0][1].lineno)
    base = "f4"
    for c, _ in consts:
        if str(c).startswith("f"):
            base = str(c)
        elif str(c).startswith("c"):
            base_c = "f%d" % (int(str(c)[1:]) // 2)
            if base_c != base and got == ["c8", "f4"]:
                pass
    for kind in "iuf":
        for size in ((1, 2, 4, 8) if kind in "iu" else (4, 8)):
            res = promote(base if base in SIG else "f4", kind, size)
            bits = size * 8 - (1 if kind == "i" else 0) if kind in "iu" else SIG["f%d" % size]
            need = size * 8 if kind in "iu" else SIG["f%d" % size]
            if kind == "i":
                need = size * 8 - 1  # magnitude bits; the minimum value is a power of two and exact
            lossless = SIG[res] >= need
            site = "%s:%s %s %s%d -> %s" % (m.rel, f.lineno, q, kind, size, res)
            if lossless:
                r.ok(site, "%d-bit significand holds every %s%d value" % (SIG[res], kind, size))
            else:
                r.violation(m.rel, q, "element type %s%d promoted to %s" % (kind, size, res), "%s%d values need %d bits but %s has a "
                            "%d-bit significand: large values are rounded (documented 'lossless' conversion is lossy)" % (
                                kind, size, need, res, SIG[res]), line=f.lineno)
    r.guard(10)
    return r


def rules(repo=None):
    return [lambda: r1_one_pipeline(repo), lambda: r2_vector_guards(repo), lambda: r3_guard_on_sample_axis(repo),
            lambda: c01.r3_exact_lookup(repo, rid="C08.R4"), lambda: r5_subchannel_column(repo),
            lambda: r6_lossless_conversion(repo), lambda: c01.r6_exact_index_use(repo, rid="C08.R7")]


EXPLANATION = (
    "R1: read() and get_continuous_blocks() call _get_file_list, _read and _combine_blocks with identical arguments except "
    "len_only; the two branches of _read use the same slice bounds and key; _combine_blocks adds lengths where it concatenates "
    "arrays. R2: the three guards of read_vector_raw raise IOError on every path to its return; the wrappers reach data only "
    "through it. R3: no squeeze/ravel/flatten of the array between taking it from read() and the length guard. R4: exact file "
    "lookup (C01.R3). R5: the subchannel branch indexes rf_data with the same row slice. R6: numpy's promotion table joined with "
    "the element types: which conversions are exact. R7: block-index entries only through int(). Does NOT decide the split/merge "
    "relation or bounds arithmetic.")
ASSUMPTIONS = ["numpy.promote_types table for float x integer types (documented)", "h5py dataset slicing returns rows [a, b)"]
FILES = ["python/digital_rf/digital_rf_hdf5.py"]
