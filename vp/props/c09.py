"""C09 -- Concurrent reader isolation and monotone visibility.

For two processes that share only the directory tree every interleaving is covered by a protocol argument:
(i) data reaches a final name only by rename of a fully closed file, (ii) nothing opens, truncates, extends or
removes a final RF name, (iii) reader and listing never open a tmp. name, (iv) the reader tolerates a name that
disappears between listing and opening.  (i)-(iii) are the C02 rules re-reported here; (iv) and the reader-side
rules are added.  Assumes POSIX rename atomicity.  Not decided: failures outside the protocol (EMFILE, ...).
"""
from __future__ import annotations

import ast

from ..core import Rule, AnalysisError, norm
from .. import pyfront, pyutil
from . import c02, c20

TL = "_top_level_dir_properties"


def _rebrand(fn, rid):
    def run():
        x = fn()
        old = x.rid
        x.rid = rid
        for f in x.findings:
            f.rule = rid
        x.title = x.title + " [= %s]" % old
        return x
    return run


def r2_tolerates_vanished_files(repo=None):
    r = Rule("C09.R2", "the reader tolerates files that vanish between listing and opening")
    m = pyfront.mod("digital_rf_hdf5", repo)
    q = TL + "._get_bounds"
    f = m.fn(q)
    scope = [f] + [h for h, c, b in pyutil.local_helpers(m, f, depth=2)]
    loops = [n for fn_ in scope for n in pyfront.walk_no_nested(fn_) if isinstance(n, ast.For) and "ilsdrf" in ast.unparse(n.iter)]
    if not loops:
        raise AnalysisError("%s: no loop over the ilsdrf listing found (directly or in a helper)" % q)
    for lp in loops:
        trs = [s for s in lp.body if isinstance(s, ast.Try)]
        ok = False
        if len(trs) == 1 and len(lp.body) == 1:
            for h in trs[0].handlers:
                names = [pyfront.dotted(h.type)] if not isinstance(h.type, ast.Tuple) else [pyfront.dotted(e) for e in h.type.elts]
                if ("IOError" in names or "OSError" in names) and any(isinstance(x, ast.Continue) for x in h.body):
                    ok = True
        if ok:
            r.ok("%s:%s %s" % (m.rel, lp.lineno, q), "opening a listed file is wrapped in try/except IOError: continue")
        else:
            r.violation(m.rel, q, "for path in ilsdrf(...) at line %d" % lp.lineno, "a data file that disappears (or is not yet "
                        "openable) between listing and opening makes get_bounds fail instead of being skipped", line=lp.lineno)
    # _read: probe with os.access, open read-only, skip when not accessible
    q = TL + "._read"
    g = m.cfg(q)
    openers = {"h5py.File": None}
    for h, c, b in pyutil.local_helpers(m, m.fn(q), depth=1):
        if any(isinstance(x, ast.Call) and pyfront.call_name(x) == "h5py.File" for x in ast.walk(h)):
            openers[pyfront.call_name(c)] = h
    opens = [n for n in g.nodes if any(pyfront.call_name(c) in openers for c in pyfront.node_calls(n))]
    probes = [n for n in g.nodes if n.kind == "cond" and any(pyfront.call_name(c) == "os.access" for c in pyfront.node_calls(n))]
    if not opens:
        raise AnalysisError("%s: h5py.File not found" % q)
    fn_read = m.fn(q)

    def guarded_by_handler(o):
        """the open is inside a try whose IOError/OSError handler does not re-raise (vanished file -> skipped)"""
        for c in pyfront.node_calls(o):
            if pyfront.call_name(c) in openers:
                tr = m.enclosing(c, (ast.Try,))
                while tr is not None:
                    in_body = any(c is x for st in tr.body for x in ast.walk(st))
                    if in_body:
                        for h in tr.handlers:
                            names = ["<any>"] if h.type is None else [pyfront.dotted(h.type)] if not isinstance(h.type, ast.Tuple) else [
                                pyfront.dotted(e) for e in h.type.elts]
                            if any(n_ in ("IOError", "OSError", "EnvironmentError", "Exception", "<any>") for n_ in names) and not any(
                                    isinstance(x, ast.Raise) for x in ast.walk(h)):
                                return True
                    tr = m.enclosing(tr, (ast.Try,))
        return False
    ok = True
    how = []
    for o in opens:
        if guarded_by_handler(o):
            how.append("try/except IOError")
            continue
        if not probes:
            ok = False
            continue
        p = probes[0]
        fs = [b for b, l in g.succ[p.id] if l == "F"]  # `not os.access(...)` decomposed: F edge = not accessible
        if o.id in g.reach([g.entry.id], avoid=[p.id], skip_labels=("exc",)) or o.id in g.reach(fs, avoid=[p.id], skip_labels=("exc", "back")):
            ok = False
        else:
            how.append("os.access probe")
    p = probes[0] if probes else opens[0]
    file_calls = [c for o in opens for c in pyfront.node_calls(o) if pyfront.call_name(c) == "h5py.File"]
    for h in openers.values():
        if h is not None:
            file_calls += [x for x in ast.walk(h) if isinstance(x, ast.Call) and pyfront.call_name(x) == "h5py.File"]
    for c in file_calls:
        if pyfront.const(pyfront.kwarg(c, "mode", 1)) != "r":
            ok = False
    if ok:
        r.ok("%s:%s %s" % (m.rel, p.line, q), "every open is read-only and tolerates a missing file (%s)" % ", ".join(sorted(set(how))))
    else:
        r.violation(m.rel, q, "open without os.access probe or IOError handler / not read-only", "a missing or in-progress file "
                    "is opened, or its absence makes the read fail", line=opens[0].line)
    r.guard(3)
    return r


def r3_cache_is_keyed_by_full_name(repo=None):
    r = Rule("C09.R3", "cached per-file state is keyed by the full file name and refreshed whenever the name differs")
    m = pyfront.mod("digital_rf_hdf5", repo)
    q = TL + "._read"
    f = m.fn(q)
    joins = [n for n in ast.walk(f) if isinstance(n, ast.Assign) and isinstance(n.targets[0], ast.Name) and isinstance(n.value, ast.Call)
             and pyfront.call_name(n.value) == "os.path.join"]
    if len(joins) != 1:
        raise AnalysisError("%s: full path construction (os.path.join) not found exactly once" % q)
    fv = joins[0].targets[0].id
    ifs = [n for n in ast.walk(f) if isinstance(n, ast.If) and norm(ast.unparse(n.test)) in (
        "%s != self._cachedFilename" % fv, "self._cachedFilename != %s" % fv)]
    if len(ifs) != 1:
        r.violation(m.rel, q, "no `%s != self._cachedFilename` test" % fv, "the cache of the open file is not keyed by the full path: "
                    "state of another file (same relative name in another top-level directory, or a stale handle) could be used",
                    line=f.lineno)
        return r
    body = ifs[0]
    # statements executed under the test: the body itself plus same-class helpers it calls (with the key passed as argument)
    region = ast.Module(body=list(body.body), type_ignores=[])
    stored = {a for a, n in pyfront.self_stores(region)}
    key_ok = any(isinstance(n, ast.Assign) and pyfront.dotted(n.targets[0]) == "self._cachedFilename"
                 and norm(ast.unparse(n.value)) == fv for n in ast.walk(region))
    helper_ids = set()
    for c in ast.walk(region):
        if isinstance(c, ast.Call) and (pyfront.call_name(c) or "").startswith("self."):
            h = m.functions.get(TL + "." + pyfront.call_name(c)[5:])
            if h is None:
                continue
            helper_ids.add(id(h))
            params = [a.arg for a in h.args.args if a.arg != "self"]
            bind = dict(zip(params, [norm(ast.unparse(a)) for a in c.args]))
            bind.update({k.arg: norm(ast.unparse(k.value)) for k in c.keywords if k.arg})
            stored |= {a for a, n in pyfront.self_stores(h)}
            for n in ast.walk(h):
                if isinstance(n, ast.Assign) and pyfront.dotted(n.targets[0]) == "self._cachedFilename" \
                        and isinstance(n.value, ast.Name) and bind.get(n.value.id) == fv:
                    key_ok = True
    need = {"_cachedFile", "_cachedFilename", "rf_data", "rf_data_len", "rf_index", "rf_index_len"}
    outside = []
    for q2, f2 in m.functions.items():
        if not q2.startswith(TL + ".") or q2.endswith(".__init__") or id(f2) in helper_ids:
            continue
        for a, n in pyfront.self_stores(f2):
            if a in need and not (f2 is f and body.lineno <= n.lineno <= body.end_lineno):
                outside.append("%s in %s" % (a, q2))
    if need <= stored and key_ok and not outside:
        r.ok("%s:%s %s" % (m.rel, body.lineno, q), "file handle, datasets, index copy and lengths are all refreshed together under "
             "the full-name test; the key is set to the full path")
    else:
        r.violation(m.rel, q, "cache refresh stores %s (missing %s, outside %s, key set to full path: %s)" % (
                    sorted(stored & need), sorted(need - stored), outside, key_ok),
                    "part of the cached per-file state is not refreshed when the file changes", line=body.lineno)
    # a closed handle must not stay cached under its old key: after self._cachedFile.close() the key is re-assigned before
    # the function moves on (next file or return); paths that leave by an uncaught exception are not considered
    for q2, f2 in m.functions.items():
        if not q2.startswith(TL + "."):
            continue
        g2 = m.cfg(q2)
        closes = [n for n in g2.nodes if any(pyfront.call_name(c) == "self._cachedFile.close" for c in pyfront.node_calls(n))]
        if not closes or q2.endswith(".close") or q2.endswith(".__del__"):
            continue
        keys = [n.id for n in g2.nodes if isinstance(n.ast, ast.Assign) and any(
            pyfront.dotted(t) == "self._cachedFilename" for t in n.ast.targets)]
        heads = [n.id for n in g2.nodes if n.kind == "cond" and isinstance(n.ast, ast.For)]
        exits = [n.id for n in g2.nodes if n.kind in ("exit", "return")]
        for cnode in closes:
            seen = g2.reach([cnode.id], avoid=keys)
            stale = [x for x in heads + exits if x in seen and x != cnode.id]
            if stale:
                tgt = g2.nodes[stale[0]]
                r.violation(m.rel, q2, "self._cachedFile.close() can be followed by `%s` without re-assigning self._cachedFilename" % (
                            tgt.label[:40] if tgt.kind == "cond" else "return"), "the cache keeps naming a file whose handle was closed: a later "
                            "read of that file uses the closed handle and fails (a file that cannot be opened right now, e.g. the "
                            "writer's next file, is enough)", line=cnode.line)
            else:
                r.ok("%s:%s %s" % (m.rel, cnode.line, q2), "after closing the cached handle the key is re-assigned before the next file / return")
    # the key is the absolute join
    if norm(ast.unparse(joins[0].value)) == "os.path.join(self.top_level_dir, self.channel_name, fp)" or [
            norm(ast.unparse(a)) for a in joins[0].value.args[:2]] == ["self.top_level_dir", "self.channel_name"]:
        r.ok("%s:%s %s" % (m.rel, joins[0].lineno, q), "%s = top_level_dir/channel/relative path" % fv)
    else:
        r.violation(m.rel, q, "%s = %s" % (fv, norm(ast.unparse(joins[0].value))), "cache key is not the full path", line=joins[0].lineno)
    r.guard(2)
    return r


def rules(repo=None):
    return [_rebrand(lambda: c02.r1_tmp_provenance(repo), "C09.P1"), _rebrand(lambda: c02.r2_publish_after_close(repo), "C09.P2"),
            _rebrand(lambda: c02.r3_no_writer_of_final(repo), "C09.P3"), _rebrand(lambda: c02.r4_staged_creation(repo), "C09.P4"),
            _rebrand(lambda: c02.r5_readers_ignore_tmp(repo), "C09.P5"),
            _rebrand(lambda: c02.r6_identity_stable_until_published(repo), "C09.P6"),
            _rebrand(lambda: c02.r7_failed_create_not_published(repo), "C09.P7"),
            lambda: c20.r1_read_roles(repo, rid="C09.R1", prefixes=("digital_rf_hdf5:", "list_drf:"),
                                          stop_modules=("digital_metadata",)),
            lambda: r2_tolerates_vanished_files(repo), lambda: r3_cache_is_keyed_by_full_name(repo)]


EXPLANATION = (
    "Protocol argument for all interleavings of two processes sharing only the directory tree. P1-P7 = C02.R1-R7 (tmp-name "
    "provenance, close-before-rename typestate, no writer of final names, staged creation, grammars exclude tmp.). R1: no path "
    "in the call graph from any DigitalRFReader / listing entry point to a file-system mutator. R2: get_bounds skips files that "
    "fail to open; _read probes with os.access and opens read-only. R3: the per-file cache is keyed by the full path and all of "
    "it is refreshed when the path changes. With POSIX rename atomicity these imply that a reader sees exactly the finalized "
    "files and that set only grows. Does NOT decide failures outside the protocol (EMFILE, permissions) or timing.")
TECHNIQUE = ("C02's protocol rules + package call graph reachability (read roles), CFG checks of vanished-file tolerance, cache key def-use")
ASSUMPTIONS = c02.ASSUMPTIONS + ["a finalized RF file is never modified (C02.R3), so cached index data cannot go stale"]
FILES = c02.FILES
