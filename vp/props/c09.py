"""C09 -- Concurrent reader isolation and monotone visibility.

For two processes that share only the directory tree every interleaving is covered by a protocol argument:
(i) data reaches a final name only by rename of a fully closed file, (ii) nothing opens, truncates, extends or
removes a final RF name, (iii) reader and listing never open a tmp. name, (iv) the reader tolerates a name that
disappears between listing and opening.  (i)-(iii) are the C02 rules re-reported here; (iv) and the reader-side
rules are added.  Assumes POSIX rename atomicity.  Not decided: failures outside the protocol (EMFILE, ...).
"""
from __future__ import annotations

import ast

from ..core import Rule, AnalysisError, norm
from .. import pyfront, pyutil
from . import c02, c20

TL = "_top_level_dir_properties"


def _rebrand(fn, rid):
    def run():
        x = fn()
        old = x.rid
        x.rid = rid
        for f in x.findings:
            f.rule = rid
        x.title = x.title + " [= %s]" % old
        return x
    return run


def r2_tolerates_vanished_files(repo=None):
    r = Rule("C09.R2", "the reader tolerates files that vanish between listing and opening")
    m = pyfront.mod("digital_rf_hdf5", repo)
    q = TL + "._get_bounds"
    f = m.fn(q)
    scope = [f] + [h for h, c, b in pyutil.local_helpers(m, f, depth=2)]
    loops = [n for fn_ in scope for n in pyfront.walk_no_nested(fn_) if isinstance(n, ast.For) and "ilsdrf" in ast.unparse(n.iter)]
    if not loops:
        raise AnalysisError("%s: no loop over the ilsdrf listing found (directly or in a helper)" % q)
    for lp in loops:
        trs = [s for s in lp.body if isinstance(s, ast.Try)]
        ok = False
        if len(trs) == 1 and len(lp.body) == 1:
            for h in trs[0].handlers:
                names = [pyfront.dotted(h.type)] if not isinstance(h.type, ast.Tuple) else [pyfront.dotted(e) for e in h.type.elts]
                if ("IOError" in names or "OSError" in names) and any(isinstance(x, ast.Continue) for x in h.body):
                    ok = True
        if ok:
            r.ok("%s:%s %s" % (m.rel, lp.lineno, q), "opening a listed file is wrapped in try/except IOError: continue")
        else:
            r.violation(m.rel, q, "for path in ilsdrf(...) at line %d" % lp.lineno, "a data file that disappears (or is not yet "
                        "openable) between listing and opening makes get_bounds fail instead of being skipped", line=lp.lineno)
    # _read: probe with os.access, open read-only, skip when not accessible
    q = TL + "._read"
    g = m.cfg(q)
    openers = {"h5py.File": None}
    for h, c, b in pyutil.local_helpers(m, m.fn(q), depth=1):
        if any(isinstance(x, ast.Call) and pyfront.call_name(x) == "h5py.File" for x in ast.walk(h)):
            openers[pyfront.call_name(c)] = h
    opens = [n for n in g.nodes if any(pyfront.call_name(c) in openers for c in pyfront.node_calls(n))]
    probes = [n for n in g.nodes if n.kind == "cond" and any(pyfront.call_name(c) == "os.access" for c in pyfront.node_calls(n))]
    if not opens:
        raise AnalysisError("%s: h5py.File not found" % q)
    fn_read = m.fn(q)

    def guarded_by_handler(o):
        """the open is inside a try whose IOError/OSError handler does not re-raise (vanished file -> skipped)"""
        for c in pyfront.node_calls(o):
            if pyfront.call_name(c) in openers:
                tr = m.enclosing(c, (ast.Try,))
                while tr is not None:
                    in_body = any(c is x for st in tr.body for x in ast.walk(st))
                    if in_body:
                        for h in tr.handlers:
                            names = ["<any>"] if h.type is None else [pyfront.dotted(h.type)] if not isinstance(h.type, ast.Tuple) else [
                                pyfront.dotted(e) for e in h.type.elts]
                            if any(n_ in ("IOError", "OSError", "EnvironmentError", "Exception", "<any>") for n_ in names) and not any(
                                    isinstance(x, ast.Raise) for x in ast.walk(h)):
                                return True
                    tr = m.enclosing(tr, (ast.Try,))
        return False
    def from_probed_list(o):
        """the opened name is the loop variable of a loop over a list to which names are appended only on the accessible branch
        of an os.access probe (probing pass first, reading pass afterwards)"""
        for c in pyfront.node_calls(o):
            if pyfront.call_name(c) not in openers or not c.args or not isinstance(c.args[0], ast.Name):
                continue
            v = c.args[0].id
            lp = m.enclosing(c, (ast.For,))
            while lp is not None and not (isinstance(lp.target, ast.Name) and lp.target.id == v):
                lp = m.enclosing(lp, (ast.For,))
            if lp is None:
                return False
            it = lp.iter
            if isinstance(it, ast.Call) and pyfront.call_name(it) in ("reversed", "sorted", "list") and it.args:
                it = it.args[0]
            if not isinstance(it, ast.Name):
                return False
            L = it.id
            apps = [x for x in pyfront.walk_no_nested(fn_read) if isinstance(x, ast.Call) and isinstance(x.func, ast.Attribute)
                    and x.func.attr in ("append", "insert", "extend") and pyfront.dotted(x.func.value) == L]
            others = [x for x in pyfront.walk_no_nested(fn_read) if isinstance(x, ast.Assign) and any(
                isinstance(t, ast.Name) and t.id == L for t in x.targets) and not (isinstance(x.value, (ast.List, ast.Tuple)) and not x.value.elts)]
            if not apps and len(others) == 1:
                # the probing pass as a comprehension: `<L> = [p for p in <candidates> if os.access(p, os.R_OK)]`
                cv = others[0].value
                if isinstance(cv, ast.Call) and pyfront.call_name(cv) in ("list", "tuple") and len(cv.args) == 1:
                    cv = cv.args[0]
                if isinstance(cv, (ast.ListComp, ast.GeneratorExp)) and len(cv.generators) == 1 and isinstance(cv.generators[0].target, ast.Name) \
                        and isinstance(cv.elt, ast.Name) and cv.elt.id == cv.generators[0].target.id:
                    pv = cv.elt.id
                    for t_ in cv.generators[0].ifs:
                        terms_ = t_.values if isinstance(t_, ast.BoolOp) and isinstance(t_.op, ast.And) else [t_]
                        if any(isinstance(x_, ast.Call) and pyfront.call_name(x_) == "os.access" and x_.args and isinstance(x_.args[0], ast.Name)
                               and x_.args[0].id == pv for x_ in terms_):
                            return True
                return False
            if not apps or others:
                return False
            for a in apps:
                iff = m.enclosing(a, (ast.If,))
                good = False
                while iff is not None and not good:
                    t = iff.test
                    pos = isinstance(t, ast.Call) and pyfront.call_name(t) == "os.access" and any(a is x for st in iff.body for x in ast.walk(st))
                    neg = isinstance(t, ast.UnaryOp) and isinstance(t.op, ast.Not) and isinstance(t.operand, ast.Call) \
                        and pyfront.call_name(t.operand) == "os.access" and any(a is x for st in iff.orelse for x in ast.walk(st))
                    good = pos or neg
                    iff = m.enclosing(iff, (ast.If,))
                if not good:
                    return False
            return True
        return False
    ok = True
    how = []
    for o in opens:
        if guarded_by_handler(o):
            how.append("try/except IOError")
            continue
        if from_probed_list(o):
            how.append("os.access probe (probing pass before the reading pass)")
            continue
        if not probes:
            # no probe in _read itself: a verdict needs positive evidence.  If neither _read nor a helper it calls probes a path
            # or handles IOError / OSError at all, a vanished file does make the read fail (violation); if a helper does
            # (e.g. the list of names comes filtered from a helper), the idiom is one this rule does not follow: not decided
            helpers = [h for h, c_, b_ in pyutil.local_helpers(m, m.fn(q), depth=2)]
            tolerant = [h.name for h in helpers if any(
                (isinstance(x, ast.Call) and pyfront.call_name(x) in ("os.access", "os.path.exists", "os.path.isfile"))
                or (isinstance(x, ast.ExceptHandler) and x.type is not None and any(
                    n_ in ast.unparse(x.type) for n_ in ("IOError", "OSError", "EnvironmentError", "Exception")))
                for x in ast.walk(h))]
            if tolerant:
                raise AnalysisError("%s: no os.access probe in the method itself; its helper(s) %s probe the path or handle I/O errors - "
                                    "whether every opened name went through them is not analysed" % (q, ", ".join(sorted(tolerant))))
            ok = False
            continue
        p = probes[0]
        fs = [b for b, l in g.succ[p.id] if l == "F"]  # `not os.access(...)` decomposed: F edge = not accessible
        if o.id in g.reach([g.entry.id], avoid=[p.id], skip_labels=("exc",)) or o.id in g.reach(fs, avoid=[p.id], skip_labels=("exc", "back")):
            ok = False
        else:
            how.append("os.access probe")
    p = probes[0] if probes else opens[0]
    file_calls = [c for o in opens for c in pyfront.node_calls(o) if pyfront.call_name(c) == "h5py.File"]
    for h in openers.values():
        if h is not None:
            file_calls += [x for x in ast.walk(h) if isinstance(x, ast.Call) and pyfront.call_name(x) == "h5py.File"]
    for c in file_calls:
        if pyfront.const(pyfront.kwarg(c, "mode", 1)) != "r":
            ok = False
    if ok:
        r.ok("%s:%s %s" % (m.rel, p.line, q), "every open is read-only and tolerates a missing file (%s)" % ", ".join(sorted(set(how))))
    else:
        r.violation(m.rel, q, "open without os.access probe or IOError handler / not read-only", "a missing or in-progress file "
                    "is opened, or its absence makes the read fail", line=opens[0].line)
    r.guard(3)
    return r


def r3_cache_is_keyed_by_full_name(repo=None):
    """Roles instead of names: the *handle* attribute is the self attribute assigned from h5py.File(...), the *key* attribute
    is the one compared with the joined full path, the *derived* attributes are those computed (transitively) from the handle.
    Helpers of the class are inlined first."""
    r = Rule("C09.R3", "cached per-file state is keyed by the full file name and refreshed whenever the name differs")
    m = pyfront.mod("digital_rf_hdf5", repo)
    q = TL + "._read"
    fvw = m.flat(q)
    f = fvw.fn()
    opens = [n for n in ast.walk(f) if isinstance(n, ast.Assign) and isinstance(n.value, ast.Call) and pyfront.call_name(n.value) == "h5py.File"
             and (pyfront.dotted(n.targets[0]) or "").startswith("self.")]
    if len(opens) != 1:
        raise AnalysisError("%s: `self.<handle> = h5py.File(...)` not found exactly once (helpers inlined: %s)" % (q, fvw.inlined))
    handle = pyfront.dotted(opens[0].targets[0])[5:]
    if not opens[0].value.args or not isinstance(opens[0].value.args[0], ast.Name):
        raise AnalysisError("%s: the path opened by h5py.File is not a plain local" % q)
    fv = opens[0].value.args[0].id          # the local that holds the path that is opened
    g2 = fvw.cfg()
    # the key test: a comparison (== / !=) of a local with a self attribute; its "differs" edge guards a region of the CFG (the nodes
    # that cannot be reached without taking that edge).  The test that guards the open is the cache test.
    open_nodes = [n for n in g2.nodes if n.ast is opens[0]]
    if len(open_nodes) != 1:
        raise AnalysisError("%s: the open is not a node of the control-flow graph" % q)
    tests = []
    for n in g2.nodes:
        if n.kind != "cond" or not isinstance(n.ast, ast.Compare) or len(n.ast.ops) != 1 or not isinstance(n.ast.ops[0], (ast.Eq, ast.NotEq)):
            continue
        l_, r_ = n.ast.left, n.ast.comparators[0]
        for a_, b_ in ((l_, r_), (r_, l_)):
            if isinstance(a_, ast.Name) and (pyfront.dotted(b_) or "").startswith("self.") and (pyfront.dotted(b_) or "").count(".") == 1:
                differs = "T" if isinstance(n.ast.ops[0], ast.NotEq) else "F"
                free = g2.reach([g2.entry.id], edge_filter=lambda x, y, lab, n=n, differs=differs: not (x == n.id and lab == differs))
                if open_nodes[0].id not in free:
                    tests.append((n, a_.id, pyfront.dotted(b_)[5:], {x.id for x in g2.nodes} - free))
    if not tests:
        raise AnalysisError("%s: no comparison of a local with a self attribute guards the open of the data file: whether (and by what) "
                            "the open file is cached is not recognised" % q)
    if len(tests) != 1:
        raise AnalysisError("%s: %d comparisons guard the open" % (q, len(tests)))
    tnode, tvar, keyattr, region_ids = tests[0]
    if tvar != fv:
        r.violation(m.rel, q, "`%s` compared with self.%s, `%s` opened" % (tvar, keyattr, fv), "the cache of the open file is not keyed by the "
                    "path that is opened: state of another file (same relative name in another top-level directory, or a stale handle) "
                    "could be used", line=tnode.line)
        return r
    region_asts = [n.ast for n in g2.nodes if n.id in region_ids and n.ast is not None]
    in_region = set()
    for a_ in region_asts:
        in_region |= {id(x) for x in ast.walk(a_)} if not isinstance(a_, (ast.For, ast.While, ast.If, ast.Try, ast.With)) else {id(a_)}
    region = ast.Module(body=[a_ for a_ in region_asts if isinstance(a_, ast.stmt) and not isinstance(a_, (ast.For, ast.While, ast.If, ast.Try, ast.With))],
                        type_ignores=[])

    class _B(object):
        lineno = tnode.line
    body = _B()
    # where the opened path comes from: the elements of the list the reading pass iterates over
    def elements(e, depth=0):
        """expressions an element of iterable e can be (probing filters looked through)"""
        if depth > 8:
            raise AnalysisError("%s: provenance of the opened path too deep" % q)
        if isinstance(e, ast.Call) and pyfront.call_name(e) in ("reversed", "sorted", "list", "tuple", "iter") and e.args:
            return elements(e.args[0], depth + 1)
        if isinstance(e, (ast.ListComp, ast.GeneratorExp)) and len(e.generators) == 1 and isinstance(e.generators[0].target, ast.Name):
            gv = e.generators[0].target.id
            if isinstance(e.elt, ast.Name) and e.elt.id == gv:
                return elements(e.generators[0].iter, depth + 1)
            return [(e.elt, gv)]
        if isinstance(e, ast.Name):
            out = []
            for x in pyfront.walk_no_nested(f):
                if isinstance(x, ast.Assign) and any(isinstance(t, ast.Name) and t.id == e.id for t in x.targets):
                    if isinstance(x.value, (ast.List, ast.Tuple)) and not x.value.elts:
                        continue
                    out += elements(x.value, depth + 1)
                elif isinstance(x, ast.Call) and isinstance(x.func, ast.Attribute) and x.func.attr in ("append", "insert", "appendleft") \
                        and pyfront.dotted(x.func.value) == e.id and x.args:
                    out.append((x.args[-1], None))
            return out
        raise AnalysisError("%s: provenance of the opened path: `%s` not followed" % (q, norm(ast.unparse(e))[:50]))

    def flat_join(e, depth=0):
        """argument list of os.path.join with nested joins and once-assigned locals written out"""
        if depth > 6:
            return [e]
        if isinstance(e, ast.Name):
            defs = [x for x in pyfront.walk_no_nested(f) if isinstance(x, ast.Assign) and any(isinstance(t, ast.Name) and t.id == e.id for t in x.targets)]
            if len(defs) == 1 and isinstance(defs[0].value, ast.Call) and pyfront.call_name(defs[0].value) == "os.path.join":
                return flat_join(defs[0].value, depth + 1)
            return [e]
        if isinstance(e, ast.Call) and pyfront.call_name(e) == "os.path.join":
            out = []
            for a_ in e.args:
                out += flat_join(a_, depth + 1)
            return out
        return [e]
    lp = fvw.enclosing(opens[0], (ast.For,))
    while lp is not None and not (isinstance(lp.target, ast.Name) and lp.target.id == fv):
        lp = fvw.enclosing(lp, (ast.For,))
    if lp is None:
        defs = [x for x in pyfront.walk_no_nested(f) if isinstance(x, ast.Assign) and any(isinstance(t, ast.Name) and t.id == fv for t in x.targets)]
        srcs = [(d.value, None) for d in defs]
    else:
        srcs = elements(lp.iter)
    joined = []
    for e_, gv_ in srcs:
        while isinstance(e_, ast.Name):
            defs = [x for x in pyfront.walk_no_nested(f) if isinstance(x, ast.Assign) and any(isinstance(t, ast.Name) and t.id == e_.id for t in x.targets)]
            if len(defs) != 1:
                break
            e_ = defs[0].value
        joined.append(e_)
    if not joined:
        raise AnalysisError("%s: provenance of the opened path `%s` not found" % (q, fv))
    joins = joined
    # derived attributes
    derived = {handle}
    changed = True
    while changed:
        changed = False
        for a, n in pyfront.self_stores(f):
            if a in derived or not isinstance(n, ast.Assign):
                continue
            used = {pyfront.dotted(x)[5:] for x in ast.walk(n.value) if isinstance(x, ast.Attribute) and (pyfront.dotted(x) or "").startswith("self.")
                    and pyfront.dotted(x).count(".") == 1}
            if used & derived:
                derived.add(a)
                changed = True
    need = derived | {keyattr}
    stored = {a for a, n in pyfront.self_stores(region)}
    key_ok = any(isinstance(n, ast.Assign) and pyfront.dotted(n.targets[0]) == "self." + keyattr
                 and norm(ast.unparse(n.value)) == fv for n in ast.walk(region))
    outside = []
    for a, n in pyfront.self_stores(f):
        if a in need and id(n) not in in_region:
            outside.append("%s in %s" % (a, q))
    inl = set(fvw.inlined)
    for q2, f2 in m.functions.items():
        if not q2.startswith(TL + ".") or q2.endswith(".__init__") or q2 == q or q2.split(".")[-1] in inl:
            continue
        for a, n in pyfront.self_stores(f2):
            if a in need and not (a == handle and pyfront.const(getattr(n, "value", None)) is None and isinstance(getattr(n, "value", None), ast.Constant)):
                outside.append("%s in %s" % (a, q2))
    if need <= stored and key_ok and not outside and len(derived) >= 3:
        r.ok("%s:%s %s" % (m.rel, body.lineno, q), "handle `%s`, key `%s` and the %d attributes derived from the handle (%s) are all refreshed "
             "together under the full-name test; the key is set to the full path" % (handle, keyattr, len(derived) - 1, ", ".join(sorted(derived - {handle}))))
    elif len(derived) < 3 and need <= stored and key_ok and not outside:
        raise AnalysisError("%s: only %d attributes derived from the cached handle were recognised" % (q, len(derived) - 1))
    else:
        r.violation(m.rel, q, "cache refresh stores %s (missing %s, outside %s, key set to full path: %s)" % (
                    sorted(stored & need), sorted(need - stored), outside, key_ok),
                    "part of the cached per-file state is not refreshed when the file changes", line=body.lineno)
    # a closed handle must not stay cached under its old key: after self.<handle>.close() the key is re-assigned before
    # the function moves on (next file or return); paths that leave by an uncaught exception are not considered
    closes = [n for n in g2.nodes if any(pyfront.call_name(c) == "self.%s.close" % handle for c in pyfront.node_calls(n))]
    keys = [n.id for n in g2.nodes if isinstance(n.ast, ast.Assign) and any(
        pyfront.dotted(t) == "self." + keyattr for t in n.ast.targets)]
    heads = [n.id for n in g2.nodes if n.kind == "cond" and isinstance(n.ast, ast.For) and not (
        isinstance(n.ast.target, ast.Name) and n.ast.target.id.startswith("__once_"))]
    exits = [n.id for n in g2.nodes if n.kind in ("exit", "return")]
    for cnode in closes:
        seen = g2.reach([cnode.id], avoid=keys)
        stale = [x for x in heads + exits if x in seen and x != cnode.id]
        if stale:
            tgt = g2.nodes[stale[0]]
            r.violation(m.rel, q, "self.%s.close() can be followed by `%s` without re-assigning self.%s" % (
                        handle, tgt.label[:40] if tgt.kind == "cond" else "return", keyattr), "the cache keeps naming a file whose handle was "
                        "closed: a later read of that file uses the closed handle and fails (a file that cannot be opened right now, e.g. "
                        "the writer's next file, is enough)", line=cnode.line)
        else:
            r.ok("%s:%s %s" % (m.rel, cnode.line, q), "after closing the cached handle the key is re-assigned before the next file / return")
    # the key is the absolute join
    for j_ in joins:
        if not (isinstance(j_, ast.Call) and pyfront.call_name(j_) == "os.path.join"):
            raise AnalysisError("%s: the opened path `%s` comes from `%s`, not from os.path.join" % (q, fv, norm(ast.unparse(j_))[:60]))
        if [norm(ast.unparse(a)) for a in flat_join(j_)[:2]] == ["self.top_level_dir", "self.channel_name"]:
            r.ok("%s:%s %s" % (m.rel, j_.lineno, q), "%s = top_level_dir/channel/relative path" % fv)
        else:
            r.violation(m.rel, q, "%s = %s" % (fv, norm(ast.unparse(j_))), "cache key is not the full path", line=j_.lineno)
    r.guard(2)
    return r


def r4_consistent_snapshot(repo=None):
    """'at every moment it sees exactly the samples of the files finalized so far', for free-running processes: one read call
    that spans several files must return what existed at ONE moment.  The writer finalizes files strictly in time order (C02: the
    rename of file k precedes the creation of tmp file k+1), so the set of files present at any moment is a prefix.  A reader that
    probes the candidate names oldest-first, and opens each present file before probing the next, can be overtaken: "k absent"
    answered before the writer renames k and k+1, "k+1 present" after - a hole that never existed.  Probing *newest-first* and
    completing the probing pass before anything is opened gives a prefix-closed set (if j is seen, every older i was finalized
    before j and is probed later).  Checked on _read: (a) no file is opened inside the loop that probes (two passes); (b) the
    probing loop runs over the candidate list in reversed order."""
    r = Rule("C09.R4", "one read call returns the files that existed at one moment (newest-first probing pass, then reading pass)")
    m = pyfront.mod("digital_rf_hdf5", repo)
    q = TL + "._read"
    view = m.flat(q)
    fn = view.fn()
    params = [a.arg for a in fn.args.args]
    probes = [c for c in ast.walk(fn) if isinstance(c, ast.Call) and pyfront.call_name(c) == "os.access"]
    if not probes:
        # EAFP form: each open is its own probe - then the opens themselves must run newest-first or be transactional; not recognised
        raise AnalysisError("%s: no os.access probe found (the snapshot argument is not analysed for this form)" % q)
    parents = {}
    for n in ast.walk(fn):
        for ch in ast.iter_child_nodes(n):
            parents[ch] = n

    def loop_of(n):
        p = parents.get(n)
        while p is not None and not (isinstance(p, ast.For) and not (isinstance(p.target, ast.Name) and p.target.id.startswith("__once_"))):
            p = parents.get(p)
        return p
    for c in probes:
        lp = loop_of(c)
        if lp is None:
            # the probing pass as an eager comprehension: `[p for p in <candidates, newest first> if os.access(p, ...)]`
            comp = parents.get(c)
            while comp is not None and not isinstance(comp, (ast.ListComp, ast.SetComp, ast.GeneratorExp, ast.DictComp, ast.FunctionDef)):
                comp = parents.get(comp)
            eager = isinstance(comp, ast.ListComp) or (isinstance(comp, ast.GeneratorExp) and isinstance(parents.get(comp), ast.Call)
                                                        and pyfront.call_name(parents.get(comp)) in ("list", "tuple", "sorted"))
            if not isinstance(comp, (ast.ListComp, ast.GeneratorExp)) or not eager or len(comp.generators) != 1:
                raise AnalysisError("%s: os.access probe outside a loop (or an eager comprehension) over the candidate files" % q)
            allowed_calls = ("os.access", "os.path.join", "reversed")
            if any(isinstance(x, ast.Call) and pyfront.call_name(x) not in allowed_calls for x in ast.walk(comp)):
                raise AnalysisError("%s: the probing comprehension calls something besides os.access / os.path.join" % q)
            # follow the iterable back to the candidate list parameter, counting reversals; lazily evaluated links are consumed by
            # the eager comprehension, so the whole probing pass is complete when the comprehension is
            it, nrev, hops = comp.generators[0].iter, 0, 0
            while hops < 8:
                hops += 1
                if isinstance(it, ast.Call) and pyfront.call_name(it) == "reversed" and it.args:
                    nrev += 1
                    it = it.args[0]
                elif isinstance(it, (ast.ListComp, ast.GeneratorExp)) and len(it.generators) == 1 and not it.generators[0].ifs:
                    if any(isinstance(x, ast.Call) and pyfront.call_name(x) not in allowed_calls for x in ast.walk(it.elt)):
                        raise AnalysisError("%s: candidates are mapped through `%s`" % (q, norm(ast.unparse(it.elt))[:50]))
                    it = it.generators[0].iter
                elif isinstance(it, ast.Name) and it.id not in params:
                    defs = [x for x in ast.walk(fn) if isinstance(x, ast.Assign) and any(isinstance(t, ast.Name) and t.id == it.id for t in x.targets)]
                    if len(defs) != 1:
                        raise AnalysisError("%s: candidates `%s` not assigned exactly once" % (q, it.id))
                    it = defs[0].value
                else:
                    break
            site = "%s:%s %s `%s`" % (m.rel, comp.lineno, q, norm(ast.unparse(comp))[:60])
            if not (isinstance(it, ast.Name) and it.id in params):
                raise AnalysisError("%s: the probing comprehension does not run over the candidate list parameter (`%s`)" % (q, norm(ast.unparse(it))[:60]))
            if nrev % 2 == 1:
                r.ok(site, "probing pass newest-first in one eager comprehension, nothing is opened before it is complete: the files seen "
                     "are a prefix of the files finalized")
            else:
                r.violation(m.rel, q, "probing pass `%s` in ascending order" % norm(ast.unparse(comp))[:50],
                            "the probing pass runs oldest-first: the writer can finalize files k and k+1 between the probe of k (absent) and "
                            "the probe of k+1 (present); only a newest-first pass yields a prefix of the files written", line=comp.lineno)
            continue
        opens_in = [x for x in ast.walk(lp) if isinstance(x, ast.Call) and pyfront.call_name(x) == "h5py.File"]
        it = lp.iter
        rev = isinstance(it, ast.Call) and pyfront.call_name(it) == "reversed"
        base = it.args[0] if rev and it.args else it
        src = pyfront.dotted(base)
        site = "%s:%s %s `for %s in %s`" % (m.rel, lp.lineno, q, norm(ast.unparse(lp.target)), norm(ast.unparse(lp.iter))[:50])
        if opens_in:
            r.violation(m.rel, q, "os.access probe and h5py.File in one loop over %s" % norm(ast.unparse(lp.iter))[:40],
                        "every present file is opened and read before the next candidate name is probed, oldest first: while the "
                        "reader works on file k-1 the writer can finalize k (probed earlier, absent) and k+1 (probed later, present), so "
                        "one call returns file k+1 without file k - a gap in a gap-free recording that no moment ever showed "
                        "(read_vector then reports 'Data gaps found', a tailing consumer skips file k for good)", line=lp.lineno)
        elif src not in params:
            raise AnalysisError("%s: the probing loop does not run over the candidate list parameter (`%s`)" % (q, norm(ast.unparse(it))[:60]))
        elif not rev:
            r.violation(m.rel, q, "probing pass over `%s` in ascending order" % norm(ast.unparse(it))[:40],
                        "the probing pass runs oldest-first: the writer can finalize files k and k+1 between the probe of k (absent) and "
                        "the probe of k+1 (present); only a newest-first pass yields a prefix of the files written", line=lp.lineno)
        else:
            r.ok(site, "probing pass newest-first, nothing is opened before it is complete: the files seen are a prefix of the files finalized")
    r.guard(1)
    return r


def r5_snapshot_spans_all_directories(repo=None):
    """R4's argument ("a writer finishes files in time order, so once a file is seen all older ones are there") holds inside ONE
    top-level directory and ONE writer session.  A reader over several top-level directories runs the probe-then-read step
    once per directory, one after the other: it looks into B only after it has *read* A's files, so a recording that moves from A
    to B while the call is in progress yields B's first file without A's last one - a set of files that never existed.  The
    snapshot has to be taken over all directories before anything is read: in read / get_continuous_blocks no call that both
    probes and opens files (the per-directory read step) may sit in the loop over the top-level directories."""
    r = Rule("C09.R5", "one read call takes its snapshot of the finalized files over all top-level directories before it reads any")
    m = pyfront.mod("digital_rf_hdf5", repo)
    per_dir = m.flat(TL + "._read").fn()
    probes_and_opens = any(isinstance(c, ast.Call) and pyfront.call_name(c) == "os.access" for c in ast.walk(per_dir)) and any(
        isinstance(c, ast.Call) and pyfront.call_name(c) == "h5py.File" for c in ast.walk(per_dir))
    n = 0
    for q in ("DigitalRFReader.read", "DigitalRFReader.get_continuous_blocks"):
        f = m.flat(q).fn()
        for lp in ast.walk(f):
            if not isinstance(lp, ast.For):
                continue
            calls = [c for c in ast.walk(lp) if isinstance(c, ast.Call) and isinstance(c.func, ast.Attribute) and c.func.attr == "_read"
                     and isinstance(c.func.value, ast.Name) and isinstance(lp.target, ast.Name) and c.func.value.id == lp.target.id]
            if not calls:
                continue
            n += 1
            if probes_and_opens:
                r.violation(m.rel, q, "for <entry> in <top-level directories>: <entry>._read(...) [probe + read per directory]",
                            "the per-directory step probes for its files and reads them before the next top-level directory is looked at: "
                            "with a recording that continues in a later-listed directory while the call is in progress the call returns "
                            "that directory's first file without the previous directory's last one (blocks [[0, 19], [30, 39]] of a "
                            "gap-free recording; read_vector raises 'Data gaps found')", line=lp.lineno)
            else:
                r.ok("%s:%s %s" % (m.rel, lp.lineno, q), "the per-directory step does not probe and open on its own")
    if n < 2:
        raise AnalysisError("loops over the top-level directories calling the per-directory read step not found in read / get_continuous_blocks (%d)" % n)
    r.guard(2)
    return r


def r6_capsule_has_one_owner(repo=None, rid="C09.R6"):
    """'once the writer is closed the reader sees everything': close() publishes the last file by deleting the attribute that
    holds the extension's writer object - the object's destructor closes and renames the file, and it runs only when that was
    the *last* reference.  So the object may be read only as a direct argument of an extension call (borrowed for the call,
    C frames are not part of a traceback), tested, or deleted.  A second reference in a local that is alive across a call or a
    raise survives in the traceback of an exception the caller still holds: close() then returns with the last file still
    named tmp.* and no reader sees its samples."""
    r = Rule(rid, "the extension's writer object has one reference (the attribute close() deletes): no alias alive across a call")
    m = pyfront.mod("digital_rf_hdf5", repo)
    cls = [c for c in m.tree.body if isinstance(c, ast.ClassDef) and c.name == "DigitalRFWriter"]
    if not cls:
        raise AnalysisError("class DigitalRFWriter not found")
    cls = cls[0]
    # the attribute: assigned from the extension's init call
    attr = None
    for n in ast.walk(cls):
        if isinstance(n, ast.Assign) and isinstance(n.value, ast.Call) and (pyfront.call_name(n.value) or "").startswith("_py_rf_write_hdf5.") \
                and (pyfront.call_name(n.value) or "").endswith("init") and len(n.targets) == 1:
            d = pyfront.dotted(n.targets[0]) or ""
            if d.startswith("self."):
                attr = d[5:]
    if attr is None:
        raise AnalysisError("DigitalRFWriter: the attribute holding the extension's writer object (assigned from _py_rf_write_hdf5.init) not found")
    close = [f for f in cls.body if isinstance(f, ast.FunctionDef) and f.name == "close"]
    if not close or not any(isinstance(n, ast.Delete) and any(pyfront.dotted(t) == "self." + attr for t in n.targets) for n in ast.walk(close[0])):
        raise AnalysisError("DigitalRFWriter.close: `del self.%s` not found" % attr)
    methods = [f for f in ast.walk(cls) if isinstance(f, (ast.FunctionDef, ast.Lambda))]
    parent = {}
    for n in ast.walk(cls):
        for ch in ast.iter_child_nodes(n):
            parent[ch] = n

    def owner_fn(n):
        while n in parent:
            n = parent[n]
            if isinstance(n, (ast.FunctionDef, ast.Lambda)):
                return n
        return None

    def is_ext_call(c):
        return isinstance(c, ast.Call) and (pyfront.call_name(c) or "").startswith("_py_rf_write_hdf5.")

    n_sites = [0]

    def judge(expr, what, depth=0):
        """expr evaluates to the writer object: how is the value used?"""
        if depth > 3:
            raise AnalysisError("the extension's writer object is handed through more than 3 helpers")
        fn = owner_fn(expr)
        fname = getattr(fn, "name", "<lambda>")
        q = "DigitalRFWriter." + fname
        par = parent.get(expr)
        n_sites[0] += 1
        site = "%s:%s %s `%s`" % (m.rel, expr.lineno, q, norm(ast.unparse(par))[:60])
        def param_is_ext(call):
            """the callee is a parameter of the enclosing method and every caller in the class passes an extension function for it"""
            if not (isinstance(call, ast.Call) and isinstance(call.func, ast.Name) and isinstance(fn, ast.FunctionDef) and expr in call.args):
                return False
            ps = [a.arg for a in fn.args.args]
            if call.func.id not in ps or any(isinstance(x, ast.Name) and x.id == call.func.id and isinstance(x.ctx, ast.Store) for x in ast.walk(fn)):
                return False
            idx = ps.index(call.func.id) - 1       # without self
            callers = [c for c in ast.walk(cls) if isinstance(c, ast.Call) and pyfront.dotted(c.func) == "self." + fname]
            if not callers or idx < 0:
                return False
            for c in callers:
                a = c.args[idx] if idx < len(c.args) else pyfront.kwarg(c, call.func.id)
                if a is None or not (pyfront.dotted(a) or "").startswith("_py_rf_write_hdf5."):
                    return False
            return True
        if is_ext_call(par) and expr in par.args:
            r.ok(site, "%s borrowed by the extension call" % what)
        elif param_is_ext(par):
            r.ok(site, "%s borrowed by the extension function every caller passes as `%s`" % (what, par.func.id))
        elif isinstance(par, ast.UnaryOp) and isinstance(par.op, ast.Not) or isinstance(par, (ast.If, ast.While, ast.BoolOp, ast.IfExp)) and getattr(par, "test", None) is expr \
                or (isinstance(par, ast.Compare) and all(isinstance(o, (ast.Is, ast.IsNot)) for o in par.ops)):
            r.ok(site, "%s only tested" % what)
        elif isinstance(par, ast.Return):
            callers = [c for c in ast.walk(cls) if isinstance(c, ast.Call) and pyfront.dotted(c.func) == "self." + fname]
            if not callers:
                raise AnalysisError("%s returns the extension's writer object and is not called inside the class: not decided" % q)
            for c in callers:
                judge(c, "the object returned by %s()" % fname, depth + 1)
        elif isinstance(par, ast.Assign) and len(par.targets) == 1 and isinstance(par.targets[0], ast.Name) and isinstance(fn, ast.FunctionDef):
            v = par.targets[0].id
            later = [x for x in ast.walk(fn) if isinstance(x, (ast.Call, ast.Raise)) and x is not expr and (
                x.lineno > par.end_lineno or (x.lineno == par.end_lineno and x.col_offset > par.end_col_offset))]
            dels = [x for x in ast.walk(fn) if isinstance(x, ast.Delete) and any(isinstance(t, ast.Name) and t.id == v for t in x.targets)]
            if later and not dels:
                r.violation(m.rel, q, "%s = %s" % (v, norm(ast.unparse(par.value))[:60]), "a second reference to the extension's writer object "
                            "in local `%s`, alive across `%s` (line %s): when that raises, the traceback keeps the frame and with it the "
                            "object, `del self.%s` in close() is then not the last reference - the destructor that closes and renames "
                            "the last file does not run and readers do not see its samples after close()" % (
                                v, norm(ast.unparse(later[0]))[:40], later[0].lineno, attr), line=par.lineno)
            elif dels:
                raise AnalysisError("%s: local alias `%s` of the writer object is deleted again: lifetime not decided" % (q, v))
            else:
                r.ok(site, "%s bound to `%s`, no call or raise while it is alive" % (what, v))
        else:
            raise AnalysisError("%s: use of the extension's writer object in `%s` not recognised (stored, passed to Python code or "
                                "captured): whether close() still drops the last reference is not decided" % (q, norm(ast.unparse(par))[:70]))

    for n in ast.walk(cls):
        if isinstance(n, ast.Attribute) and isinstance(n.ctx, ast.Load) and pyfront.dotted(n) == "self." + attr:
            judge(n, "self.%s" % attr)
        # the same read spelled getattr(self, "<attr>"[, default])
        elif isinstance(n, ast.Call) and pyfront.call_name(n) == "getattr" and len(n.args) >= 2 and pyfront.dotted(n.args[0]) == "self" \
                and isinstance(n.args[1], ast.Constant) and n.args[1].value == attr:
            judge(n, "getattr(self, %r)" % attr)
        elif isinstance(n, ast.Constant) and n.value == attr and not (isinstance(parent.get(n), ast.Call) and pyfront.call_name(parent[n]) in (
                "getattr", "hasattr", "delattr")):
            raise AnalysisError("DigitalRFWriter: the attribute name %r is used as a string in `%s`: how the writer object is reached there "
                                "is not decided" % (attr, norm(ast.unparse(parent.get(n, n)))[:70]))
    r.guard(5)
    return r


def r7_first_sample_before_last(repo=None):
    """'never fails ... visibility only grows': the per-directory bounds are taken with two listings, one ascending for the first
    sample and one descending for the last.  Files only ever appear, so looking for the first sample *first* can at worst give
    (None, last) - which the public get_bounds reports as "no data yet" - while the opposite order can give (first, None), a state
    that never existed and that get_last_write / read turn into a TypeError.  Order of the two listings on the CFG of _get_bounds
    (or, when one loop runs both, the order of the constants its `reverse` value is drawn from)."""
    r = Rule("C09.R7", "the per-directory bounds look for the first sample before they look for the last one")
    m = pyfront.mod("digital_rf_hdf5", repo)
    q = TL + "._get_bounds"
    fv = m.flat(q)
    f = fv.fn()
    g = fv.cfg()
    calls = [c for c in ast.walk(f) if isinstance(c, ast.Call) and (pyfront.call_name(c) or "").endswith("ilsdrf")]
    via_helper = {}
    if not calls:
        # the listing sits in a private helper that is not inlined (it returns from inside its loop): `self._find(..., reverse=False)`
        for c in ast.walk(f):
            if isinstance(c, ast.Call) and (pyfront.call_name(c) or "").startswith("self._"):
                h = m.functions.get("%s.%s" % (TL, pyfront.call_name(c)[5:]))
                if h is None:
                    continue
                inner = [x for x in ast.walk(h) if isinstance(x, ast.Call) and (pyfront.call_name(x) or "").endswith("ilsdrf")]
                if len(inner) != 1:
                    continue
                rvh = pyfront.kwarg(inner[0], "reverse")
                hp = [a.arg for a in h.args.args if a.arg != "self"]
                if isinstance(rvh, ast.Name) and rvh.id in hp:
                    idx = hp.index(rvh.id)
                    arg = c.args[idx] if idx < len(c.args) else pyfront.kwarg(c, rvh.id)
                    if arg is not None:
                        calls.append(c)
                        via_helper[id(c)] = arg
    if not calls:
        raise AnalysisError("%s: no listing call found" % q)
    order = []          # (reverse constant, node) in execution order
    for c in calls:
        rv = via_helper.get(id(c)) if id(c) in via_helper else pyfront.kwarg(c, "reverse")
        node = [n for n in g.nodes if any(x is c for x in pyfront.node_calls(n))]
        if rv is None or not node:
            raise AnalysisError("%s: `reverse` argument of a listing call not found" % q)
        if isinstance(rv, ast.Constant) and isinstance(rv.value, bool):
            order.append(([rv.value], node[0], c))
        elif isinstance(rv, ast.Name):
            # the loop variable of a loop over a literal: the constants in the order they are drawn
            lp = fv.enclosing(c, (ast.For,))
            while lp is not None and not any(isinstance(x, ast.Name) and x.id == rv.id for x in ast.walk(lp.target)):
                lp = fv.enclosing(lp, (ast.For,))
            it = lp.iter if lp is not None else None
            if isinstance(it, ast.Name):
                defs = [a.value for a in ast.walk(f) if isinstance(a, ast.Assign) and any(isinstance(t, ast.Name) and t.id == it.id for t in a.targets)]
                it = defs[0] if len(defs) == 1 else it
            if isinstance(it, ast.Call) and isinstance(it.func, ast.Attribute) and it.func.attr in ("items", "keys") and isinstance(it.func.value, ast.Name):
                defs = [a.value for a in ast.walk(f) if isinstance(a, ast.Assign) and any(isinstance(t, ast.Name) and t.id == it.func.value.id for t in a.targets)]
                it = defs[0] if len(defs) == 1 else it
            vals = None
            if isinstance(it, ast.Dict) and all(isinstance(k, ast.Constant) and isinstance(k.value, bool) for k in it.keys):
                vals = [k.value for k in it.keys]
            elif isinstance(it, (ast.Tuple, ast.List)):
                elts = [e.elts[0] if isinstance(e, ast.Tuple) and e.elts else e for e in it.elts]
                if all(isinstance(e, ast.Constant) and isinstance(e.value, bool) for e in elts):
                    vals = [e.value for e in elts]
            if vals is None:
                raise AnalysisError("%s: the values `%s` takes were not recognised" % (q, rv.id))
            order.append((vals, node[0], c))
        else:
            raise AnalysisError("%s: `reverse=%s` not recognised" % (q, norm(ast.unparse(rv))))
    # execution order of the call nodes: a node that can reach the other without the other reaching it first
    seq = []
    todo = list(order)
    while todo:
        firsts = [o for o in todo if not any(p is not o and o[1].id in g.reach([p[1].id], skip_labels=("exc", "back")) and p[1].id not in g.reach([o[1].id], skip_labels=("exc", "back")) for p in todo)]
        if not firsts:
            raise AnalysisError("%s: order of the listing calls not determined" % q)
        seq.append(firsts[0])
        todo = [o for o in todo if o is not firsts[0]]
    flat = [v for vals, node, c in seq for v in vals]
    site = "%s:%s %s" % (m.rel, seq[0][2].lineno, q)
    if flat and flat[0] is False and True in flat and flat.index(True) > 0 and False not in flat[flat.index(True):]:
        r.ok(site, "ascending listing (first sample) before the descending one (last sample)")
    elif set(flat) == {False, True}:
        r.violation(m.rel, q, "listings run with reverse = %s" % flat, "the last sample is looked for before the first one: a reader that polls "
                    "while the writer finalizes the first file of a channel can see (first, None) - bounds that never existed - and "
                    "get_last_write / read fail with a TypeError on them", line=seq[0][2].lineno)
    else:
        raise AnalysisError("%s: listings with reverse = %s (one ascending and one descending expected)" % (q, flat))
    r.guard(1)
    return r


def r8_every_candidate_is_probed_on_every_read(repo=None):
    """'visibility only grows': a file that is not there yet when one read looks for it is there for a later read.  The reader
    decides which candidate files exist by probing them (os.access) in `_read`; every candidate of the window must be probed on
    every read.  A path through the probing loop that reaches the next candidate without passing the probe, under a condition
    that reads state of the reader object (a set of names remembered as "gaps"), makes an absence observed once permanent for that
    reader object - files finished later are never read, although a fresh reader reads them."""
    r = Rule("C09.R8", "the presence probe of _read is passed for every candidate on every read (no skip that depends on what an earlier read saw)")
    m = pyfront.mod("digital_rf_hdf5", repo)
    q = TL + "._read"
    fv = m.flat(q)
    f = fv.fn()
    g = fv.cfg()
    n = 0
    probes = [nd for nd in g.nodes if nd.ast is not None and any(pyfront.call_name(c) == "os.access" for c in pyfront.node_calls(nd))]
    if not probes:
        raise AnalysisError("%s: no os.access probe found" % q)
    par = {}
    for x in ast.walk(f):
        for ch in ast.iter_child_nodes(x):
            par[ch] = x
    for pn in probes:
        calls = [c for c in pyfront.node_calls(pn) if pyfront.call_name(c) == "os.access"]
        c = calls[0]
        # comprehension form: `[p for p in candidates if os.access(p, R_OK)]` - other filters of the same generator
        comp = par.get(c)
        while comp is not None and not isinstance(comp, (ast.comprehension, ast.For, ast.FunctionDef)):
            comp = par.get(comp)
        site = "%s:%s %s `%s`" % (m.rel, c.lineno, q, norm(ast.unparse(c))[:50])
        if isinstance(comp, ast.comprehension):
            others = [t for t in comp.ifs if not any(y is c for y in ast.walk(t))]
            bad = [t for t in others if any(isinstance(y, ast.Attribute) and pyfront.dotted(y.value) == "self" for y in ast.walk(t))]
            n += 1
            if bad:
                r.violation(m.rel, q, norm(ast.unparse(bad[0]))[:80], "a candidate file is left out of the presence probe under a condition on the "
                            "reader's own state: an absence remembered from an earlier read hides a file that was finished since", line=c.lineno)
            elif others:
                raise AnalysisError("%s: the probing comprehension has another filter `%s`: not decided" % (q, norm(ast.unparse(others[0]))[:60]))
            else:
                r.ok(site, "the only filter of the probing comprehension")
            continue
        lp = comp if isinstance(comp, ast.For) else None
        if lp is None:
            raise AnalysisError("%s: the os.access probe at line %s is not inside a loop over the candidates" % (q, c.lineno))
        heads = [nd for nd in g.nodes if nd.kind == "cond" and nd.ast is lp]
        if len(heads) != 1:
            raise AnalysisError("%s: loop head of the probing loop not found on the CFG" % q)
        head = heads[0]
        starts = [b for b, l in g.succ[head.id] if l == "T"]
        reach = g.reach(starts, avoid=[pn.id, head.id], skip_labels=("exc",))
        bypass = any(head.id in [b for b, l in g.succ[x] if l != "exc"] for x in reach)
        n += 1
        if not bypass:
            r.ok(site, "every path through the body of the candidate loop passes the probe")
            continue
        # the conditions that let an iteration end without the probe
        guards = [g.nodes[x] for x in reach if g.nodes[x].kind == "cond" and g.nodes[x].ast is not None and not isinstance(g.nodes[x].ast, (ast.For, ast.While))]
        state = [gd for gd in guards if any(isinstance(y, ast.Attribute) and pyfront.dotted(y.value) == "self" for y in ast.walk(gd.ast))]
        if state:
            r.violation(m.rel, q, norm(ast.unparse(state[0].ast))[:80], "an iteration of the candidate loop can end without the os.access probe "
                        "under a condition on the reader's own state: a file found absent once (not finished yet) is never looked for "
                        "again by this reader object - what it returns stops growing while the recording goes on", line=state[0].line)
        else:
            raise AnalysisError("%s: an iteration of the candidate loop can end without the probe (%s): not decided" % (
                q, "; ".join(norm(ast.unparse(gd.ast))[:40] for gd in guards[:2]) or "no condition found"))
    if n < 1:
        raise AnalysisError("%s: no probing site judged" % q)
    r.guard(1)
    return r


def rules(repo=None):
    return [lambda: r8_every_candidate_is_probed_on_every_read(repo), lambda: r7_first_sample_before_last(repo), lambda: r5_snapshot_spans_all_directories(repo), lambda: r6_capsule_has_one_owner(repo), _rebrand(lambda: c02.r1_tmp_provenance(repo), "C09.P1"), _rebrand(lambda: c02.r2_publish_after_close(repo), "C09.P2"),
            _rebrand(lambda: c02.r3_no_writer_of_final(repo), "C09.P3"), _rebrand(lambda: c02.r4_staged_creation(repo), "C09.P4"),
            _rebrand(lambda: c02.r5_readers_ignore_tmp(repo), "C09.P5"),
            _rebrand(lambda: c02.r6_identity_stable_until_published(repo), "C09.P6"),
            _rebrand(lambda: c02.r7_failed_create_not_published(repo), "C09.P7"),
            lambda: c20.r1_read_roles(repo, rid="C09.R1", prefixes=("digital_rf_hdf5:", "list_drf:"),
                                          stop_modules=("digital_metadata",)),
            lambda: r2_tolerates_vanished_files(repo), lambda: r3_cache_is_keyed_by_full_name(repo),
            lambda: r4_consistent_snapshot(repo)]


EXPLANATION = (
    'Protocol argument for all interleavings of two processes sharing only the directory tree. P1-P7 = C02.R1-R7 (tmp-'
    'name provenance, close-before-rename typestate, no writer of final names, staged creation, grammars exclude tmp.). '
    'R1: no path in the call graph from any DigitalRFReader / listing entry point to a file-system mutator. R2: '
    'get_bounds skips files that fail to open; _read tolerates a file that is not there (os.access probe, or a caught '
    'IOError of the open) and opens read-only. R3: the per-file cache is keyed by the full path, all of it is refreshed '
    'when the path changes, and once the cached handle is closed the key is re-assigned or cleared before the iteration '
    'can be left without a successful open (no key naming a closed file). R4: one read call sees a prefix of the files '
    'finalized: the existence probes of _read form a newest-first pass that is complete before any file is opened. With '
    'POSIX rename atomicity these imply that a reader sees exactly the finalized files and that set only grows. R5: the '
    'per-directory read step (which probes and opens) may not sit in the loop over the top-level directories of read / '
    'get_continuous_blocks - one snapshot over all directories before anything is read; on the pinned tree it does '
    '(recorded finding F55, printed as KNOWN-FINDING). R6: close() publishes the last file by deleting the one attribute '
    "that holds the extension's writer object (its destructor closes and renames); every read of that attribute is a "
    'direct argument of an extension call, a test, or the delete - a second reference in a local alive across a call or '
    'raise (directly or through a helper that returns the object) survives in a traceback and is reported, any other use '
    'is not decided. R7: in the per-directory bounds the ascending listing (first sample) runs before the descending one '
    '(files only appear: (None, last) is harmless, (first, None) never existed). Does NOT decide failures outside the '
    'protocol (EMFILE, permissions) or timing.')
TECHNIQUE = ("C02's protocol rules + package call graph reachability (read roles), CFG checks of vanished-file tolerance, cache key def-use")
ASSUMPTIONS = c02.ASSUMPTIONS + ["a finalized RF file is never modified (C02.R3), so cached index data cannot go stale"]
FILES = c02.FILES
