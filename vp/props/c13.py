"""C13 -- Digital Metadata file placement agrees between writer and reader.

Decides: exact (integer-only) placement arithmetic in writer and reader, one formula on both sides, name and
sub-directory format agreement.
"""
from __future__ import annotations

import ast

from ..core import Rule, AnalysisError, norm
from .. import pyfront, pytaint, rx, cfold

W = "DigitalMetadataWriter"
R = "DigitalMetadataReader"
FLOAT_ATTRS = ("_samples_per_second",)


def _floor_chain(e, env, depth=0):
    """Normal form of a nested floor-division by positive integers: (numerator factors, denominator factors) as
    sorted tuples of leaf names, following single-assignment locals in env.  None if not of that form."""
    if depth > 12:
        return None
    if isinstance(e, ast.Call) and pyfront.call_name(e) == "int" and len(e.args) == 1:
        return _floor_chain(e.args[0], env, depth + 1)
    if isinstance(e, ast.BinOp) and isinstance(e.op, ast.FloorDiv):
        a = _floor_chain(e.left, env, depth + 1)
        b = _product(e.right, env, depth + 1)
        if a is None or b is None:
            return None
        return (a[0], tuple(sorted(a[1] + b)))
    p = _product(e, env, depth + 1)
    if p is None:
        return None
    return (p, ())


def _leaf(e):
    d = pyfront.dotted(e)
    if d is None:
        return None
    return d.replace("self._", "").replace("self.", "")


def _product(e, env, depth=0):
    if depth > 12:
        return None
    if isinstance(e, ast.Call) and pyfront.call_name(e) == "int" and len(e.args) == 1:
        return _product(e.args[0], env, depth + 1)
    if isinstance(e, ast.BinOp) and isinstance(e.op, ast.Mult):
        a, b = _product(e.left, env, depth + 1), _product(e.right, env, depth + 1)
        if a is None or b is None:
            return None
        return tuple(sorted(a + b))
    if isinstance(e, ast.Name) and e.id in env:
        return _product(env[e.id], env, depth + 1)
    l = _leaf(e)
    if l is None:
        return None
    return (l,)


def _single_assign_env(fn):
    env = {}
    count = {}
    for n in pyfront.walk_no_nested(fn):
        if isinstance(n, ast.Assign) and len(n.targets) == 1 and isinstance(n.targets[0], ast.Name):
            count[n.targets[0].id] = count.get(n.targets[0].id, 0) + 1
            env[n.targets[0].id] = n.value
    return {k: v for k, v in env.items() if count[k] == 1}


class NoPerSampleKey(Exception):
    """The writer no longer groups samples by a per-sample key function."""

    def __init__(self, m, wf):
        Exception.__init__(self, "no per-sample grouping key")
        self.m = m
        self.wf = wf


def _no_key_violation(r, e):
    uses_ts = "file_ts" in ast.unparse(e.wf) or "file_basename" in ast.unparse(e.wf)
    if not uses_ts:
        raise AnalysisError("%s._sample_group_generator no longer derives file names (anchor vanished)" % W)
    r.violation(e.m.rel, W + "._sample_group_generator", "samples are not grouped by itertools.groupby(samples, <placement formula>)",
                "the file of each individual sample is no longer computed from that sample's own index with the formula the reader "
                "uses (floor(k*d/(n*cadence))): writer and reader cannot be shown to agree on samples at file boundaries",
                line=e.wf.lineno)
    return r


def placement_exprs(repo=None):
    """(module, writer key expr + env, reader start_ts expr + env)"""
    m = pyfront.mod("digital_metadata", repo)
    wf = m.fn(W + "._sample_group_generator")
    key = None
    for c in ast.walk(wf):
        if isinstance(c, ast.Call) and pyfront.call_name(c) == "itertools.groupby" and len(c.args) == 2 \
                and isinstance(c.args[1], ast.Lambda):
            key = c.args[1]
    if key is None:
        raise NoPerSampleKey(m, wf)
    rf = m.fn(R + "._get_file_list")
    starts = [n for n in pyfront.walk_no_nested(rf) if isinstance(n, ast.Assign) and isinstance(n.targets[0], ast.Name)
              and n.targets[0].id in ("start_ts", "end_ts")]
    if len(starts) < 2:
        raise AnalysisError("%s._get_file_list: start_ts/end_ts assignments not found" % R)
    return m, wf, key, rf, starts


def r1_exact_placement(repo=None, rid="C13.R1"):
    r = Rule(rid, "metadata file placement uses exact integer arithmetic in writer and reader (float taint)")
    try:
        m, wf, key, rf, starts = placement_exprs(repo)
    except NoPerSampleKey as e:
        return _no_key_violation(r, e)
    tw = pytaint.Taint(wf, float_attrs=FLOAT_ATTRS)
    kt = tw.expr(key.body)
    qn = W + "._sample_group_generator"
    if kt == "F":
        r.violation(m.rel, qn, "groupby key: %s" % norm(ast.unparse(key)), "the file of a sample is chosen with floating-point "
                    "arithmetic: for non-integer sample rates a sample exactly on a file boundary is stored in the neighbouring "
                    "file, where the reader does not look", line=key.lineno)
    else:
        r.ok("%s:%s %s groupby key `%s`" % (m.rel, key.lineno, qn, norm(ast.unparse(key.body))), "no floating point in the key's slice")
    fv = [v for v in tw.root_float_vars() if v in ("file_ts", "file_idx", "start_sub_ts", "samples_per_file")]
    for v in fv:
        r.violation(m.rel, qn, "%s = %s" % (v, norm(ast.unparse(tw.why[v])) if v in tw.why else "?"),
                    "`%s` is derived through floating point" % v, line=getattr(tw.why.get(v), "lineno", wf.lineno))
    tr = pytaint.Taint(rf, float_attrs=FLOAT_ATTRS)
    qr = R + "._get_file_list"
    rfv = tr.root_float_vars()
    if rfv:
        for v in rfv:
            r.violation(m.rel, qr, "%s = %s" % (v, norm(ast.unparse(tr.why[v])) if v in tr.why else "?"),
                        "the reader computes `%s` through floating point: the file it looks in can differ from the file the "
                        "sample's exact time selects" % v, line=getattr(tr.why.get(v), "lineno", rf.lineno))
    else:
        r.ok("%s:%s %s" % (m.rel, rf.lineno, qr), "start_ts / end_ts and everything derived from them are free of floating-point taint")
    r.guard(2)
    return r


def r2_one_formula(repo=None):
    r = Rule("C13.R2", "writer and reader map a sample index to its file with the same formula")
    try:
        m, wf, key, rf, starts = placement_exprs(repo)
    except NoPerSampleKey as e:
        return _no_key_violation(r, e)
    wenv = _single_assign_env(wf)
    renv = _single_assign_env(rf)
    # writer: file index = key(s); file_ts = file_idx * cadence
    kb = key.body
    arg = key.args.args[0].arg
    wn = _floor_chain(kb, wenv)
    # reader: start_ts = floor(sample0*d/n); then (start_ts // cadence) * cadence
    first = starts[0]
    rn = _floor_chain(first.value, renv)
    site = "%s:%s/%s" % (m.rel, key.lineno, first.lineno)
    if wn is None or rn is None:
        r.violation(m.rel, W + "._sample_group_generator", "writer `%s` / reader `%s`" % (norm(ast.unparse(kb)), norm(ast.unparse(first.value))),
                    "placement expressions are not nested floor divisions of integer products; writer and reader cannot be "
                    "shown to use one formula", line=key.lineno)
        return r
    # normalise: writer file index = floor(k*d / (n*c)); reader second = floor(k*d/n), then //c
    def rename(t, frm, to):
        return tuple(sorted(to if x == frm else x for x in t))
    wnum, wden = rename(wn[0], arg, "k"), wn[1]
    rvar = [x for x in rn[0] if x.startswith("sample")]
    rnum = rename(rn[0], rvar[0], "k") if rvar else rn[0]
    rden = rn[1]
    # the reader then floors by the file cadence: find `(start_ts // cadence) * cadence`
    src = ast.unparse(rf)
    cad_ok = "start_ts = start_ts // self._file_cadence_secs * self._file_cadence_secs" in src
    full_rden = tuple(sorted(rden + ("file_cadence_secs",))) if cad_ok else rden
    wden_n = tuple(sorted(wden))
    canon = lambda t: tuple(sorted(x.replace("_sample_rate", "sample_rate").lstrip("_") for x in t))
    want_num = ("k", "sample_rate_denominator")
    want_den = ("file_cadence_secs", "sample_rate_numerator")
    if canon(wnum) == canon(rnum) == want_num and canon(wden_n) == canon(full_rden) == want_den:
        r.ok(site, "writer floor(k*d/(n*cadence)) and reader floor(floor(k*d/n)/cadence) are the same function "
                   "(nested floor division by positive integers collapses)")
    else:
        r.violation(m.rel, W + "._sample_group_generator", "writer num=%s den=%s / reader num=%s den=%s" % (
            canon(wnum), canon(wden_n), canon(rnum), canon(full_rden)), "writer and reader place samples with different "
            "formulas (expected floor(k*d/(n*cadence)) on both sides)", line=key.lineno)
    # file_ts = file_idx * cadence in the writer
    if "file_ts = file_idx * self._file_cadence_secs" in ast.unparse(wf):
        r.ok("%s %s" % (m.rel, W + "._sample_group_generator"), "file timestamp = file index * file cadence")
    else:
        r.violation(m.rel, W + "._sample_group_generator", "file_ts", "file timestamp is not file index * cadence", line=wf.lineno)
    r.guard(2)
    return r


def r3_format_agreement(repo=None):
    r = Rule("C13.R3", "writer and reader agree on metadata file and sub-directory name formats; both fit the listing grammar")
    m = pyfront.mod("digital_metadata", repo)
    wf = m.fn(W + "._sample_group_generator")
    rf = m.fn(R + "._get_file_list")
    def fmts(fn):
        f1 = [n.left.value for n in ast.walk(fn) if isinstance(n, ast.BinOp) and isinstance(n.op, ast.Mod)
              and isinstance(n.left, ast.Constant) and isinstance(n.left.value, str) and "@" in n.left.value]
        f2 = [pyfront.const(c.args[0]) for c in ast.walk(fn) if isinstance(c, ast.Call) and isinstance(c.func, ast.Attribute)
              and c.func.attr == "strftime"]
        return f1, f2
    w1, w2 = fmts(wf)
    r1, r2 = fmts(rf)
    if len(w1) != 1 or len(r1) != 1 or len(w2) != 1 or len(r2) != 1:
        raise AnalysisError("metadata name formats not found (writer %s %s, reader %s %s)" % (w1, w2, r1, r2))
    f = cfold.Folder(repo)
    pats = {"W": rx.printf_to_regex(w1[0])[0], "R": rx.printf_to_regex(r1[0])[0], "WS": rx.strftime_to_regex(w2[0]),
            "RS": rx.strftime_to_regex(r2[0]), "DMD": f.name("list_drf", "_RE_DMDFILE"), "SUB": f.name("list_drf", "_RE_SUBDIR"),
            "NAMEOK": r"(?!tmp\.)[^/@\n]+@"}
    sp = rx.Space(pats, texts=["tmp.@.h5"])
    eq, a, b = sp["W"].equals(sp["R"])
    if eq:
        r.ok("%s writer %r / reader %r" % (m.rel, w1[0], r1[0]), "same language")
    else:
        r.violation(m.rel, R + "._get_file_list", "writer %r vs reader %r" % (w1[0], r1[0]), "file name formats differ (witness %r)" % (
            a if a is not None else b), line=rf.lineno)
    eq, a, b = sp["WS"].equals(sp["RS"])
    if eq:
        r.ok("%s writer strftime %r / reader %r" % (m.rel, w2[0], r2[0]), "same language")
    else:
        r.violation(m.rel, R + "._get_file_list", "writer %r vs reader %r" % (w2[0], r2[0]), "sub-directory formats differ", line=rf.lineno)
    ok, w = (sp["W"] & sp["NAMEOK"]).subset_of(sp["DMD"])
    if ok:
        r.ok("%s writer %r vs RE_DMDFILE" % (m.rel, w1[0]), "every name with a sane prefix (no '@', '/', not tmp.) is in the listing grammar")
    else:
        r.violation(m.rel, W + "._sample_group_generator", "writer %r vs RE_DMDFILE" % w1[0], "a metadata file name is not accepted "
                    "by the listing grammar (witness %r)" % w, line=wf.lineno)
    ok, w = sp["WS"].subset_of(sp["SUB"])
    if ok:
        r.ok("%s writer strftime vs _RE_SUBDIR" % m.rel, "included")
    else:
        r.violation(m.rel, W + "._sample_group_generator", "strftime %r" % w2[0], "sub-directory not accepted by the listing grammar", line=wf.lineno)
    r.guard(4)
    return r


def r4_subdir_per_file(repo=None):
    r = Rule("C13.R4", "the sub-directory of every metadata file is recomputed from that file's own timestamp")
    m = pyfront.mod("digital_metadata", repo)
    q = W + "._sample_group_generator"
    g = m.cfg(q)
    heads = [n for n in g.nodes if n.kind == "cond" and isinstance(n.ast, ast.For) and "file_idx" in ast.unparse(n.ast.target)]
    opens = [n for n in g.nodes if any(pyfront.call_name(c) == "h5py.File" for c in pyfront.node_calls(n))]
    if len(heads) != 1 or not opens:
        raise AnalysisError("%s: per-file loop or h5py.File not found" % q)
    need = {"file_ts": "file_idx * self._file_cadence_secs",
            "start_sub_ts": "file_ts // self._subdir_cadence_secs * self._subdir_cadence_secs",
            "this_file": "os.path.join(subdir, file_basename)"}
    body = [b for b, l in g.succ[heads[0].id] if l == "T"]
    for var, want in need.items():
        defs = [n for n in g.nodes if isinstance(n.ast, ast.Assign) and len(n.ast.targets) == 1 and isinstance(n.ast.targets[0], ast.Name)
                and n.ast.targets[0].id == var]
        good = [n for n in defs if norm(ast.unparse(n.ast.value)) == want]
        others = [n for n in defs if n not in good]
        if not good or others:
            x = (others or defs or heads)[0]
            r.violation(m.rel, q, "%s = %s" % (var, norm(ast.unparse(x.ast.value)) if isinstance(x.ast, ast.Assign) else "?"),
                        "`%s` is not (only) computed as `%s`" % (var, want), line=x.line)
            continue
        skip = [o for o in opens if o.id in g.reach(body, avoid=[n.id for n in good], skip_labels=("exc", "back"))]
        if skip:
            r.violation(m.rel, q, "`%s = %s` is not executed on every iteration before the file is opened" % (var, want),
                        "the location of a file depends on state left over from an earlier group of the same write() call (e.g. a "
                        "cached sub-directory): a sample whose file lies in another sub-directory than the previous group's is "
                        "stored where the reader does not look", line=good[0].line)
        else:
            r.ok("%s:%s %s `%s = %s`" % (m.rel, good[0].line, q, var, want), "computed on every iteration before the file is opened")
    r.guard(3)
    return r


def rules(repo=None):
    return [lambda: r1_exact_placement(repo), lambda: r2_one_formula(repo), lambda: r3_format_agreement(repo),
            lambda: r4_subdir_per_file(repo)]


EXPLANATION = (
    "R1: float-taint analysis of the writer's groupby key / file timestamp and of the reader's start_ts/end_ts (true "
    "division, longdouble samples_per_second, float literals are sources; taint survives int()/np.uint64()). R2: both "
    "expressions are normalised as nested floor divisions of integer products and must both equal floor(k*d/(n*cadence)). "
    "R3: regular-language equality of the file-name and sub-directory formats and inclusion in the listing grammar. R4: file "
    "timestamp, sub-directory timestamp and path are recomputed from the group's own file index on every iteration (must-pass).")
ASSUMPTIONS = ["Python int arithmetic is exact; floor(floor(x/a)/b) = floor(x/(a*b)) for positive integers",
               "strftime field widths for dates within the property's bounds"]
FILES = ["python/digital_rf/digital_metadata.py", "python/digital_rf/list_drf.py"]
