"""C13 -- Digital Metadata file placement agrees between writer and reader.

Decides: exact (integer-only) placement arithmetic in writer and reader, one formula on both sides, name and
sub-directory format agreement.
"""
from __future__ import annotations

import ast

from ..core import Rule, AnalysisError, norm
from .. import pyfront, pytaint, rx, cfold, pysym
from . import dmdroles

W = "DigitalMetadataWriter"
R = "DigitalMetadataReader"
FLOAT_ATTRS = ("_samples_per_second",)


def _floor_chain(e, env, depth=0):
    """Normal form of a nested floor-division by positive integers: (numerator factors, denominator factors) as
    sorted tuples of leaf names, following single-assignment locals in env.  None if not of that form."""
    if depth > 12:
        return None
    if isinstance(e, ast.Call) and pyfront.call_name(e) == "int" and len(e.args) == 1:
        return _floor_chain(e.args[0], env, depth + 1)
    if isinstance(e, ast.BinOp) and isinstance(e.op, ast.FloorDiv):
        a = _floor_chain(e.left, env, depth + 1)
        b = _product(e.right, env, depth + 1)
        if a is None or b is None:
            return None
        return (a[0], tuple(sorted(a[1] + b)))
    p = _product(e, env, depth + 1)
    if p is None:
        return None
    return (p, ())


def _leaf(e):
    d = pyfront.dotted(e)
    if d is None:
        return None
    return d.replace("self._", "").replace("self.", "")


def _product(e, env, depth=0):
    if depth > 12:
        return None
    if isinstance(e, ast.Call) and pyfront.call_name(e) == "int" and len(e.args) == 1:
        return _product(e.args[0], env, depth + 1)
    if isinstance(e, ast.BinOp) and isinstance(e.op, ast.Mult):
        a, b = _product(e.left, env, depth + 1), _product(e.right, env, depth + 1)
        if a is None or b is None:
            return None
        return tuple(sorted(a + b))
    if isinstance(e, ast.Name) and e.id in env:
        return _product(env[e.id], env, depth + 1)
    l = _leaf(e)
    if l is None:
        return None
    return (l,)


def _single_assign_env(fn):
    env = {}
    count = {}
    for n in pyfront.walk_no_nested(fn):
        if isinstance(n, ast.Assign) and len(n.targets) == 1 and isinstance(n.targets[0], ast.Name):
            count[n.targets[0].id] = count.get(n.targets[0].id, 0) + 1
            env[n.targets[0].id] = n.value
    return {k: v for k, v in env.items() if count[k] == 1}


class NoPerSampleKey(Exception):
    """The writer no longer groups samples by a per-sample key function."""

    def __init__(self, m, wf):
        Exception.__init__(self, "no per-sample grouping key")
        self.m = m
        self.wf = wf


def _no_key_violation(r, e):
    uses_ts = "file_ts" in ast.unparse(e.wf) or "file_basename" in ast.unparse(e.wf)
    if not uses_ts:
        raise AnalysisError("%s no longer derives file names (anchor vanished)" % e.m.qualname)
    r.violation(e.m.rel, e.m.qualname, "samples are not grouped by itertools.groupby(samples, <placement formula>)",
                "the file of each individual sample is no longer computed from that sample's own index with the formula the reader "
                "uses (floor(k*d/(n*cadence))): writer and reader cannot be shown to agree on samples at file boundaries",
                line=e.wf.lineno)
    return r


class Key(object):
    """the writer's per-sample grouping key: argument name, body expression, defining node"""

    def __init__(self, arg, body, node):
        self.arg, self.body, self.node = arg, body, node
        self.lineno = node.lineno


def _key_function(m, wf, e):
    if isinstance(e, ast.Lambda) and len(e.args.args) == 1:
        return Key(e.args.args[0].arg, e.body, e)
    target = None
    if isinstance(e, ast.Name):
        for n in ast.walk(wf):
            if isinstance(n, ast.FunctionDef) and n is not wf and n.name == e.id:
                target = n
            if isinstance(n, ast.Assign) and len(n.targets) == 1 and isinstance(n.targets[0], ast.Name) and n.targets[0].id == e.id \
                    and isinstance(n.value, ast.Lambda):
                return _key_function(m, wf, n.value)
        if target is None and e.id in m.functions:
            target = m.functions[e.id]
        params = [a.arg for a in target.args.args] if target is not None else []
    elif isinstance(e, ast.Attribute) and pyfront.dotted(e) and pyfront.dotted(e).startswith("self."):
        target = m.functions.get(W + "." + pyfront.dotted(e)[5:])
        params = [a.arg for a in target.args.args if a.arg != "self"] if target is not None else []
    if target is None or len(params) != 1:
        return None
    body = [x for x in target.body if not (isinstance(x, ast.Expr) and isinstance(x.value, ast.Constant))]
    n_ret = sum(1 for x in ast.walk(target) if isinstance(x, ast.Return))
    if n_ret > 1:
        # several returns: the key is the formula only if every path returns the same expression of the sample
        from .. import pyform
        outs = pyform.outcomes(target)
        vals = {}
        for o in outs:
            if o.value is None:
                raise AnalysisError("%s: the grouping key function can fall off its end" % target.name)
            vals.setdefault(norm(ast.unparse(o.value)), o)
        if len(vals) > 1:
            state = [t for t, o in vals.items() if "self._" in t and params[0] not in {x.id for x in ast.walk(o.value) if isinstance(x, ast.Name)}]
            raise AnalysisError("%s: the grouping key is not one expression of the sample on every path (%s)%s; whether the paths "
                                "agree for every sample index is value-level arithmetic and is not decided" % (
                                    target.name, " | ".join(sorted(v[:50] for v in vals)),
                                    (": on a path it is read from state the writer remembered from an earlier sample (`%s`)" % state[0][:50]) if state else ""))
        o = list(vals.values())[0]
        return Key(params[0], o.value, target)
    env = pysym.seq_env(body[:-1])
    if not isinstance(body[-1], ast.Return) or body[-1].value is None:
        return None
    return Key(params[0], pysym.subst(body[-1].value, env), target)


def placement_exprs(repo=None):
    """(module, writer fn, writer key, reader fn)"""
    ro = dmdroles.roles(repo)
    m = ro.gen_view            # writer generator with its private helpers inlined (duck-types the module for the callers)
    wf = m.fn()
    key = None
    for c in ast.walk(wf):
        if isinstance(c, ast.Call) and pyfront.call_name(c) in ("itertools.groupby", "groupby") and (
                len(c.args) == 2 or pyfront.kwarg(c, "key") is not None):
            key = _key_function(m, wf, pyfront.kwarg(c, "key", 1))
            if key is None:
                raise AnalysisError("%s: groupby key function `%s` not resolved" % (
                    ro.gen, norm(ast.unparse(pyfront.kwarg(c, "key", 1)))))
    if key is None:
        raise NoPerSampleKey(m, wf)
    rf = ro.filelist_view.fn()
    return m, wf, key, rf


def _is_groupby(e):
    return isinstance(e, ast.Call) and pyfront.call_name(e) in ("itertools.groupby", "groupby")


def _defs_of(wf, name):
    return [n.value for n in ast.walk(wf) if isinstance(n, ast.Assign) and len(n.targets) == 1 and isinstance(n.targets[0], ast.Name)
            and n.targets[0].id == name]


def _writer_loop(m, wf):
    """(the loop over the groupby result, name of the per-group file index)"""
    loop = None
    for n in ast.walk(wf):
        if isinstance(n, ast.For) and any(isinstance(c, ast.Call) and pyfront.call_name(c) in ("itertools.groupby", "groupby")
                                          for c in ast.walk(n.iter)):
            loop = n
    if loop is None:
        # the groups bound to a local first (possibly on one branch only: r5 judges the other definitions of that local)
        for n in ast.walk(wf):
            if isinstance(n, ast.For) and isinstance(n.iter, ast.Name) and any(_is_groupby(d) for d in _defs_of(wf, n.iter.id)):
                loop = n
    if loop is None or not isinstance(loop.target, ast.Tuple) or not isinstance(loop.target.elts[0], ast.Name):
        raise AnalysisError("%s: loop over the groupby result not recognised" % m.qualname)
    return loop, loop.target.elts[0].id


def _writer_forms(m, wf, key):
    """canonical forms of the file timestamp in the file name and of the sub-directory timestamp, in terms of leaf `k`"""
    loop, idx = _writer_loop(m, wf)
    pre = [x for x in wf.body]
    env = pysym.seq_env(pre, stop=loop)
    kbody = pysym.subst(key.body, env)
    kbody = pysym.subst(kbody, {key.arg: ast.Name("k", ast.Load())})
    env2 = pysym.Env(env)
    env2.branch_dependent = getattr(env, 'branch_dependent', frozenset())
    env2[idx] = kbody
    env2 = pysym.seq_env(loop.body, env2)
    fold = cfold.Folder(getattr(m.module, "_repo_hint", None)) if False else None
    fmt = []
    for n in ast.walk(loop):
        if isinstance(n, ast.BinOp) and isinstance(n.op, ast.Mod):
            val = n.left.value if isinstance(n.left, ast.Constant) else None
            if val is None and isinstance(n.left, ast.Name):
                mv = m.module_assign(n.left.id)
                val = mv.value if isinstance(mv, ast.Constant) else None
            if isinstance(val, str) and "@" in val:
                fmt.append(n)
    # the sub-directory's start second: the argument of fromtimestamp(ts, ...) or of `<epoch> + datetime.timedelta(seconds=ts)`
    class _TS(object):
        def __init__(self, node, arg):
            self.node, self.args, self.lineno = node, [arg], node.lineno
    ts = [_TS(c, c.args[0]) for c in ast.walk(loop) if isinstance(c, ast.Call) and isinstance(c.func, ast.Attribute) and c.func.attr in (
        "fromtimestamp", "utcfromtimestamp") and c.args]
    for b_ in ast.walk(loop):
        if isinstance(b_, ast.BinOp) and isinstance(b_.op, ast.Add):
            for side in (b_.left, b_.right):
                if isinstance(side, ast.Call) and pyfront.call_name(side) == "datetime.timedelta" and not side.args \
                        and [k.arg for k in side.keywords] == ["seconds"]:
                    v = side.keywords[0].value
                    if isinstance(v, ast.Call) and pyfront.call_name(v) == "int" and len(v.args) == 1:
                        v = v.args[0]
                    ts.append(_TS(b_, v))
    if len(fmt) != 1 or not isinstance(fmt[0].right, ast.Tuple) or len(fmt[0].right.elts) != 2 or len(ts) != 1:
        raise AnalysisError("%s: file-name format / sub-directory time (fromtimestamp or epoch + timedelta(seconds=)) not found exactly once" % m.qualname)
    # evaluate the two arguments at their program points
    envf = pysym.Env(env); envf.branch_dependent = getattr(env, 'branch_dependent', frozenset()); envf[idx] = kbody
    envf = pysym.seq_env(loop.body, envf, stop=m.enclosing(fmt[0], (ast.stmt,)))
    file_c = pysym.canon(pysym.subst(fmt[0].right.elts[1], envf))
    envs = pysym.Env(env); envs.branch_dependent = getattr(env, 'branch_dependent', frozenset()); envs[idx] = kbody
    envs = pysym.seq_env(loop.body, envs, stop=m.enclosing(ts[0].node, (ast.stmt,)))
    sub_c = pysym.canon(pysym.subst(ts[0].args[0], envs))
    return loop, idx, file_c, sub_c, fmt[0], ts[0]


def _reader_forms(m, rf):
    """for each range parameter (sample0, sample1): canonical forms of all locals derived from it before the listing loop"""
    params = [a.arg for a in rf.args.args if a.arg != "self"]
    if len(params) < 2:
        raise AnalysisError("%s._get_file_list: parameters not recognised" % R)
    loops = [x for x in rf.body if isinstance(x, ast.For)]
    if not loops:
        raise AnalysisError("%s._get_file_list: sub-directory loop not found" % R)
    env = pysym.seq_env(rf.body, stop=loops[0])
    used = {n.id for n in ast.walk(loops[0]) if isinstance(n, ast.Name) and isinstance(n.ctx, ast.Load)}
    out = {}
    for p in params[:2]:
        forms = {}
        for name, val in env.items():
            c = pysym.canon(val)
            if p in pysym.leaves(c) and name in used:
                if name in getattr(env, "branch_dependent", ()):
                    raise AnalysisError("%s._get_file_list: `%s` (derived from `%s`, used by the listing loop) depends on which branch ran; "
                                        "the straight-line placement forms do not decide it" % (R, name, p))
                forms[name] = pysym.rename_leaf(c, p, "k")
        out[p] = forms
    return params[:2], loops[0], out


def r1_exact_placement(repo=None, rid="C13.R1"):
    r = Rule(rid, "metadata file placement uses exact integer arithmetic in writer and reader (float taint)")
    try:
        m, wf, key, rf = placement_exprs(repo)
    except NoPerSampleKey as e:
        return _no_key_violation(r, e)
    tw = pytaint.Taint(wf, float_attrs=FLOAT_ATTRS)
    kt = tw.expr(key.body)
    qn = m.qualname
    if kt == "F":
        r.violation(m.rel, qn, "groupby key: %s" % norm(ast.unparse(key.body)), "the file of a sample is chosen with floating-point "
                    "arithmetic: for non-integer sample rates a sample exactly on a file boundary is stored in the neighbouring "
                    "file, where the reader does not look", line=key.lineno)
    else:
        r.ok("%s:%s %s groupby key `%s`" % (m.rel, key.lineno, qn, norm(ast.unparse(key.body))), "no floating point in the key's slice")
    # every local in the slice of the file path
    opens = [c for c in ast.walk(wf) if isinstance(c, ast.Call) and pyfront.call_name(c) == "h5py.File"]
    slice_vars = set()
    if opens:
        work = [n.id for n in ast.walk(opens[0].args[0]) if isinstance(n, ast.Name)] if opens[0].args else []
        while work:
            v = work.pop()
            if v in slice_vars:
                continue
            slice_vars.add(v)
            for n in pyfront.walk_no_nested(wf):
                if isinstance(n, ast.Assign) and any(isinstance(t, ast.Name) and t.id == v for t in n.targets):
                    work.extend(x.id for x in ast.walk(n.value) if isinstance(x, ast.Name))
    fv = [v for v in tw.root_float_vars() if v in slice_vars]
    for v in fv:
        r.violation(m.rel, qn, "%s = %s" % (v, norm(ast.unparse(tw.why[v])) if v in tw.why else "?"),
                    "`%s` (part of the file path) is derived through floating point" % v, line=getattr(tw.why.get(v), "lineno", wf.lineno))
    tr = pytaint.Taint(rf, float_attrs=FLOAT_ATTRS)
    qr = dmdroles.roles(repo).filelist
    rfv = tr.root_float_vars()
    if rfv:
        for v in rfv:
            r.violation(m.rel, qr, "%s = %s" % (v, norm(ast.unparse(tr.why[v])) if v in tr.why else "?"),
                        "the reader computes `%s` through floating point: the file it looks in can differ from the file the "
                        "sample's exact time selects" % v, line=getattr(tr.why.get(v), "lineno", rf.lineno))
    else:
        r.ok("%s:%s %s" % (m.rel, rf.lineno, qr), "the range bounds and everything derived from them are free of floating-point taint")
    # the reader's queries hand only exactly chosen files to _add_metadata (no float-derived time in the choice)
    for name, fq in m.methods(R).items():
        calls = [c for c in pyfront.walk_no_nested(fq) if isinstance(c, ast.Call) and pyfront.call_name(c) == "self._add_metadata"]
        if not calls:
            continue
        tq = pytaint.Taint(fq, float_attrs=FLOAT_ATTRS)
        for c in calls:
            bad = [a for a in c.args[1:2] if tq.expr(a) == "F"]
            if bad:
                v = bad[0]
                why = tq.why.get(v.id) if isinstance(v, ast.Name) else None
                r.violation(m.rel, "%s.%s" % (R, name), "_add_metadata(.., %s, ..) where %s derives from %s" % (
                            norm(ast.unparse(v)), norm(ast.unparse(v)), norm(ast.unparse(why))[:80] if why is not None else "a float"),
                            "the file handed to the reader is chosen through floating-point time arithmetic, not through the exact "
                            "integer placement: for non-integer sample rates a sample on a file boundary is looked for in the wrong file",
                            line=c.lineno)
            else:
                r.ok("%s:%s %s.%s" % (m.rel, c.lineno, R, name), "file argument of _add_metadata is free of floating-point taint")
    r.guard(2)
    return r


def r2_one_formula(repo=None):
    r = Rule("C13.R2", "writer and reader map a sample index to its file with the same formula")
    try:
        m, wf, key, rf = placement_exprs(repo)
    except NoPerSampleKey as e:
        return _no_key_violation(r, e)
    loop, idx, file_c, sub_c, fmt, ts = _writer_forms(m, wf, key)
    params, rloop, forms = _reader_forms(m, rf)
    qn = m.qualname
    qr = dmdroles.roles(repo).filelist
    if "k" not in pysym.leaves(file_c):
        r.violation(m.rel, qn, "file timestamp %s" % pysym.show(file_c), "the timestamp in the file name does not depend on the "
                    "sample's own index", line=fmt.lineno)
        return r
    r.note("writer: file timestamp of sample k = %s" % pysym.show(file_c))
    # contract between the candidate-list method and its callers: the bounds are sample indices, inclusive.  A constant added to (or
    # subtracted from) a bound inside the method has to be undone by *every* caller: net shift per call site (linear, constants only)
    def unwrap(e):
        while isinstance(e, ast.Call) and pyfront.call_name(e) in ("int", "np.uint64", "np.int64") and len(e.args) == 1:
            e = e.args[0]
        return e

    def shift_of(tree, name):
        """the constants c of sub-expressions `name + c` / `name - c` in tree"""
        out = set()
        for x in ast.walk(tree):
            if isinstance(x, ast.BinOp) and isinstance(x.op, (ast.Add, ast.Sub)):
                l, rr = unwrap(x.left), unwrap(x.right)
                if isinstance(l, ast.Name) and l.id == name and isinstance(rr, ast.Constant) and isinstance(rr.value, int) and rr.value != 0:
                    out.add(rr.value if isinstance(x.op, ast.Add) else -rr.value)
                elif isinstance(rr, ast.Name) and rr.id == name and isinstance(l, ast.Constant) and isinstance(l.value, int) and l.value != 0 \
                        and isinstance(x.op, ast.Add):
                    out.add(l.value)
        return out
    ro_ = dmdroles.roles(repo)
    mm = ro_.m
    raw_rf = mm.fn(ro_.filelist)
    rparams = [a.arg for a in raw_rf.args.args if a.arg != "self"]
    callee_shift = {}
    for p in params:
        sh = shift_of(raw_rf, p)
        if len(sh) > 1:
            raise AnalysisError("%s: `%s` is shifted by several constants %s" % (qr, p, sorted(sh)))
        callee_shift[p] = sh.pop() if sh else 0
    if any(callee_shift.values()):
        for q_, f_ in mm.functions.items():
            if not q_.startswith(R + ".") or "<locals>" in q_:
                continue
            for c in ast.walk(f_):
                if isinstance(c, ast.Call) and pyfront.call_name(c) == "self." + ro_.filelist_name:
                    for p in params:
                        if p not in rparams or not callee_shift.get(p):
                            continue
                        i_ = rparams.index(p)
                        a = c.args[i_] if i_ < len(c.args) else pyfront.kwarg(c, p)
                        if a is None:
                            continue
                        a0 = unwrap(a)
                        caller = 0
                        if isinstance(a0, ast.BinOp) and isinstance(a0.op, (ast.Add, ast.Sub)) and isinstance(unwrap(a0.right), ast.Constant) \
                                and isinstance(unwrap(a0.right).value, int):
                            caller = unwrap(a0.right).value if isinstance(a0.op, ast.Add) else -unwrap(a0.right).value
                        net = caller + callee_shift[p]
                        if net != 0:
                            r.violation(mm.rel, q_, norm(ast.unparse(c))[:80], "%s shifts its bound `%s` by %+d before computing the file it lies in, "
                                        "and this caller passes `%s` (shift %+d): the candidate list is built for sample %s%+d - when the sample "
                                        "is the first one of a file (or of a sub-directory) the file that holds it is not in the list and the "
                                        "reader does not look where the writer put it" % (ro_.filelist_name, p, callee_shift[p],
                                                                                          norm(ast.unparse(a))[:30], caller, p, net), line=c.lineno)
        if r.findings:
            r.guard(1)
            return r
    for p in params:
        if not forms[p]:
            raise AnalysisError("%s: no local derived from `%s` is used in the listing loop" % (qr, p))
        match = [n for n, c in forms[p].items() if c == file_c]
        if match:
            r.ok("%s:%s %s `%s`" % (m.rel, rf.lineno, qr, match[0]), "file timestamp of %s = %s, the writer's formula "
                 "(nested floor divisions by positive integers collapse)" % (p, pysym.show(file_c)))
        else:
            r.violation(m.rel, qr, "writer %s / reader %s" % (pysym.show(file_c), "; ".join(
                        "%s = %s" % (n, pysym.show(c)) for n, c in sorted(forms[p].items()))),
                        "no bound the reader derives from `%s` is the writer's file timestamp formula: writer and reader place "
                        "samples with different formulas" % p, line=rf.lineno)
    # sub-directory: floor to the sub-directory cadence of the same file timestamp, on both sides
    want_sub = None
    if sub_c[0] == "mul" and len(sub_c[1]) == 2:
        fd = [x for x in sub_c[1] if x[0] == "fdiv"]
        other = [x for x in sub_c[1] if x[0] != "fdiv"]
        if len(fd) == 1 and len(other) == 1 and other[0] in fd[0][2]:
            want_sub = sub_c
    if want_sub is None:
        r.violation(m.rel, qn, "sub-directory timestamp %s" % pysym.show(sub_c), "the sub-directory is not the file timestamp floored "
                    "to a multiple of the sub-directory cadence", line=ts.lineno)
    else:
        for p in params:
            match = [n for n, c in forms[p].items() if c == sub_c]
            if match:
                r.ok("%s:%s %s `%s`" % (m.rel, rf.lineno, qr, match[0]), "sub-directory timestamp of %s = %s as in the writer" % (
                    p, pysym.show(sub_c)))
            else:
                r.violation(m.rel, qr, "writer sub-directory %s / reader %s" % (pysym.show(sub_c), "; ".join(
                            "%s = %s" % (n, pysym.show(c)) for n, c in sorted(forms[p].items()))),
                            "the reader does not derive the writer's sub-directory timestamp from `%s`" % p, line=rf.lineno)
    r.guard(4)
    return r


def r3_format_agreement(repo=None):
    r = Rule("C13.R3", "writer and reader agree on metadata file and sub-directory name formats; both fit the listing grammar")
    m = pyfront.mod("digital_metadata", repo)
    ro = dmdroles.roles(repo)
    wf = ro.gen_view.fn()
    rf = ro.filelist_view.fn()
    fold = cfold.Folder(repo)

    def fmts(fn):
        f1 = [n.left.value for n in ast.walk(fn) if isinstance(n, ast.BinOp) and isinstance(n.op, ast.Mod)
              and isinstance(n.left, ast.Constant) and isinstance(n.left.value, str) and "@" in n.left.value]
        f2 = [fold.expr("digital_metadata", c.args[0]) for c in ast.walk(fn) if isinstance(c, ast.Call)
              and isinstance(c.func, ast.Attribute) and c.func.attr == "strftime" and c.args]
        for n in ast.walk(fn):
            if isinstance(n, ast.BinOp) and isinstance(n.op, ast.Mod) and isinstance(n.left, ast.Name):
                try:
                    val = fold.expr("digital_metadata", n.left)
                except AnalysisError:
                    continue
                if isinstance(val, str) and "@" in val:
                    f1.append(val)
        return f1, f2
    w1, w2 = fmts(wf)
    r1, r2 = fmts(rf)
    if len(w1) != 1 or len(r1) != 1 or len(w2) != 1 or len(r2) != 1:
        raise AnalysisError("metadata name formats not found (writer %s %s, reader %s %s)" % (w1, w2, r1, r2))
    f = cfold.Folder(repo)
    pats = {"W": rx.printf_to_regex(w1[0])[0], "R": rx.printf_to_regex(r1[0])[0], "WS": rx.strftime_to_regex(w2[0]),
            "RS": rx.strftime_to_regex(r2[0]), "DMD": f.name("list_drf", "_RE_DMDFILE"), "SUB": f.name("list_drf", "_RE_SUBDIR"),
            "NAMEOK": r"(?!tmp\.)[^/@\n]+@"}
    sp = rx.Space(pats, texts=["tmp.@.h5"])
    eq, a, b = sp["W"].equals(sp["R"])
    if eq:
        r.ok("%s writer %r / reader %r" % (m.rel, w1[0], r1[0]), "same language")
    else:
        r.violation(m.rel, ro.filelist, "writer %r vs reader %r" % (w1[0], r1[0]), "file name formats differ (witness %r)" % (
            a if a is not None else b), line=rf.lineno)
    eq, a, b = sp["WS"].equals(sp["RS"])
    if eq:
        r.ok("%s writer strftime %r / reader %r" % (m.rel, w2[0], r2[0]), "same language")
    else:
        r.violation(m.rel, ro.filelist, "writer %r vs reader %r" % (w2[0], r2[0]), "sub-directory formats differ", line=rf.lineno)
    ok, w = (sp["W"] & sp["NAMEOK"]).subset_of(sp["DMD"])
    if ok:
        r.ok("%s writer %r vs RE_DMDFILE" % (m.rel, w1[0]), "every name with a sane prefix (no '@', '/', not tmp.) is in the listing grammar")
    else:
        r.violation(m.rel, ro.gen, "writer %r vs RE_DMDFILE" % w1[0], "a metadata file name is not accepted "
                    "by the listing grammar (witness %r)" % w, line=wf.lineno)
    ok, w = sp["WS"].subset_of(sp["SUB"])
    if ok:
        r.ok("%s writer strftime vs _RE_SUBDIR" % m.rel, "included")
    else:
        r.violation(m.rel, ro.gen, "strftime %r" % w2[0], "sub-directory not accepted by the listing grammar", line=wf.lineno)
    r.guard(4)
    return r


def r4_subdir_per_file(repo=None):
    r = Rule("C13.R4", "the location of every metadata file is recomputed from that file's own index on every iteration")
    try:
        m, wf, key, rf = placement_exprs(repo)
    except NoPerSampleKey as e:
        return _no_key_violation(r, e)
    q = m.qualname
    g = m.cfg(q)
    loop, idx = _writer_loop(m, wf)
    heads = [n for n in g.nodes if n.kind == "cond" and n.ast is loop]
    opens = [n for n in g.nodes if any(pyfront.call_name(c) == "h5py.File" for c in pyfront.node_calls(n))]
    if len(heads) != 1 or len(opens) != 1:
        raise AnalysisError("%s: per-file loop or h5py.File not found exactly once" % q)
    oc = [c for c in pyfront.node_calls(opens[0]) if pyfront.call_name(c) == "h5py.File"][0]
    if not oc.args:
        raise AnalysisError("%s: h5py.File without positional file name" % q)
    body = [b for b, l in g.succ[heads[0].id] if l == "T"]
    # backward slice of the opened path through local assignments
    defs_of = {}
    for n in g.nodes:
        if isinstance(n.ast, ast.Assign) and len(n.ast.targets) == 1 and isinstance(n.ast.targets[0], ast.Name):
            defs_of.setdefault(n.ast.targets[0].id, []).append(n)
    in_loop = g.reach(body, avoid=[heads[0].id], skip_labels=("exc",))
    pre = {n.id for n in g.nodes} - in_loop
    work = [x.id for x in ast.walk(oc.args[0]) if isinstance(x, ast.Name)]
    chain = []
    seen = set()
    while work:
        v = work.pop()
        if v in seen or v == idx:
            continue
        seen.add(v)
        ds = defs_of.get(v, [])
        if not ds or all(d.id in pre for d in ds):
            continue        # parameter / closure constant computed before the loop
        chain.append(v)
        for d in ds:
            work.extend(x.id for x in ast.walk(d.ast.value) if isinstance(x, ast.Name))
    if idx not in seen and idx not in {x.id for v in chain for d in defs_of[v] for x in ast.walk(d.ast.value) if isinstance(x, ast.Name)}:
        r.violation(m.rel, q, "h5py.File(%s, ...)" % norm(ast.unparse(oc.args[0])), "the path of the file does not depend on the "
                    "group's file index `%s`" % idx, line=opens[0].line)
    for v in sorted(chain):
        ds = defs_of[v]
        skip = opens[0].id in g.reach(body, avoid=[d.id for d in ds if d.id not in pre], skip_labels=("exc", "back"))
        stale = [d for d in ds if d.id in pre]
        if skip or stale:
            r.violation(m.rel, q, "`%s` is not assigned on every iteration before the file is opened" % v,
                        "the location of a file depends on state left over from an earlier group of the same write() call (e.g. a "
                        "cached sub-directory): a sample whose file lies in another sub-directory than the previous group's is "
                        "stored where the reader does not look", line=ds[0].line)
        else:
            r.ok("%s:%s %s `%s`" % (m.rel, ds[0].line, q, v), "computed on every iteration before the file is opened")
    r.guard(3)
    return r


def r5_groups_are_groupby_groups(repo=None):
    """Every sample is stored in the file of *its own* index only if the key is evaluated for every sample: the groups the
    per-file loop iterates over are the result of groupby(samples, key).  A group formed from the ungrouped input under the key
    of one of its elements (a 'first and last agree' short cut) stores the samples in between in that file whatever their
    index - for unsorted input the reader, which recomputes the file from the index, does not find them."""
    r = Rule("C13.R5", "the per-file groups are groupby groups: the key is evaluated for every sample")
    try:
        m, wf, key, rf = placement_exprs(repo)
    except NoPerSampleKey as e:
        return _no_key_violation(r, e)
    loop, idx = _writer_loop(m, wf)
    gb = [c for c in ast.walk(wf) if _is_groupby(c)]
    inputs = {norm(ast.unparse(c.args[0])) for c in gb if c.args}
    if any(_is_groupby(c) for c in ast.walk(loop.iter)):
        r.ok("%s:%s %s" % (m.rel, loop.lineno, m.qualname), "the loop iterates over groupby(%s, <key>) itself" % ", ".join(sorted(inputs)))
    elif isinstance(loop.iter, ast.Name):
        for d in _defs_of(wf, loop.iter.id):
            if _is_groupby(d):
                r.ok("%s:%s %s" % (m.rel, d.lineno, m.qualname), "`%s` = groupby(%s, <key>)" % (loop.iter.id, ", ".join(sorted(inputs))))
                continue
            whole = None
            if isinstance(d, (ast.List, ast.Tuple)):
                for e in d.elts:
                    if isinstance(e, ast.Tuple) and len(e.elts) == 2:
                        grp = e.elts[1]
                        # iter(samples) / list(samples) / tuple(samples): still the whole input
                        while isinstance(grp, ast.Call) and pyfront.call_name(grp) in ("iter", "list", "tuple") and len(grp.args) == 1 and not grp.keywords:
                            grp = grp.args[0]
                        if norm(ast.unparse(grp)) in inputs:
                            whole = e
            if whole is not None:
                r.violation(m.rel, m.qualname, "%s = %s" % (loop.iter.id, norm(ast.unparse(d))[:70]), "a group is the whole ungrouped input "
                            "`%s` under one key (`%s`): the key is not evaluated for the samples of the group, so a sample whose own "
                            "index belongs to another file is stored in this one and the reader, which recomputes the file from the "
                            "index, does not find it" % (norm(ast.unparse(whole.elts[1])), norm(ast.unparse(whole.elts[0]))[:50]), line=d.lineno)
            else:
                raise AnalysisError("%s: definition `%s = %s` of the per-file groups not recognised" % (
                    m.qualname, loop.iter.id, norm(ast.unparse(d))[:60]))
    else:
        raise AnalysisError("%s: iterable of the per-file loop not recognised" % m.qualname)
    r.guard(1)
    return r


def r6_joining_writer_refuses_other_parameters(repo=None):
    """'Writer and reader agree on every sample's location': the reader takes rate, cadences and file-name prefix from the stored
    properties of the channel, the writer from its constructor arguments.  They agree across sessions only if a writer that is
    created on an existing channel refuses arguments that differ from the stored ones.  Checked: (a) the constructor reaches the
    method that compares with the stored properties whenever a properties file is readable; (b) that method raises on `!=` for
    every attribute the placement reads (the self attributes read by the per-file generator)."""
    r = Rule("C13.R6", "a writer joining an existing channel refuses rate, cadences or prefix that differ from the stored ones")
    ro = dmdroles.roles(repo)
    m = ro.m if hasattr(ro, "m") else pyfront.mod("digital_metadata", repo)
    W = ro.gen.split(".")[0]
    meths = m.methods(W)
    gen_fn = ro.gen_view.fn()
    need = sorted({x.attr for x in ast.walk(gen_fn) if isinstance(x, ast.Attribute) and isinstance(x.value, ast.Name) and x.value.id == "self"
                   and isinstance(x.ctx, ast.Load) and x.attr.startswith("_") and not isinstance(getattr(x, "_parent", None), ast.Call)
                   and x.attr not in meths and x.attr != "_metadata_dir"})
    # methods handed on as callables (`groupby(samples, self._file_index)`) are part of the placement as well
    for x in ast.walk(gen_fn):
        if isinstance(x, ast.Attribute) and isinstance(x.value, ast.Name) and x.value.id == "self" and x.attr in meths and x.attr != ro.gen.split(".")[1]:
            need = sorted(set(need) | {y.attr for y in ast.walk(meths[x.attr]) if isinstance(y, ast.Attribute) and isinstance(y.value, ast.Name)
                                       and y.value.id == "self" and isinstance(y.ctx, ast.Load) and y.attr.startswith("_") and y.attr not in meths
                                       and y.attr != "_metadata_dir"})
    # only what the constructor takes from its arguments is a *parameter* of the channel (remembered state is not compared)
    init0 = meths.get("__init__")
    iparams = {a.arg for a in init0.args.args + init0.args.kwonlyargs} - {"self"} if init0 is not None else set()
    from_args = set()
    for a_ in ast.walk(init0) if init0 is not None else []:
        if isinstance(a_, ast.Assign) and any(isinstance(x, ast.Name) and x.id in iparams for x in ast.walk(a_.value)):
            for t_ in a_.targets:
                if isinstance(t_, ast.Attribute) and isinstance(t_.value, ast.Name) and t_.value.id == "self":
                    from_args.add(t_.attr)
    need = [a_ for a_ in need if a_ in from_args]
    if len(need) < 4:
        raise AnalysisError("%s: attributes read by the placement not recognised (%s)" % (ro.gen, need))
    parse = [n for n, f in meths.items() if n != "__init__" and any(isinstance(c, ast.Call) and (pyfront.call_name(c) or "").endswith("DigitalMetadataReader")
                                                                    for c in ast.walk(f))]
    if len(parse) != 1:
        raise AnalysisError("%s: the method comparing with the stored properties (constructs a DigitalMetadataReader) not found exactly once (%s)" % (W, parse))
    pf = meths[parse[0]]
    q = "%s.%s" % (W, parse[0])
    # attributes compared with `!=` under a raise
    compared = set()
    for iff in ast.walk(pf):
        if not (isinstance(iff, ast.If) and any(isinstance(x, ast.Raise) for x in ast.walk(iff))):
            continue
        for cmp_ in ast.walk(iff.test):
            if isinstance(cmp_, ast.Compare) and len(cmp_.ops) == 1 and isinstance(cmp_.ops[0], ast.NotEq):
                for side in (cmp_.left, cmp_.comparators[0]):
                    if isinstance(side, ast.Name):
                        # a local holding `getattr(self, attr)` / `self.<attr>`
                        ds = [a_.value for a_ in ast.walk(pf) if isinstance(a_, ast.Assign) and len(a_.targets) == 1 and isinstance(a_.targets[0], ast.Name)
                              and a_.targets[0].id == side.id]
                        if len(ds) == 1:
                            side = ds[0]
                    if isinstance(side, ast.Attribute) and isinstance(side.value, ast.Name) and side.value.id == "self":
                        compared.add(side.attr)
                    elif isinstance(side, ast.Call) and pyfront.call_name(side) == "getattr" and len(side.args) == 2 and isinstance(side.args[0], ast.Name) \
                            and side.args[0].id == "self" and isinstance(side.args[1], ast.Name):
                        # getattr(self, attr) for attr in <tuple of constants>
                        lp = m.enclosing(iff, (ast.For,))
                        while lp is not None and not (isinstance(lp.target, ast.Name) and lp.target.id == side.args[1].id):
                            lp = m.enclosing(lp, (ast.For,))
                        if lp is not None:
                            it = lp.iter
                            if isinstance(it, ast.Name):
                                defs = [a.value for a in ast.walk(pf) if isinstance(a, ast.Assign) and any(isinstance(t, ast.Name) and t.id == it.id for t in a.targets)]
                                if not defs:
                                    mv = m.module_assign(it.id)
                                    defs = [mv] if mv is not None else []
                                it = defs[0] if len(defs) == 1 else it
                            if isinstance(it, (ast.Tuple, ast.List)) and all(isinstance(e, ast.Constant) and isinstance(e.value, str) for e in it.elts):
                                compared |= {e.value for e in it.elts}
                            else:
                                from .. import pyutil
                                try:
                                    val = pyutil.const_value(m, it)
                                except pyutil.NotConstant:
                                    val = None
                                if isinstance(val, tuple) and all(isinstance(x, str) for x in val):
                                    compared |= set(val)
    if not compared:
        raise AnalysisError("%s: comparisons with the stored properties not recognised" % q)
    missing = [a for a in need if a not in compared]
    site = "%s:%s %s" % (m.rel, pf.lineno, q)
    if missing:
        r.violation(m.rel, q, "compares %s" % sorted(compared), "a writer created on an existing channel is not refused when its %s differ(s) from the "
                    "stored value: it files samples by its own arguments while every reader looks for them by the stored ones" % ", ".join(missing),
                    line=pf.lineno)
    else:
        r.ok(site, "raises when any of %s differs from the stored properties" % ", ".join(need))
    # (a) reached from the constructor when a properties file is readable
    init = meths.get("__init__")
    g = m.cfg(W + ".__init__")
    calls = [n for n in g.nodes if any(pyfront.call_name(c) == "self." + parse[0] for c in pyfront.node_calls(n))]
    writes = [n for n in g.nodes if any((pyfront.call_name(c) or "").startswith("self._write_prop") or (pyfront.call_name(c) or "") == "h5py.File" for c in pyfront.node_calls(n))]
    if not calls:
        r.violation(m.rel, W + ".__init__", "no call of self.%s" % parse[0], "the stored properties of an existing channel are never compared", line=init.lineno)
    else:
        conds = [n for n in g.nodes if n.kind == "cond" and n.ast is not None and any(
            isinstance(c, ast.Call) and pyfront.call_name(c) in ("os.access", "os.path.exists", "os.path.isfile") for c in ast.walk(n.ast))
            and calls[0].id in g.reach([b for b, l in g.succ[n.id] if l == "T"], avoid=[n.id])]
        if conds:
            r.ok("%s:%s %s.__init__" % (m.rel, calls[0].line, W), "self.%s() runs whenever a properties file is found" % parse[0])
        else:
            raise AnalysisError("%s.__init__: the test that leads to self.%s() was not recognised" % (W, parse[0]))
    r.guard(2)
    return r


def r7_reader_probes_each_subdir_with_its_own_times(repo=None):
    """'the reader looks for it in exactly that file', for every sub-directory of a query: the names probed in one iteration of the
    reader's loop over the sub-directory times must be a function of that iteration's own time.  A value in the backward slice of
    the probed path that is *carried* from one iteration to the next (defined before the loop, advanced inside it by an update
    that reads itself) is right only if no path through the loop body reaches the next iteration without the update - a
    `continue` for a sub-directory that does not exist leaves it one step behind, and every later sub-directory is probed with
    the file times of an earlier one."""
    r = Rule("C13.R7", "the reader's candidate names depend on nothing carried past a skipped iteration of the sub-directory loop")
    ro = dmdroles.roles(repo)
    fv = ro.filelist_view
    f = fv.fn()
    g = fv.cfg()
    q = ro.filelist
    rets = {x.value.id for x in ast.walk(f) if isinstance(x, ast.Return) and isinstance(x.value, ast.Name)}
    loops = [lp for lp in ast.walk(f) if isinstance(lp, ast.For) and any(
        isinstance(c, ast.Call) and isinstance(c.func, ast.Attribute) and c.func.attr in ("append", "extend") and isinstance(c.func.value, ast.Name)
        and c.func.value.id in rets for c in ast.walk(lp))]
    loops = [l for l in loops if not any(l is not o and any(x is l for x in ast.walk(o)) for o in loops)]      # outermost
    if len(loops) != 1:
        raise AnalysisError("%s: the loop that collects the candidate files was not found exactly once (%d)" % (q, len(loops)))
    lp = loops[0]
    # backward slice of what is appended / probed inside the loop
    inner = {}
    for n in ast.walk(lp):
        if isinstance(n, (ast.Assign, ast.AugAssign)):
            tg = n.targets if isinstance(n, ast.Assign) else [n.target]
            for t in tg:
                for x in ast.walk(t):
                    if isinstance(x, ast.Name) and isinstance(x.ctx, ast.Store):
                        inner.setdefault(x.id, []).append(n)
        elif isinstance(n, ast.For) and n is not lp:
            for x in ast.walk(n.target):
                if isinstance(x, ast.Name):
                    inner.setdefault(x.id, []).append(n)
    work = []
    for c in ast.walk(lp):
        if isinstance(c, ast.Call) and ((isinstance(c.func, ast.Attribute) and c.func.attr in ("append", "extend") and isinstance(c.func.value, ast.Name)
                                         and c.func.value.id in rets) or pyfront.call_name(c) in ("os.access", "os.path.exists", "os.path.isfile")):
            work += [x.id for a in c.args for x in ast.walk(a) if isinstance(x, ast.Name)]
    seen = set()
    while work:
        v = work.pop()
        if v in seen:
            continue
        seen.add(v)
        for d in inner.get(v, []):
            src = d.value if isinstance(d, (ast.Assign, ast.AugAssign)) else d.iter
            work += [x.id for x in ast.walk(src) if isinstance(x, ast.Name)]
            if isinstance(d, ast.AugAssign):
                work.append(v)
    head = [n for n in g.nodes if n.kind == "cond" and n.ast is lp]
    if len(head) != 1:
        raise AnalysisError("%s: loop head not found in the control-flow graph" % q)
    body_entry = [b for b, l in g.succ[head[0].id] if l == "T"]
    n_checked = 0
    for v in sorted(seen):
        ups = [d for d in inner.get(v, []) if isinstance(d, ast.AugAssign) or (
            isinstance(d, ast.Assign) and any(isinstance(x, ast.Name) and x.id == v for x in ast.walk(d.value)))]
        fresh = [d for d in inner.get(v, []) if d not in ups]
        if not ups:
            continue
        n_checked += 1
        upn = [n.id for n in g.nodes if n.ast is not None and any(n.ast is d for d in ups + fresh)]
        skipping = head[0].id in g.reach(body_entry, avoid=upn + [head[0].id] if False else upn, skip_labels=("exc",)) if body_entry else False
        site = "%s:%s %s `%s`" % (fv.module.rel if hasattr(fv, "module") else "python/digital_rf/digital_metadata.py", ups[0].lineno, q, norm(ast.unparse(ups[0]))[:60])
        if skipping:
            r.violation("python/digital_rf/digital_metadata.py", q, norm(ast.unparse(ups[0]))[:70], "`%s`, from which the probed file names are computed, is "
                        "carried from one sub-directory to the next and advanced by this statement, but an iteration can end without "
                        "reaching it (a `continue` for a sub-directory that is not there): every later sub-directory is then probed "
                        "with the file times of an earlier one and the files the writer stored there are not found" % v, line=ups[0].lineno)
        else:
            r.ok(site, "`%s` is carried across iterations, but every path through the loop body passes its update" % v)
    if n_checked == 0:
        r.ok("python/digital_rf/digital_metadata.py:%s %s" % (lp.lineno, q), "every value the probed names are computed from (%d locals in the slice) is defined "
             "afresh in the iteration or before the loop and never updated in it" % len(seen))
    r.guard(1)
    return r


def r8_reader_prefix_is_text(repo=None):
    """'the reader looks for it in exactly that file': the reader formats the stored file-name prefix into "<prefix>@<T>.h5".  h5py
    hands a fixed-length ascii attribute back as bytes, and "%s" of bytes is "b'md'": the prefix has to be decoded before the
    constructor returns - on *every* normal exit, the early one for a channel without samples included (that reader stays in use:
    a monitor, the reader cached by DigitalRFReader.get_digital_metadata)."""
    r = Rule("C13.R8", "the reader's file-name prefix is decoded to text on every normal exit of its constructor")
    m = pyfront.mod("digital_metadata", repo)
    R = "DigitalMetadataReader"
    q = R + ".__init__"
    f = m.fn(q)              # as written: a decoding helper stays a call (inlined, its pass-through branch would look like a raw store)
    g = m.cfg(q)

    def decodes(e, depth=0):
        """does the expression convert bytes to text (.decode, str(..., 'ascii'), a helper that does)?"""
        for x in ast.walk(e):
            if isinstance(x, ast.Call):
                if isinstance(x.func, ast.Attribute) and x.func.attr == "decode":
                    return True
                cn = pyfront.call_name(x) or ""
                if cn in ("str", "six.text_type") and len(x.args) >= 2:
                    return True
                h = m.functions.get(cn) if "." not in cn else None
                if h is not None and depth < 2 and any(isinstance(y, ast.Call) and isinstance(y.func, ast.Attribute) and y.func.attr == "decode" for y in ast.walk(h)):
                    return True
        return False
    stores = [n for n in g.nodes if isinstance(n.ast, ast.Assign) and any(pyfront.dotted(t) == "self._file_name" for t in n.ast.targets)]
    if not stores:
        raise AnalysisError("%s: store of self._file_name not found" % q)
    text, raw = [], []
    for n in stores:
        v = n.ast.value
        if decodes(v):
            text.append(n)
            continue
        if isinstance(v, ast.Name):
            defs = [a for a in ast.walk(f) if isinstance(a, ast.Assign) and any(isinstance(t, ast.Name) and t.id == v.id for t in a.targets)]
            if any(decodes(a.value) for a in defs):
                text.append(n)
                continue
        reads_attr = any(isinstance(x, ast.Subscript) and isinstance(x.value, ast.Attribute) and x.value.attr == "attrs" for x in ast.walk(v)) or (
            isinstance(v, ast.Name) and any(isinstance(x, ast.Subscript) and isinstance(x.value, ast.Attribute) and x.value.attr == "attrs"
                                             for a in ast.walk(f) if isinstance(a, ast.Assign) and any(isinstance(t, ast.Name) and t.id == v.id for t in a.targets)
                                             for x in ast.walk(a.value)))
        if reads_attr:
            raw.append(n)
        else:
            raise AnalysisError("%s: where `%s` comes from was not recognised" % (q, norm(ast.unparse(n.ast))[:60]))
    exits = [n for n in g.nodes if n.kind == "return"] + [g.exit]
    bad = None
    for n in raw:
        # handled exceptions are part of the constructor's normal control flow (`try: f["fields"] except KeyError: ... return`);
        # an uncaught one leaves through the raise-exit, which is not in `exits`
        side = g.reach([b for b, l in g.succ[n.id] if l != "exc"], avoid=[t.id for t in text])
        for x in exits:
            if x.id in side:
                bad = (n, x)
    if bad:
        n, x = bad
        r.violation(m.rel, q, norm(ast.unparse(n.ast))[:60], "the prefix is stored as read from the attribute (bytes under h5py >= 2.9) and a normal "
                    "exit of the constructor (%s) is reached without decoding it: that reader probes `b'<prefix>'@T.h5` while the writer "
                    "stores `<prefix>@T.h5` - right time, right sub-directory, wrong name" % (
                        "line %s" % x.line if x.kind == "return" else "the end"), line=n.line)
    else:
        for n in text:
            r.ok("%s:%s %s" % (m.rel, n.line, q), "self._file_name is stored decoded; no exit is reached with the raw attribute value")
    r.guard(1)
    return r


def r10_writer_opens_the_name_the_reader_looks_for(repo=None):
    """'A sample lies in the file <prefix>@<T>.h5 ... and the reader looks for it in exactly that file': the path handed to
    h5py.File in the writer's generator is, under every definition that reaches the call, join(<sub-directory>, <the formatted
    base name>).  A staging name (a prefix put in front of the base name, renamed after the loop) puts the samples into a file
    no reader opens until the rename runs - and the rename is code behind a `yield`, which is never reached when the consumer of
    the generator stops early (an error on a later sample of the same write call)."""
    r = Rule("C13.R10", "the writer opens the file under the name the reader computes (no staging name in front of the formatted base name)")
    ro = dmdroles.roles(repo)
    m = ro.m
    wf = ro.gen_view.fn()
    defs = {}
    for n in ast.walk(wf):
        if isinstance(n, ast.Assign) and len(n.targets) == 1 and isinstance(n.targets[0], ast.Name):
            defs.setdefault(n.targets[0].id, []).append(n.value)

    def is_fmt(e):
        return isinstance(e, ast.BinOp) and isinstance(e.op, ast.Mod) and "@" in str(pyfront.const(e.left) or (
            m.module_assign(e.left.id).value if isinstance(e.left, ast.Name) and isinstance(m.module_assign(e.left.id), ast.Constant) else ""))

    def base_forms(e, depth=0, seen=()):
        """forms of the last path component: 'FMT' | ('PREFIX', text) | None (unknown)"""
        if depth > 6:
            return {None}
        if isinstance(e, ast.Name):
            if e.id in seen or e.id not in defs:
                return {None}
            out = set()
            for v in defs[e.id]:
                out |= base_forms(v, depth + 1, seen + (e.id,))
            return out
        if isinstance(e, ast.IfExp):
            return base_forms(e.body, depth + 1, seen) | base_forms(e.orelse, depth + 1, seen)
        if isinstance(e, ast.Call) and pyfront.call_name(e) == "os.path.join" and e.args:
            return base_forms(e.args[-1], depth + 1, seen)
        if is_fmt(e):
            return {"FMT"}
        if isinstance(e, ast.BinOp) and isinstance(e.op, ast.Add):
            l, rgt = e.left, e.right
            if isinstance(l, ast.Constant) and isinstance(l.value, str) and "/" not in l.value and "FMT" in base_forms(rgt, depth + 1, seen):
                return {("PREFIX", l.value)}
            return {None}
        if isinstance(e, ast.JoinedStr):
            return {None}
        return {None}
    opens = [c for c in ast.walk(wf) if isinstance(c, ast.Call) and pyfront.call_name(c) == "h5py.File" and c.args]
    if not opens:
        raise AnalysisError("%s: h5py.File call not found" % ro.gen)
    for c in opens:
        forms = base_forms(c.args[0])
        site = "%s:%s %s `%s`" % (m.rel, c.lineno, ro.gen, norm(ast.unparse(c))[:60])
        pre = sorted(f_[1] for f_ in forms if isinstance(f_, tuple))
        if pre:
            r.violation(m.rel, ro.gen, norm(ast.unparse(c))[:80], "under one definition of `%s` the file is opened as %r + <formatted name>: the "
                        "samples are written into a file the reader does not look for (it computes <prefix>@<T>.h5), and the name is "
                        "corrected only by code after the generator's last `yield` - a write() call that stops early (a later sample "
                        "fails) leaves the samples already accepted where no reader finds them" % (norm(ast.unparse(c.args[0]))[:30], pre[0]),
                        line=c.lineno)
        elif forms == {"FMT"}:
            r.ok(site, "every definition of the opened path ends in the formatted base name")
        else:
            raise AnalysisError("%s: how the path `%s` handed to h5py.File is built was not recognised" % (ro.gen, norm(ast.unparse(c.args[0]))[:50]))
    r.guard(1)
    return r


MUTATORS = ("update", "append", "add", "setdefault", "pop", "clear", "extend", "insert", "remove", "popitem", "discard", "appendleft", "sort", "reverse")


def r9_reader_file_list_has_no_memory(repo=None, rid="C13.R9", view="filelist"):
    """'the reader looks for it in exactly that file': *that file*, as it is on disk when the read is made.  Which candidate files a
    read finds must be a function of the query and of the directory - not of what earlier reads of the same reader object saw.
    Who-may-write rule: an attribute of the reader that the candidate-list method reads (its flat view, helpers included) is
    stored or mutated only by the constructor.  A listing or a "complete sub-directory" set remembered across reads hides a
    file that an out-of-order write creates later in a sub-directory already remembered."""
    r = Rule(rid, "the reader's list of candidate files depends on no attribute that a query changes (no listing remembered across reads)" if view == "filelist"
             else "what the reader takes from a file depends on no attribute that a query changes (no file content remembered across reads)")
    ro = dmdroles.roles(repo)
    m = ro.m
    f = ro.filelist_view.fn() if view == "filelist" else ro.add_view.fn()
    vname = ro.filelist if view == "filelist" else ro.add
    read_attrs = {}
    for n in ast.walk(f):
        if isinstance(n, ast.Attribute) and pyfront.dotted(n.value) == "self":
            read_attrs.setdefault(n.attr, n)
    writers = {}
    # methods a query can reach: everything called (self.<m>) from a public method other than the constructor; a private helper
    # that only the constructor calls is part of the construction
    meths = {q[len(R) + 1:]: fn for q, fn in m.functions.items() if q.startswith(R + ".") and "<locals>" not in q and "." not in q[len(R) + 1:]}
    reach = {n for n in meths if n != "__init__" and (not n.startswith("_") or (n.startswith("__") and n.endswith("__")))}
    work = list(reach)
    while work:
        n = work.pop()
        for c in ast.walk(meths[n]):
            if isinstance(c, ast.Attribute) and pyfront.dotted(c.value) in ("self", "cls") and c.attr in meths and c.attr not in reach and c.attr != "__init__":
                reach.add(c.attr)
                work.append(c.attr)
    for q, fn in m.functions.items():
        if not q.startswith(R + ".") or "<locals>" in q or q == R + ".__init__" or q[len(R) + 1:] not in reach:
            continue
        for n in ast.walk(fn):
            a = None
            if isinstance(n, ast.Attribute) and isinstance(n.ctx, (ast.Store, ast.Del)) and pyfront.dotted(n.value) == "self":
                a = n.attr
            elif isinstance(n, ast.Subscript) and isinstance(n.ctx, (ast.Store, ast.Del)) and isinstance(n.value, ast.Attribute) \
                    and pyfront.dotted(n.value.value) == "self":
                a = n.value.attr
            elif isinstance(n, ast.Call) and isinstance(n.func, ast.Attribute) and n.func.attr in MUTATORS and isinstance(n.func.value, ast.Attribute) \
                    and pyfront.dotted(n.func.value.value) == "self":
                a = n.func.value.attr
            elif isinstance(n, ast.Call) and pyfront.call_name(n) in ("setattr", "delattr") and n.args and pyfront.dotted(n.args[0]) == "self":
                if len(n.args) > 1 and isinstance(n.args[1], ast.Constant):
                    a = n.args[1].value
                else:
                    raise AnalysisError("%s: %s(self, <computed name>): which attribute a query changes is not decided" % (q, pyfront.call_name(n)))
            if a is not None:
                writers.setdefault(a, []).append((q, n))
    if len(read_attrs) < (3 if view == "filelist" else 1):
        raise AnalysisError("%s: reads %d attributes of the reader, %s confirmed on the reference tree" % (vname, len(read_attrs), "5" if view == "filelist" else "1"))
    for a in sorted(read_attrs):
        site = "%s:%s %s self.%s" % (m.rel, read_attrs[a].lineno, vname, a)
        if a in writers and a not in meths:
            # positive evidence: a *container* held in the attribute is filled by a query (a memo keyed by names: `self.A[k] = v`,
            # `self.A.update(..)`, `.add(..)`).  A plain re-assignment of the attribute in a query (a refresh of what the constructor
            # read, e.g. re-reading the channel properties once files exist) is not a memory of earlier answers: not decided here
            memo = [(q_, n_) for q_, n_ in writers[a] if not (isinstance(n_, ast.Attribute) and isinstance(n_.ctx, ast.Store))]
            if not memo:
                q_, n_ = writers[a][0]
                raise AnalysisError("%s: `self.%s`, read by %s, is re-assigned by a query (line %d): whether that is a refresh or a memory of "
                                    "earlier answers is not decided" % (q_, a, vname, n_.lineno))
            q, n = memo[0]
            if view == "filelist":
                r.violation(m.rel, q, norm(ast.unparse(n))[:80], "`self.%s`, which the candidate-list method %s reads, is changed by a query: the files a "
                            "read consults then depend on what earlier reads of this reader object saw - a file created later (an "
                            "out-of-order or late write) in a sub-directory already remembered is never looked for, although a fresh reader "
                            "finds it" % (a, ro.filelist_name), line=n.lineno)
            else:
                r.violation(m.rel, q, norm(ast.unparse(n))[:80], "`self.%s`, which the per-file reading method %s reads, is changed by a query: what a "
                            "read returns from a file then depends on what an earlier read of this reader object saw in it - samples "
                            "written to the file afterwards are missing (and a forward fill returns an older value), although a fresh "
                            "reader returns them" % (a, ro.add_name), line=n.lineno)
        elif a not in meths:
            r.ok(site, "stored only by the constructor")
    r.guard(3 if view == "filelist" else 1)
    return r


def rules(repo=None):
    return [lambda: r10_writer_opens_the_name_the_reader_looks_for(repo), lambda: r9_reader_file_list_has_no_memory(repo), lambda: r8_reader_prefix_is_text(repo), lambda: r7_reader_probes_each_subdir_with_its_own_times(repo), lambda: r6_joining_writer_refuses_other_parameters(repo), lambda: r1_exact_placement(repo), lambda: r2_one_formula(repo), lambda: r3_format_agreement(repo),
            lambda: r4_subdir_per_file(repo), lambda: r5_groups_are_groupby_groups(repo)]


EXPLANATION = (
    "R1: float-taint analysis of the writer's grouping key (lambda, nested or module function, method), of every local in"
    " the slice of the opened path, of the reader's bounds and of every file argument handed to the per-file reader (true"
    ' division, longdouble samples_per_second, float literals are sources; taint survives int()/np.uint64()). R2: '
    'straight-line symbolic evaluation of writer and reader followed by a canonical form for nested floor divisions of '
    'integer products: the timestamp printed into the file name for sample k and the sub-directory timestamp must be the '
    'same function of (k, d, n, cadences) on both sides. R3: regular-language equality of the file-name and sub-directory'
    ' formats (constants folded) and inclusion in the listing grammar. R4: every local in the backward slice of the '
    "opened path is assigned on every iteration before the open (must-pass), and the slice reaches the group's file "
    'index. R5: the iterable of the per-file loop is the groupby result itself (or a local all of whose definitions are);'
    ' a definition that pairs the whole ungrouped input with the key of one element is reported (samples stored without '
    'their own key being evaluated), any other definition is not decided (exit 2). R6: the writer method that reads the '
    'stored properties of an existing channel raises on `!=` for every attribute the per-file generator reads (rate, '
    "cadences, prefix), and the constructor reaches it whenever a properties file is found. R7: in the reader's candidate"
    ' loop a value in the backward slice of the probed names that is carried across iterations must be updated on every '
    "path through the loop body. R8: no normal exit of the reader's constructor is reached from the raw store of the "
    'file-name prefix without the store that decodes it. R9: who-may-write - an attribute of the reader that the candidate-list '
    'method reads is stored or mutated only by the constructor (and private helpers only it calls): no listing remembered across reads. '
    'R10: every definition of the path handed to h5py.File in the writer ends in the formatted base name (no staging prefix).')
TECHNIQUE = ("Python ast; float-taint dataflow; symbolic straight-line evaluation + canonical form of nested floor divisions "
             "(writer/reader sibling agreement); CFG must-pass over the backward slice; regular-language algebra")
ASSUMPTIONS = ["Python int arithmetic is exact; floor(floor(x/a)/b) = floor(x/(a*b)) for positive integers",
               "strftime field widths for dates within the property's bounds"]
FILES = ["python/digital_rf/digital_metadata.py", "python/digital_rf/list_drf.py"]
